#!/usr/bin/env python3
"""Run the repository's baseline test command with the hook guard OFF and
compare against /root/.vp/BASELINE.json's stable_pass list.
Usage: tools/baseline.py [repo_dir]   (default /repo)
Exit 0 iff every stable_pass test still passes."""
import json, os, subprocess, sys, tempfile
import xml.etree.ElementTree as ET

repo = os.path.abspath(sys.argv[1]) if len(sys.argv) > 1 else "/repo"
base = json.load(open("/root/.vp/BASELINE.json"))
fd, junit = tempfile.mkstemp(suffix=".xml"); os.close(fd)
env = dict(os.environ)
env.pop("HYLANG_HY_VERIF", None)
# never consult or write __pycache__ inside the tree: stale byte-code of hy's own .hy files,
# compiled by an earlier state of the compiler, could hide a change
import shutil
_pc = tempfile.mkdtemp(prefix="hybase-pyc-")
env["PYTHONPYCACHEPREFIX"] = _pc
env.pop("PYTHONDONTWRITEBYTECODE", None)
if repo != "/repo":
    env["PYTHONPATH"] = repo
cmd = ["/venv/bin/python", "-m", "pytest", "-ra", "-q", "-p", "no:cacheprovider",
       "--timeout=900", "--continue-on-collection-errors", f"--junitxml={junit}",
       "-x" if False else "-q"]
r = subprocess.run(cmd, cwd=repo, env=env, capture_output=True, text=True)
passed = set()
for tc in ET.parse(junit).getroot().iter("testcase"):
    bad = any(ch.tag in ("failure", "error", "skipped") for ch in tc)
    if not bad:
        passed.add(f"{tc.get('classname')}::{tc.get('name')}")
os.unlink(junit)
shutil.rmtree(_pc, ignore_errors=True)
missing = [t for t in base["stable_pass"] if t not in passed]
print(f"baseline: {len(base['stable_pass']) - len(missing)}/{len(base['stable_pass'])} stable tests pass in {repo}")
for t in missing[:30]:
    print("  NOT PASSING:", t)
if missing:
    print(r.stdout[-3000:])
sys.exit(1 if missing else 0)
