#!/usr/bin/env python3
"""Generate MANIFEST.json from checks/*.py (those that exist) + meta table."""
import json, os, re, sys
V = os.path.dirname(os.path.dirname(os.path.abspath(__file__)))
sys.path.insert(0, V)
props = [json.loads(l) for l in open(os.path.join(V, "properties.jsonl"))]
import ast as _ast
def _meta(path):
    tree = _ast.parse(open(path).read())
    for node in tree.body:
        if isinstance(node, _ast.Assign) and any(getattr(t, "id", None) == "MANIFEST" for t in node.targets):
            return _ast.literal_eval(node.value)
    return {}
claimed = set(open(os.path.join(V, "tools", "claimed.txt")).read().split())
na_reasons = json.load(open(os.path.join(V, "tools", "na_reasons.json")))
checks, na = [], []
for p in props:
    pid = p["id"]
    path = os.path.join(V, "checks", pid.lower() + ".py")
    m = _meta(path) if os.path.exists(path) else {}
    if pid in na_reasons:
        m = {"na_reason": na_reasons[pid]}
    if os.path.exists(path) and "text" in m and pid in claimed:
        src = open(path).read()
        level = re.search(r'^LEVEL\s*=\s*"(\w+)"', src, re.M).group(1)
        checks.append({
            "property_id": pid,
            "quick_cmd": f"./check {pid} --tier quick",
            "thorough_cmd": f"./check {pid} --tier thorough",
            "evidence_file": f"evidence/{pid}.json",
            "replay_cmd_template": f"./check {pid} --replay {{path}}",
            "engine": "hv",
            "level_claimed": {"category": level, "text": m["text"],
                              "design_ref": f"DESIGN.md section 7, {pid}"},
            "level_note": m["note"],
            "technique": m["technique"],
        })
    else:
        na.append({"property_id": pid,
                   "reason": m.get("na_reason", "no runtime monitor built for this property yet (design in DESIGN.md section 7); not claimed")})
man = {
    "version": 1,
    "setup_cmd": "/venv/bin/python setup.py",
    "hooks": {
        "guard": "HYLANG_HY_VERIF",
        "enable": "set to 1 by ./check in every process it starts; all instrumentation (trace logger/failpoint, sys.monitoring probes, wrappers) is attached from /verif at process start; /repo contains no hook code",
        "baseline_off_cmd": "cd /repo && env -u HYLANG_HY_VERIF /venv/bin/python -m pytest -ra -q -p no:cacheprovider --timeout=900 --continue-on-collection-errors",
        "source_commits": [],
        "add_only": True,
    },
    "engines": [{
        "name": "hv", "path": "hv/",
        "serves_properties": [c["property_id"] for c in checks],
        "kind_free_text": "runtime monitoring harness: generated workloads run against the working tree's hy in up to 16 worker processes; oracles over recorded histories (values, effect traces, exceptions, namespaces, emitted AST, process output); fault injection through the trace logger; sys.monitoring reach probes and (C38) schedule control",
    }],
    "checks": checks,
    "not_applicable": na,
    "notes": "Exit codes: 0 held on everything explored, 1 violation (VIOLATION line with replay), 2 inconclusive (floors/monitors not reached). Known findings: known_findings.json. VERIF_SEED, VERIF_TIER, VERIF_BUDGET_S honoured.",
}
json.dump(man, open(os.path.join(V, "MANIFEST.json"), "w"), indent=1)
print(f"MANIFEST.json: {len(checks)} checks, {len(na)} not claimed")
