#!/usr/bin/env python3
"""Write seeded/RESULTS.md from seeded/*/meta.json."""
import glob, json, os
V = os.path.dirname(os.path.dirname(os.path.abspath(__file__)))
rows = []
for d in sorted(glob.glob(os.path.join(V, "seeded", "*/"))):
    try:
        m = json.load(open(os.path.join(d, "meta.json")))
    except Exception:
        continue
    runs = m.get("check_runs", [])
    caught = sorted({p for r in runs for p in r.get("caught_by", [])})
    missed_first = [r for r in runs if not r.get("caught_by")]
    c = m.get("confirmed_by_lead", {})
    rows.append((os.path.basename(d.rstrip("/")), str(m.get("property", "")), str(m.get("summary", ""))[:160].replace("|", "/").replace("\n", " "),
                 str(m.get("needs", ""))[:160].replace("|", "/").replace("\n", " "),
                 "yes" if c.get("patch_applies") and c.get("demo_rc_on_repo") == 0 and c.get("demo_rc_with_patch") not in (0, None) else "?",
                 ", ".join(caught) or "NOT CAUGHT", f"{len(missed_first)} earlier run(s) missed it" if missed_first and caught else ""))
with open(os.path.join(V, "seeded", "RESULTS.md"), "w") as f:
    f.write("# Seeded defects (written by independent sub-agents from the property text only)\n\n"
            "Each directory: patch.diff, the demonstration, meta.json (what it breaks, what it needs, what was run).\n"
            "Confirmed = patch applies to /repo's tree, 584/584 baseline passes with it, demo fails with it and passes without.\n\n"
            "| id | property | change | needs to manifest | confirmed | caught by | note |\n|---|---|---|---|---|---|---|\n")
    for r in rows:
        f.write("| " + " | ".join(r) + " |\n")
print(len(rows))
