#!/usr/bin/env python3
"""Confirm a seeded defect and run checks against it.
Usage: tools/seedtest.py SEEDED_DIR PID[,PID...] [--budget S] [--workers N] [--tier T] [--no-baseline]
SEEDED_DIR holds patch.diff, a demo (demo.py / demo.hy / any *.py|*.hy) and meta.json.
Steps: scratch copy of /repo (outside /repo and /verif) + patch; baseline tests; demo must fail on the
patched copy and pass on /repo; then each check runs with VERIF_REPO=<scratch>. Prints a one-line JSON summary."""
import argparse, glob, json, os, shutil, subprocess, sys, tempfile
ap = argparse.ArgumentParser()
ap.add_argument("dir"); ap.add_argument("pids")
ap.add_argument("--budget", default="15"); ap.add_argument("--workers", default="8"); ap.add_argument("--tier", default="quick")
ap.add_argument("--no-baseline", action="store_true")
ap.add_argument("--keep", help="id under /verif/seeded/ to keep the confirmed change as")
a = ap.parse_args()
V = os.path.dirname(os.path.dirname(os.path.abspath(__file__)))
d = os.path.abspath(a.dir)
demos = [f for f in sorted(glob.glob(d + "/*")) if f.endswith((".py", ".hy")) and "patch" not in os.path.basename(f)]
demo = ([f for f in demos if os.path.basename(f).startswith("demo")] or demos)[0]
scratch = tempfile.mkdtemp(prefix="hyseed-")
out = {"dir": os.path.basename(d)}
def run_demo(root):
    env = dict(os.environ, PYTHONPATH=root, HY_ROOT=root); env.pop("PYTHONDONTWRITEBYTECODE", None)
    env["PYTHONPYCACHEPREFIX"] = os.path.join(scratch, "pc-" + str(abs(hash(root))))
    cmd = ["/venv/bin/python", demo] if demo.endswith(".py") else ["/venv/bin/python", "-m", "hy", demo]
    try:
        return subprocess.run(cmd, cwd=root, env=env, capture_output=True, text=True, timeout=300).returncode
    except subprocess.TimeoutExpired:
        return "timeout"
try:
    root = os.path.join(scratch, "repo")
    subprocess.run(["rsync", "-a", "--exclude", ".git", "--exclude", "__pycache__", "/repo/", root + "/"], check=True)
    r = subprocess.run(["patch", "-p1", "-d", root, "-i", os.path.join(d, "patch.diff")], capture_output=True, text=True)
    out["applies"] = r.returncode == 0
    if r.returncode != 0:
        print(json.dumps(out), r.stdout[-400:]); sys.exit(3)
    if not a.no_baseline:
        b = subprocess.run([os.path.join(V, "tools", "baseline.py"), root], capture_output=True, text=True)
        out["baseline_pass"] = b.returncode == 0
        if b.returncode != 0: out["baseline_tail"] = b.stdout[-600:]
    out["demo_with_patch_rc"] = run_demo(root)
    out["demo_on_repo_rc"] = run_demo("/repo")
    caught = {}
    for pid in a.pids.split(","):
        env = dict(os.environ, VERIF_REPO=root, VERIF_BUDGET_S=a.budget)
        c = subprocess.run([os.path.join(V, "check"), pid, "--workers", a.workers, "--tier", a.tier], env=env, capture_output=True, text=True, cwd=V)
        why = [l.strip()[:260] for l in c.stdout.splitlines() if l.startswith(("  why", "INCONCLUSIVE"))][:1]
        caught[pid] = {"rc": c.returncode, "why": why}
    out["checks"] = caught
    out["caught_by"] = [p for p, v in caught.items() if v["rc"] == 1]
    confirmed = out["applies"] and out.get("baseline_pass", None) is not False and \
        out["demo_with_patch_rc"] not in (0, "timeout") and out["demo_on_repo_rc"] == 0
    out["confirmed"] = bool(confirmed)
    if a.keep and confirmed:
        dst = os.path.join(V, "seeded", a.keep)
        os.makedirs(dst, exist_ok=True)
        if os.path.abspath(d) != os.path.abspath(dst):
            shutil.copy(os.path.join(d, "patch.diff"), dst)
            shutil.copy(demo, dst)
        meta = {}
        try:
            meta = json.load(open(os.path.join(d, "meta.json")))
        except Exception:
            pass
        prev = {}
        try:
            prev = json.load(open(os.path.join(dst, "meta.json")))
        except Exception:
            pass
        meta["confirmed_by_lead"] = {
            "patch_applies": True, "baseline_584_pass": out.get("baseline_pass", prev.get("confirmed_by_lead", {}).get("baseline_584_pass")),
            "demo_rc_with_patch": out["demo_with_patch_rc"], "demo_rc_on_repo": out["demo_on_repo_rc"],
            "how": "tools/seedtest.py: rsync copy of /repo + patch; tools/baseline.py; demo run with PYTHONPATH=<copy> and =/repo"}
        runs = prev.get("check_runs", [])
        runs.append({"tier": a.tier, "budget_s": a.budget, "workers": a.workers,
                     "results": {p: v["rc"] for p, v in caught.items()}, "caught_by": out["caught_by"],
                     "first_why": {p: v["why"] for p, v in caught.items() if v["why"]}})
        meta["check_runs"] = runs
        json.dump(meta, open(os.path.join(dst, "meta.json"), "w"), indent=1)
    print(json.dumps(out))
    sys.exit(0 if out["caught_by"] else 1)
finally:
    shutil.rmtree(scratch, ignore_errors=True)
