#!/bin/bash
# usage: tools/runall.sh [--tier T] ID...   -> one summary block per check
tier=quick
if [ "$1" = "--tier" ]; then tier=$2; shift 2; fi
for p in "$@"; do
  out=$(./check $p --tier $tier 2>&1); rc=$?
  echo "=== $p rc=$rc"
  echo "$out" | grep -E "^(C[0-9]+ tier|HELD|VIOLATION|INCONCLUSIVE|KNOWN-FINDING|  why)" | cut -c1-400
done
