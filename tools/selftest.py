#!/usr/bin/env python3
"""Run checks against a patched scratch copy of /repo.
Usage: tools/selftest.py PATCH PID[,PID...] [--baseline] [--budget S] [--workers N] [--tier T]
Exit 0 iff at least one named check reports a VIOLATION (exit code 1) on the patched copy.
The scratch copy lives outside /repo and /verif and is removed afterwards."""
import argparse, os, shutil, subprocess, sys, tempfile

ap = argparse.ArgumentParser()
ap.add_argument("patch"); ap.add_argument("pids")
ap.add_argument("--baseline", action="store_true")
ap.add_argument("--budget", default="15"); ap.add_argument("--workers", default="8")
ap.add_argument("--tier", default="quick")
ap.add_argument("--reverse", action="store_true")
a = ap.parse_args()
V = os.path.dirname(os.path.dirname(os.path.abspath(__file__)))
scratch = tempfile.mkdtemp(prefix="hymut-")
try:
    subprocess.run(["rsync", "-a", "--exclude", ".git", "--exclude", "__pycache__", "/repo/", scratch + "/"], check=True)
    r = subprocess.run(["git", "apply", "--unsafe-paths"] + (["-R"] if a.reverse else []) + ["--directory", scratch, os.path.abspath(a.patch)],
                       cwd="/", capture_output=True, text=True)
    if r.returncode != 0:
        r = subprocess.run(["patch", "-p1"] + (["-R"] if a.reverse else []) + ["-d", scratch, "-i", os.path.abspath(a.patch)], capture_output=True, text=True)
        if r.returncode != 0:
            print("PATCH DOES NOT APPLY:", r.stdout[-500:], r.stderr[-500:]); sys.exit(3)
    if a.baseline:
        b = subprocess.run([os.path.join(V, "tools", "baseline.py"), scratch], capture_output=True, text=True)
        print(b.stdout.strip().splitlines()[0] if b.stdout else b.stderr[-300:])
        if b.returncode != 0:
            print("MUTANT FAILS BASELINE TESTS"); print(b.stdout[-1500:])
    caught = []
    for pid in a.pids.split(","):
        env = dict(os.environ, VERIF_REPO=scratch, VERIF_BUDGET_S=a.budget)
        c = subprocess.run([os.path.join(V, "check"), pid, "--workers", a.workers, "--tier", a.tier],
                           env=env, capture_output=True, text=True, cwd=V)
        lines = [l for l in c.stdout.splitlines() if l.startswith(("VIOLATION", "  why", "HELD", "INCONCLUSIVE", "KNOWN"))]
        print(f"[{pid}] exit={c.returncode}", " | ".join(l[:220] for l in lines[:3]))
        if c.returncode == 1:
            caught.append(pid)
        elif c.returncode not in (0, 1):
            print(c.stderr[-800:])
    print("CAUGHT by", caught if caught else "nothing")
    sys.exit(0 if caught else 1)
finally:
    shutil.rmtree(scratch, ignore_errors=True)
