#!/usr/bin/env python3
"""Regenerate the tables of DESIGN.md 12.3 (repairs) and 12.4 (known findings) from
known_findings.json and /repo's git log. Tables live between HTML comment markers."""
import json, os, re, subprocess
V = os.path.dirname(os.path.dirname(os.path.abspath(__file__)))
kf = json.load(open(os.path.join(V, "known_findings.json")))["findings"]
log = subprocess.run(["git", "-C", "/repo", "log", "--reverse", "--format=%h %s", "e3cd5ce..HEAD"],
                     capture_output=True, text=True).stdout.splitlines()
by = {}
for f in kf:
    if f["status"] == "fixed":
        by.setdefault(f["commit"], []).append((f["property"], f["key"]))
fix = ["| commit | property | what failed | mechanism key(s) |", "|---|---|---|---|"]
for l in log:
    h, s = l.split(" ", 1)
    pk = by.get(h, [])
    fix.append(f"| `{h}` | {', '.join(sorted({p for p, _ in pk})) or '-'} | {s[5:].replace('|', '/')} | {', '.join(sorted({k for _, k in pk}))} |")
known = ["| property | key | what fails, and why it was not repaired |", "|---|---|---|"]
for f in kf:
    if f["status"] == "known":
        known.append(f"| {f['property']} | `{f['key']}` | {f['description'][:420].replace('|', '/')} |")
p = os.path.join(V, "DESIGN.md")
s = open(p).read()
def put(s, name, rows):
    b, e = f"<!-- {name}:BEGIN -->", f"<!-- {name}:END -->"
    block = b + "\n" + "\n".join(rows) + "\n" + e
    if b in s:
        return re.sub(re.escape(b) + r".*?" + re.escape(e), lambda m: block, s, flags=re.S)
    raise SystemExit(f"marker {name} missing")
s = put(s, "FIXTABLE", fix)
s = put(s, "KNOWNTABLE", known)
n_fix, n_known = len(log), sum(1 for f in kf if f["status"] == "known")
s = re.sub(r"\(What actually happened — .*? is in §12\.3–§12\.5\.\)",
           f"(What actually happened — {n_fix} repairs, {n_known} recorded findings, the false alarms met — is in §12.3–§12.5.)", s)
open(p, "w").write(s)
print(n_fix, "repairs,", n_known, "known")
