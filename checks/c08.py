"""C08 — match selects, binds and returns like Python's match statement.

History observed per (program, subject): the value returned by the Hy `match`
form (or the escaping exception type), the ordered trace of guard evaluations
and of the selected case's body (which logs the case index and the values of
the names its pattern binds), and at module scope the bindings left in the
namespace for the selected case's names. Reference: CPython executing a
`match` statement rendered from the same pattern IR.
"""
import copy
import types
import warnings

from hv.common import Trace, compile_hy, exec_py, fresh_module, rng_for
from hv.twins1 import diff_outcome, outcome, show

ID = "C08"
LEVEL = "exploration"
RULE = ("one evaluation = (match program, subject). Programs have 1-5 cases; each pattern is generated from "
        "an IR of depth <= 3 over literal, capture, _, dotted value, sequence (list/tuple, #* rest), mapping "
        "(#** rest), class (harness classes with __match_args__, dotted class, int/str/float/list/dict/bool; "
        "positional and keyword sub-patterns), |, :as (top level, inside |, inside sequences/mappings/class "
        "arguments) and keyword patterns; literal patterns include string/bytes literals spelled like None/True/"
        "False/_ (also as mapping keys, with the corresponding subjects); optional :if guards, 40% of them "
        "statement-producing, 30% bare literal models of every literal kind (falsy and truthy); bodies log "
        "the case index and return the bound values; module scope and function scope; the match value is "
        "the result, or is assigned with setv/setx (value used) to a target that the subject, a guard or "
        "the bodies read. Subjects are "
        "instantiations of a pattern of the program (exact, or perturbed: literal changed, element "
        "dropped/added, container or class changed) or random values. Non-trivial = some pattern of the "
        "program has depth >= 2, a guard, :as or |; distinct by (program text, subject).")
FLOOR = {"quick": 1000, "thorough": 1000}
BUDGET = {"quick": 24, "thorough": 480}
CASE_TIMEOUT = 20
NEEDS_EVENTS = True
ANCHORS = ["hy.core.result_macros:compile_match_expression",
           "hy.core.result_macros:compile_pattern"]
ASSUMPTIONS = ["CPython 3.12.1 `match` semantics are the reference",
               "bindings left behind by patterns that failed are implementation-defined and not compared",
               "programs whose twin CPython rejects at compile time (unreachable cases, alternatives binding "
               "different names) are skipped"]
MANIFEST = {
    "text": "Generated match programs (pattern IR of depth <= 3 covering every pattern kind of Hy's match sublanguage, guards incl. statement-producing ones, module and function scope) are run on matching-biased subjects; selected case, bound values, returned value, exception type and the guard/body trace are compared with CPython running a match statement rendered from the same IR. Exploration: held on the (program, subject) pairs run.",
    "note": "Trusted: CPython 3.12.1 match; my two pattern renderers. Bounds: depth <= 3, <= 5 cases, small value pools.",
    "technique": "runtime monitoring: differential of observed result / bindings / guard-and-body trace against a CPython match-statement twin rendered from the same pattern IR",
}


warnings.filterwarnings("ignore", category=SyntaxWarning)     # `x is 1` in generated guards

# ---------------------------------------------------------------------------
# harness objects visible to both programs

class Point:
    __match_args__ = ("x", "y")

    def __init__(self, x, y):
        self.x, self.y = x, y

    def __eq__(self, o):
        return type(o) is type(self) and o.__dict__ == self.__dict__

    __hash__ = None

    def __repr__(self):
        return f"{type(self).__name__}({', '.join(map(repr, self.__dict__.values()))})"


class P3(Point):
    __match_args__ = ("x", "y", "z")

    def __init__(self, x, y, z):
        self.x, self.y, self.z = x, y, z


class NoArgs:
    """No __match_args__: positional sub-patterns raise TypeError at match time."""
    x = 1

    def __eq__(self, o):
        return type(o) is NoArgs

    __hash__ = None

    def __repr__(self):
        return "NoArgs()"


class K:
    one = 1
    s = "s"
    none = None
    t = (1, 2)

    class inner:
        two = 2


NS = types.SimpleNamespace(Point=Point, P3=P3)
VALS = {"K.one": "1", "K.s": "'s'", "K.none": "None", "K.t": "(1, 2)", "K.inner.two": "2"}
CLASSES = {"Point": ("x", "y"), "P3": ("x", "y", "z"), "NS.Point": ("x", "y"), "NS.P3": ("x", "y", "z"),
           "NoArgs": ()}
BUILTINS = {"int": ["0", "1", "2", "-1", "True"], "str": ["'a'", "'s'", "''"], "float": ["1.0", "2.5"],
            "list": ["[]", "[1]", "[1, 2]"], "dict": ["{}", "{'k': 1}"], "bool": ["True", "False"],
            "tuple": ["()", "(1, 2)"]}


def env(tr):
    import hy
    return {"Point": Point, "P3": P3, "NoArgs": NoArgs, "K": K, "NS": NS, "L": tr.L,
            "KW": hy.models.Keyword, "hy": hy, "IDENT": lambda v: v, "tgt": "OLD"}


LITS = [("0", "0"), ("1", "1"), ("2", "2"), ("-1", "-1"), ("'a'", '"a"'), ("'s'", '"s"'), ("''", '""'),
        ("None", "None"), ("True", "True"), ("False", "False"), ("2.5", "2.5"), ("1.0", "1.0"),
        ("b'x'", 'b"x"'), ("2j", "2j"), ("0.0", "0.0"), ("0j", "0j")]
# string / bytes literals spelled like the constants and the wildcard: they are ordinary value patterns
CONSTLIKE = [("'None'", '"None"'), ("'True'", '"True"'), ("'False'", '"False"'), ("'_'", '"_"'), ("''", '""'),
             ("b'None'", 'b"None"'), ("b'True'", 'b"True"'), ("b''", 'b""')]
RANDV = ["0", "1", "2", "-1", "True", "False", "None", "1.0", "2.5", "'a'", "'s'", "''", "b'x'", "[]", "[1]",
         "[1, 2]", "(1, 2)", "(1,)", "{}", "{'k': 1}", "{'k': 1, 'j': 2}", "Point(1, 2)", "Point(0, 0)",
         "P3(1, 2, 3)", "NoArgs()", "range(3)", "{1, 2}", "2j", "'abc'", "KW('foo')", "[[1, 2], 'a']",
         "{'k': [1, 2], 1: 'a'}", "Point([1], {'k': 1})",
         "'None'", "'True'", "'False'", "'_'", "b'None'", "b''", "['None', 'True']", "{'None': None, 'True': 1}"]
NAMEPOOL = ["x", "y", "z", "w", "my-v"]
# Hy's mapping-pattern keys are literal models only (str/int/float/complex/bytes); None/True/False and
# dotted values, which Python also allows as keys, cannot be written and are outside the workload
MAPKEYS = [("'k'", '"k"'), ("'j'", '"j"'), ("1", "1"), ("'n'", '"n"'), ("b'x'", 'b"x"'),
           ("'None'", '"None"'), ("'True'", '"True"'), ("'_'", '"_"')]
# literal guards of every literal kind (python text, hy text), falsy and truthy
RAWGUARDS = [("0", "0"), ("1", "1"), ("''", '""'), ("'s'", '"s"'), ("[]", "[]"), ("[1]", "[1]"), ("None", "None"),
             ("False", "False"), ("True", "True"), ("0.0", "0.0"), ("2.5", "2.5"), ("{}", "{}"),
             ("{'k': 1}", '{"k" 1}'), ("()", "#()"), ("(1,)", "#(1)"), ("b''", 'b""'), ("b'x'", 'b"x"'),
             ("0j", "0j"), ("2j", "2j"), ("'None'", '"None"'), ("'False'", '"False"'), ("'0'", '"0"'),
             ("set()", "(set)"), ("{1}", "#{1}")]
KWDS = ["foo", "bar"]


def pyname(n):
    return n.replace("-", "_")


# ---------------------------------------------------------------------------
# pattern generation: gen(rng, depth, names) binds exactly `names`

def split_names(rng, names, m):
    parts = [[] for _ in range(m)]
    for n in names:
        parts[rng.randrange(m)].append(n)
    return parts


def gen(rng, depth, names, in_or=False):
    if not names:
        opts = ["lit"] * 5 + ["wild"] * 1 + ["val"] * 2 + ["kwd"] * 1
        if depth > 0:
            opts += ["seq"] * 4 + ["map"] * 3 + ["cls"] * 4 + ["or"] * 3 + ["as0"] * 0
    else:
        opts = []
        if len(names) == 1:
            opts += ["cap"] * 4
        if depth > 0:
            opts += ["as"] * 3 + ["seq"] * 4 + ["map"] * 3 + ["cls"] * 4 + ["or"] * 2
        if not opts:
            opts = ["seq"]           # depth exhausted with several names: a flat sequence of captures
    k = rng.choice(opts)
    d = max(depth - 1, 0)
    if depth == 0 and len(names) > 1:
        return {"k": "seq", "br": "list", "items": [{"k": "cap", "n": n} for n in names]}
    if k == "lit":
        v, h = rng.choice(CONSTLIKE) if rng.random() < 0.3 else rng.choice(LITS)
        return {"k": "lit", "v": v, "hy": h}
    if k == "wild":
        return {"k": "wild"}
    if k == "val":
        return {"k": "val", "path": rng.choice(list(VALS))}
    if k == "kwd":
        return {"k": "kwd", "name": rng.choice(KWDS)}
    if k == "cap":
        return {"k": "cap", "n": names[0]}
    if k == "as":
        i = rng.randrange(len(names))
        rest = names[:i] + names[i + 1:]
        inner = gen(rng, d, rest, in_or)
        if inner["k"] == "as":
            # Hy's pattern grammar has one optional `:as NAME` per pattern and no grouping form, so
            # ((P as a) as b) cannot be written; wrap the inner AS pattern in a sequence instead
            inner = {"k": "seq", "br": "list", "items": [inner]}
        return {"k": "as", "p": inner, "n": names[i]}
    if k == "seq":
        m = rng.randint(max(1, min(len(names), 2)), 4) if rng.random() < 0.93 else 0
        if m == 0 and names:
            m = len(names)
        items = []
        parts = split_names(rng, names, m) if m else []
        star_at = rng.randrange(m) if m and rng.random() < 0.4 else None
        for i, part in enumerate(parts):
            if i == star_at and (len(part) == 1 or (not part and not in_or and rng.random() < 0.2)):
                items.append({"k": "star", "n": part[0] if part else None})
            else:
                items.append(gen(rng, d, part, in_or))
        return {"k": "seq", "br": rng.choice(["list", "list", "tuple"]), "items": items}
    if k == "map":
        rest = None
        names = list(names)
        if names and rng.random() < 0.3:
            rest = names.pop(rng.randrange(len(names)))
        m = rng.randint(max(1, min(len(names), 2)), 3) if (names or rng.random() < 0.9) else 0
        keys = rng.sample(MAPKEYS, m)
        parts = split_names(rng, names, m) if m else []
        return {"k": "map", "items": [[list(kk), gen(rng, d, part, in_or)] for kk, part in zip(keys, parts)],
                "rest": rest}
    if k == "cls":
        if rng.random() < 0.3 and len(names) <= 1:
            cls = rng.choice(list(BUILTINS))
            pos = [no_leading_keyword(gen(rng, d, names, in_or))] if (names or rng.random() < 0.6) else []
            return {"k": "cls", "cls": cls, "pos": pos, "kw": []}
        cls = rng.choice(["Point", "Point", "P3", "NS.Point", "NS.P3"] + (["NoArgs"] if rng.random() < 0.1 else []))
        attrs = list(CLASSES[cls]) or ["x"]
        m = rng.randint(1 if names else 0, len(attrs))
        parts = split_names(rng, names, m) if m else []
        if names and not m:
            m, parts = 1, [list(names)]
        npos = rng.randint(0, m) if CLASSES[cls] else (1 if rng.random() < 0.5 else 0)
        npos = min(npos, m)
        # Hy cannot write a keyword pattern (:foo) as a positional class sub-pattern
        pos = [no_leading_keyword(gen(rng, d, parts[i], in_or)) for i in range(npos)]
        kwattrs = attrs[npos:]
        if rng.random() < 0.06:
            kwattrs = attrs                      # keyword naming a positional attribute: TypeError at match time
        rng.shuffle(kwattrs)
        kw = [[kwattrs[i - npos], gen(rng, d, parts[i], in_or)] for i in range(npos, m) if i - npos < len(kwattrs)]
        bound = sum((parts[i] for i in range(npos)), []) + sum((parts[i] for i in range(npos, npos + len(kw))), [])
        missing = [n for n in names if n not in bound]
        if missing:                              # could not place every part: bind the leftovers next to it
            return {"k": "seq", "br": "list", "items": [{"k": "cls", "cls": cls, "pos": pos, "kw": kw}] +
                    [{"k": "cap", "n": n} for n in missing]}
        return {"k": "cls", "cls": cls, "pos": pos, "kw": kw}
    if k == "or":
        alts = [gen(rng, d, names, True) for _ in range(rng.randint(2, 3))]
        # CPython: an irrefutable alternative must be the last one
        irr = [a for a in alts if irrefutable(a)]
        alts = [a for a in alts if not irrefutable(a)] + irr[:1]
        if len(alts) < 2:
            alts.insert(0, gen(rng, 0, []) if not names else {"k": "seq", "br": "list", "items": [
                {"k": "cap", "n": n} for n in names]})
        return {"k": "or", "alts": alts}
    raise ValueError(k)


def no_leading_keyword(p):
    if p["k"] == "kwd":
        return {"k": "lit", "v": "'a'", "hy": '"a"'}
    if p["k"] == "as":
        return dict(p, p=no_leading_keyword(p["p"]))
    return p


def irrefutable(p):
    k = p["k"]
    if k in ("cap", "wild"):
        return True
    if k == "as":
        return irrefutable(p["p"])
    if k == "or":
        return any(irrefutable(a) for a in p["alts"])
    return False


def depth_of(p):
    k = p["k"]
    if k == "seq":
        return 1 + max((depth_of(i) for i in p["items"] if i["k"] != "star"), default=0)
    if k == "map":
        return 1 + max((depth_of(v) for _, v in p["items"]), default=0)
    if k == "cls":
        return 1 + max([depth_of(x) for x in p["pos"]] + [depth_of(v) for _, v in p["kw"]], default=0)
    if k == "or":
        return 1 + max(depth_of(a) for a in p["alts"])
    if k == "as":
        return 1 + depth_of(p["p"])
    return 0


def kinds_of(p, out=None):
    out = set() if out is None else out
    k = p["k"]
    out.add(k)
    for c in children(p):
        kinds_of(c, out)
    if k == "map" and p["rest"]:
        out.add("map-rest")
    if k == "cls":
        if p["pos"]:
            out.add("cls-positional")
        if p["kw"]:
            out.add("cls-keyword")
        if "." in p["cls"]:
            out.add("cls-dotted")
        if p["cls"] in BUILTINS:
            out.add("cls-builtin")
    if k == "or" and any(c["k"] == "as" for c in p["alts"]):
        out.add("as-inside-or")
    if k == "seq" and any(c["k"] == "as" for c in p["items"]):
        out.add("as-inside-seq")
    return out


def children(p):
    k = p["k"]
    if k == "seq":
        return [i for i in p["items"]]
    if k == "map":
        return [v for _, v in p["items"]]
    if k == "cls":
        return list(p["pos"]) + [v for _, v in p["kw"]]
    if k == "or":
        return p["alts"]
    if k == "as":
        return [p["p"]]
    return []


# ---------------------------------------------------------------------------
# renderers

def hy_pat(p):
    k = p["k"]
    if k == "lit":
        return p["hy"]
    if k == "wild":
        return "_"
    if k == "cap":
        return p["n"]
    if k == "val":
        return p["path"]
    if k == "kwd":
        return ":" + p["name"]
    if k == "star":
        return "#* " + (p["n"] or "_")
    if k == "seq":
        inner = " ".join(hy_pat(i) for i in p["items"])
        return f"[{inner}]" if p["br"] == "list" else f"#({inner})"
    if k == "map":
        parts = [f"{kk[1]} {hy_pat(v)}" for kk, v in p["items"]]
        if p["rest"]:
            parts.append("#** " + p["rest"])
        return "{" + " ".join(parts) + "}"
    if k == "cls":
        parts = [p["cls"]] + [hy_pat(x) for x in p["pos"]] + [f":{a} {hy_pat(v)}" for a, v in p["kw"]]
        return "(" + " ".join(parts) + ")"
    if k == "or":
        return "(| " + " ".join(hy_pat(a) for a in p["alts"]) + ")"
    if k == "as":
        return f"{hy_pat(p['p'])} :as {p['n']}"
    raise ValueError(k)


def py_pat(p):
    k = p["k"]
    if k == "lit":
        return p["v"]
    if k == "wild":
        return "_"
    if k == "cap":
        return pyname(p["n"])
    if k == "val":
        return p["path"]
    if k == "kwd":
        return f'hy.models.Keyword("{p["name"]}")'
    if k == "star":
        return "*" + (pyname(p["n"]) if p["n"] else "_")
    if k == "seq":
        items = [py_pat(i) for i in p["items"]]
        if p["br"] == "list":
            return "[" + ", ".join(items) + "]"
        return "(" + "".join(i + ", " for i in items) + ")"
    if k == "map":
        parts = [f"{kk[0]}: {py_pat(v)}" for kk, v in p["items"]]
        if p["rest"]:
            parts.append("**" + pyname(p["rest"]))
        return "{" + ", ".join(parts) + "}"
    if k == "cls":
        parts = [py_pat(x) for x in p["pos"]] + [f"{a}={py_pat(v)}" for a, v in p["kw"]]
        return p["cls"] + "(" + ", ".join(parts) + ")"
    if k == "or":
        return "(" + " | ".join(py_pat(a) for a in p["alts"]) + ")"
    if k == "as":
        return f"({py_pat(p['p'])} as {pyname(p['n'])})"
    raise ValueError(k)


GUARD_OPS = {"=": "==", "!=": "!=", "is": "is", "<": "<"}


def hy_guard_expr(g):
    if g["e"] == "const":
        return str(g["v"])
    if g["e"] == "cmp":
        return f"({g['op']} {g['n']} {g['c'][1]})"
    if g["e"] == "isinst":
        return f"(isinstance {g['n']} {g['c']})"
    raise ValueError(g)


def py_guard_expr(g):
    if g["e"] == "const":
        return str(g["v"])
    if g["e"] == "cmp":
        return f"({pyname(g['n'])} {GUARD_OPS[g['op']]} {g['c'][0]})"
    if g["e"] == "isinst":
        return f"isinstance({pyname(g['n'])}, {g['c']})"
    raise ValueError(g)


def hy_guard(g):
    if g["e"] == "raw":
        # a bare literal model as the guard (not wrapped in a logging call)
        return f"(do (setv gtmp{g['k']} 1) {g['c'][1]})" if g["stmt"] else g["c"][1]
    e = hy_guard_expr(g)
    if g["stmt"]:
        return f"(do (setv gtmp{g['k']} {e}) (L {g['k']} gtmp{g['k']}))"
    return f"(L {g['k']} {e})"


def py_guard(g):
    if g["e"] == "raw":
        return g["c"][0]
    return f"L({g['k']}, {py_guard_expr(g)})"


def render(prog):
    """-> (hy text, python text).

    Usage contexts (prog["use"]): the value of the match form is the program's result
    ("plain"), or is assigned with setv / setx to a target T that the subject (T is
    `subject` itself), a guard or the case bodies also READ. Python evaluates subject,
    guards and bodies with T's old value and assigns last; the twin does exactly that."""
    scope, cases_ = prog["scope"], prog["cases"]
    use = prog.get("use") or {"kind": "plain"}
    kind = use["kind"]
    T = use.get("t", "tgt")
    hy_clauses, py_cases = [], []
    for i, c in enumerate(cases_):
        names = list(c["names"])
        extra_h, extra_p = ([T], [T]) if kind != "plain" and use.get("body") else ([], [])
        blist_h = "[" + " ".join(names + extra_h) + "]"
        blist_p = "[" + ", ".join(list(map(pyname, names)) + extra_p) + "]"
        body_h = f"(L {100 + i} {blist_h})"
        if c["body"] == "stmt":
            body_h = f"(do (setv btmp{i} {100 + i}) (L btmp{i} {blist_h}))"
        clause = hy_pat(c["p"])
        head = f"case {py_pat(c['p'])}"
        g = c["guard"]
        if g:
            clause += " :if " + hy_guard(g)
            head += " if " + py_guard(g)
        elif kind != "plain" and use.get("guard") and i % 2 == 0:
            # a guard that reads the assignment target's old value
            gh, gp = ((f'(= {T} "OLD")', f'({T} == "OLD")') if T == "tgt" else
                      (f"(is-not {T} None)", f"({T} is not None)"))
            clause += f" :if (L {30 + i} {gh})"
            head += f" if L({30 + i}, {gp})"
        hy_clauses.append(f"  {clause} {body_h}")
        py_cases.append((head, f"L({100 + i}, {blist_p})"))
    subj_h = "subject" if prog["subj"] == "name" else "(do (setv stmp subject) stmp)"
    body = "\n".join(hy_clauses)
    m_h = f"(match {subj_h}\n{body})"
    ind = "    " if scope == "fn" else ""
    m_p = f"{ind}_r = None\n{ind}match subject:\n"
    for head, ret in py_cases:
        m_p += f"{ind}    {head}:\n{ind}        _r = {ret}\n"
    if kind == "plain":
        use_h, res_h = None, m_h
        use_p, res_p = "", "_r"
    elif kind == "setv":
        use_h, res_h = f"(setv {T} {m_h})", T
        use_p, res_p = f"{ind}{T} = _r\n", T
    else:   # setx, value used
        use_h, res_h = f"(setv out (IDENT (setx {T} {m_h})))", f"[out {T}]"
        use_p, res_p = f"{ind}{T} = _r\n{ind}out = IDENT(_r)\n", f"[out, {T}]"
    if scope == "fn":
        pre_h = '(setv tgt "OLD")\n ' if kind != "plain" and T == "tgt" else ""
        pre_p = '    tgt = "OLD"\n' if kind != "plain" and T == "tgt" else ""
        if kind == "plain":
            hy = f"(defn run [subject]\n {m_h})"
        else:
            hy = f"(defn run [subject]\n {pre_h}{use_h}\n {res_h})"
        py = f"def run(subject):\n{pre_p}{m_p}{use_p}    return {res_p}\n"
    else:
        # module scope: the harness pre-binds tgt = "OLD"
        hy = f"(setv RESULT {m_h})" if kind == "plain" else f"{use_h}\n(setv RESULT {res_h})"
        py = f"{m_p}{use_p}RESULT = {res_p}\n"
    return hy, py


# ---------------------------------------------------------------------------
# subjects: instantiate a pattern (q = probability of a deliberate perturbation per node)

def rand_value(rng):
    return rng.choice(RANDV)


def inst(rng, p, q):
    k = p["k"]
    if q and rng.random() < q:
        return perturb(rng, p)
    if k == "lit":
        return p["v"]
    if k in ("cap", "wild"):
        return rand_value(rng)
    if k == "val":
        return VALS[p["path"]]
    if k == "kwd":
        return f"KW('{p['name']}')"
    if k == "seq":
        elts = []
        for i in p["items"]:
            if i["k"] == "star":
                elts += [rand_value(rng) for _ in range(rng.choice([0, 1, 2]))]
            else:
                elts.append(inst(rng, i, q))
        if rng.random() < 0.5:
            return "[" + ", ".join(elts) + "]"
        return "(" + "".join(e + ", " for e in elts) + ")"
    if k == "map":
        parts = [f"{kk[0]}: {inst(rng, v, q)}" for kk, v in p["items"]]
        if rng.random() < 0.4:
            parts.append(f"'extra': {rand_value(rng)}")
        return "{" + ", ".join(parts) + "}"
    if k == "cls":
        cls = p["cls"]
        if cls in BUILTINS:
            if p["pos"] and p["pos"][0]["k"] not in ("cap", "wild"):
                v = inst(rng, p["pos"][0], q)
                return v
            return rng.choice(BUILTINS[cls])
        if cls == "NoArgs":
            return "NoArgs()"
        attrs = CLASSES[cls]
        vals = {a: rand_value(rng) for a in attrs}
        for a, sp in zip(attrs, p["pos"]):
            vals[a] = inst(rng, sp, q)
        for a, sp in p["kw"]:
            vals[a] = inst(rng, sp, q)
        return f"{cls.split('.')[-1]}(" + ", ".join(vals[a] for a in attrs) + ")"
    if k == "or":
        return inst(rng, rng.choice(p["alts"]), q)
    if k == "as":
        return inst(rng, p["p"], q)
    raise ValueError(k)


def perturb(rng, p):
    k = p["k"]
    if k == "lit":
        same_eq = {"1": ["True", "1.0"], "0": ["False", "0.0"], "True": ["1", "'True'"], "False": ["0", "'False'"],
                   "1.0": ["1"], "None": ["False", "0", "'None'"], "''": ["b''", "()"], "'a'": ["b'a'", "['a']"],
                   "'None'": ["None", "b'None'", "'none'"], "'True'": ["True", "b'True'"],
                   "'False'": ["False", "''"], "'_'": ["'a'", "None"], "b'None'": ["'None'", "None"],
                   "b'True'": ["True", "'True'"], "b''": ["''", "None"]}
        return rng.choice(same_eq.get(p["v"], []) + [rng.choice(LITS + CONSTLIKE)[0]])
    if k == "seq":
        elts = [inst(rng, i, 0) for i in p["items"] if i["k"] != "star"]
        r = rng.random()
        if r < 0.3 and elts:
            elts.pop(rng.randrange(len(elts)))
        elif r < 0.6:
            elts.insert(rng.randint(0, len(elts)), rand_value(rng))
        elif r < 0.7:
            return "'" + "ab"[:len(elts)] + "'"            # str is not a sequence for match
        elif r < 0.8:
            return "{" + ", ".join(f"{i}: {e}" for i, e in enumerate(elts)) + "}"
        elif r < 0.9 and elts:
            elts[rng.randrange(len(elts))] = rand_value(rng)
        return "[" + ", ".join(elts) + "]"
    if k == "map":
        items = [(kk[0], inst(rng, v, 0)) for kk, v in p["items"]]
        r = rng.random()
        if r < 0.4 and items:
            items.pop(rng.randrange(len(items)))
        elif r < 0.6 and items:
            i = rng.randrange(len(items))
            items[i] = (items[i][0], rand_value(rng))
        elif r < 0.8:
            return "[" + ", ".join(v for _, v in items) + "]"
        return "{" + ", ".join(f"{a}: {b}" for a, b in items) + "}"
    if k == "cls" and p["cls"] not in BUILTINS and p["cls"] != "NoArgs":
        other = dict(p, cls=rng.choice(["Point", "P3"]))
        return inst(rng, other, 0)
    return rand_value(rng)


# ---------------------------------------------------------------------------
# case generation

def gen_guard(rng, names, k):
    r = rng.random()
    stmt = rng.random() < 0.4
    if rng.random() < 0.3:
        return {"e": "raw", "c": list(rng.choice(RAWGUARDS)), "stmt": stmt and rng.random() < 0.5, "k": k}
    if not names or r < 0.3:
        return {"e": "const", "v": rng.choice(["True", "False", "True"]), "stmt": stmt, "k": k}
    n = rng.choice(names)
    if r < 0.75:
        return {"e": "cmp", "op": rng.choice(["=", "!=", "=", "is", "<"]), "n": n,
                "c": list(rng.choice(LITS[:11])), "stmt": stmt, "k": k}
    return {"e": "isinst", "n": n, "c": rng.choice(["int", "str", "list", "Point"]), "stmt": stmt, "k": k}


def gen_program(rng):
    ncases = rng.choice([1, 2, 2, 3, 3, 4, 5])
    cases_ = []
    for i in range(ncases):
        nn = rng.choice([0, 1, 1, 2, 2, 3])
        names = rng.sample(NAMEPOOL, nn)
        p = gen(rng, rng.choice([0, 1, 2, 2, 3, 3]), names)
        guard = gen_guard(rng, names, 10 + i) if rng.random() < 0.35 else None
        if irrefutable(p) and guard is None and i != ncases - 1 and rng.random() < 0.95:
            guard = gen_guard(rng, names, 10 + i)       # CPython rejects an unguarded irrefutable non-last case
        cases_.append({"p": p, "names": sorted(names), "guard": guard,
                       "body": "stmt" if rng.random() < 0.25 else "expr"})
    use = {"kind": "plain"}
    if rng.random() < 0.4:
        use = {"kind": rng.choice(["setv", "setv", "setx"]), "t": rng.choice(["tgt", "tgt", "subject"]),
               "body": rng.random() < 0.6, "guard": rng.random() < 0.5}
    return {"scope": rng.choice(["fn", "fn", "module"]), "subj": rng.choice(["name", "name", "stmt"]),
            "cases": cases_, "use": use}


def cases(seed, tier, shard, nshards):
    i = 0
    K = 8
    while True:
        rng = rng_for(seed, ID, shard, i)
        i += 1
        prog = gen_program(rng)
        hy, py = render(prog)
        subjects = []
        for _ in range(K):
            c = rng.choice(prog["cases"])
            r = rng.random()
            if r < 0.5:
                subjects.append(inst(rng, c["p"], 0))
            elif r < 0.87:
                subjects.append(inst(rng, c["p"], 0.25))
            else:
                subjects.append(rand_value(rng))
        yield {"prog": prog, "hy": hy, "py": py, "subjects": subjects}


def case_key(case):
    return [case["hy"], case["subjects"]]


# ---------------------------------------------------------------------------
# running

def compile_both(case):
    """-> (hy code | exception, python code | exception)."""
    m = fresh_module("hvmatch")
    import sys
    sys.modules[m.__name__] = m
    try:
        try:
            tree = compile_hy(case["hy"], m)
            hcode = compile(tree, "<hvcase>", "exec")
        except Exception as e:
            hcode = e
    finally:
        sys.modules.pop(m.__name__, None)
    try:
        pcode = compile(case["py"], "<hvtwin>", "exec")
    except Exception as e:
        pcode = e
    return hcode, pcode


def run_one(code, scope, subject_spec, names_of_case):
    """Execute one program on one subject; -> (outcome, trace, bindings of the selected case)."""
    tr = Trace()
    ns = env(tr)
    ns["__name__"] = "hvmatch_run"
    subject = eval(subject_spec, dict(ns))
    if scope == "fn":
        exec(code, ns)
        out = outcome(ns["run"], subject)
        binds = None
    else:
        ns["subject"] = subject

        def go():
            exec(code, ns)
            return ns.get("RESULT")
        out = outcome(go)
        binds = None
        sel = [e[0] for e in tr.events if isinstance(e[0], int) and e[0] >= 100]
        if out[0] == "val" and sel:
            binds = {n: ns.get(pyname(n), "<unbound>") for n in names_of_case[sel[-1] - 100]}
    return out, tr.events, binds


def walk(p):
    yield p
    for c in children(p):
        yield from walk(c)


def name_wildcard_stars(prog):
    """Normaliser for the finding 'match-star-wildcard-uncompilable': give every `#* _`
    a fresh capture name (the only change; matching behaviour is the same)."""
    prog = copy.deepcopy(prog)
    n = 0
    for c in prog["cases"]:
        for node in walk(c["p"]):
            if node["k"] == "star" and node["n"] is None:
                node["n"] = f"unusedstar{n}"
                n += 1
    return prog, n


def run_case(case):
    res = evaluate(case)
    if res.get("ok") is False and res.pop("hy_compile_failed", False):
        prog2, n = name_wildcard_stars(case["prog"])
        if n:
            hy2, py2 = render(prog2)
            res2 = evaluate(dict(case, prog=prog2, hy=hy2, py=py2))
            if res2.get("ok") is True:
                res["finding"] = "match-star-wildcard-uncompilable"
                res["classes"].append("finding:match-star-wildcard-uncompilable")
            elif res2.get("ok") is False:
                # a different violation remains once `#* _` is named: report that one
                res["why"] = ("(after naming `#* _`, which alone makes Hy fail to compile) " +
                              str(res2.get("why")))[:1400]
    return res


def evaluate(case):
    prog = case["prog"]
    kinds = set()
    for c in prog["cases"]:
        kinds_of(c["p"], kinds)
    maxdepth = max(depth_of(c["p"]) for c in prog["cases"])
    guards = [c["guard"] for c in prog["cases"] if c["guard"]]
    classes = ["scope:" + prog["scope"], f"cases:{len(prog['cases'])}", f"depth:{maxdepth}"] + \
        ["pat:" + k for k in sorted(kinds)]
    if any(n["k"] == "star" and n["n"] is None for c in prog["cases"] for n in walk(c["p"])):
        classes.append("pat:star-wildcard")
    if guards:
        classes.append("guard")
    if any(g["stmt"] for g in guards):
        classes.append("guard:statement")
    for g in guards:
        if g["e"] == "raw":
            falsy = not eval(g["c"][0])
            classes.append("guard:literal-" + ("falsy" if falsy else "truthy") + ("-statement" if g["stmt"] else ""))
    constlike = {v for v, _ in CONSTLIKE}
    if any(n["k"] == "lit" and n["v"] in constlike for c in prog["cases"] for n in walk(c["p"])):
        classes.append("pat:string-spelled-like-constant")
    if any(n["k"] == "map" and any(kk[0] in constlike for kk, _ in n["items"])
           for c in prog["cases"] for n in walk(c["p"])):
        classes.append("pat:mapping-key-spelled-like-constant")
    if any(any(v in spec for v in ("'None'", "'True'", "'False'", "'_'", "b'None'")) for spec in case["subjects"]):
        classes.append("subject:string-spelled-like-constant")
    if prog["subj"] == "stmt":
        classes.append("subject:statement")
    use = prog.get("use") or {"kind": "plain"}
    classes.append("use:" + use["kind"])
    if use["kind"] != "plain":
        classes.append("use:target-is-" + use["t"])
        if use.get("body"):
            classes.append("use:body-reads-target")
        if use.get("guard"):
            classes.append("use:guard-reads-target")
    nontrivial = maxdepth >= 2 or bool(guards) or bool(kinds & {"as", "or"})
    res = {"ok": True, "nontrivial": False, "classes": classes, "events": 0, "n": 0, "nt_keys": []}
    hcode, pcode = compile_both(case)
    if isinstance(pcode, Exception):
        classes.append("twin-rejected:" + type(pcode).__name__)
        classes.append("hy-also-rejects" if isinstance(hcode, Exception) else "hy-accepts-what-twin-rejects")
        res["ok"] = None
        return res
    if isinstance(hcode, Exception):
        res.update(ok=False, n=1, hy_compile_failed=True,
                   why=f"Hy compile raised {type(hcode).__name__}: {hcode} for a program CPython "
                   f"accepts:\n{case['hy']}\n--\n{case['py']}"[:900], sample={"hy": case["hy"], "py": case["py"]})
        return res
    names_of_case = [c["names"] for c in prog["cases"]]
    failures = []
    for spec in case["subjects"]:
        res["n"] += 1
        H, htrace, hb = run_one(hcode, prog["scope"], spec, names_of_case)
        P, ptrace, pb = run_one(pcode, prog["scope"], spec, names_of_case)
        res["events"] += len(htrace) + 1
        sel = [e[0] for e in ptrace if e[0] >= 100]
        classes.append("selected" if sel else ("raised:" + P[1] if P[0] == "exc" else "no-match"))
        if nontrivial:
            res["nontrivial"] = True
            res["nt_keys"].append((case["hy"], spec))
        why = diff_outcome(H, P, "Hy match", "Python match")
        if why is None and htrace != ptrace:
            why = f"guard/body trace {htrace} but Python {ptrace}"
        if why is None and hb is not None and pb is not None:
            why = diff_outcome(["val", hb], ["val", pb], "module bindings after Hy match", "after Python match")
        if why:
            failures.append(f"subject {spec}: {why} [Hy {show(H)}; Python {show(P)}]")
    if failures:
        res.update(ok=False, why=(" || ".join(failures[:2]) + f"\n{case['hy']}\n--\n{case['py']}")[:1400],
                   sample={"hy": case["hy"], "py": case["py"], "subjects": case["subjects"]})
    return res
