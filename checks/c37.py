"""C37 — reader macros are defined and used in stream order, and per module / per reader.

History observed per stream: the interleaved log of *read-time* events (every
generated reader macro logs through a builtins-installed logger while the
reader runs it), *compile-time* events (`(eval-when-compile (HVLOG ..))` forms,
written literally or produced by reader macros) and *run-time* events
(`(HVLOG ..)` forms), the escaping exception, and each module's
`_hy_reader_macros` keys afterwards.  Streams are evaluated (a) with
`hy.eval (hy.read-many text)`, (b) as a module file that is imported, (c) chunk
by chunk through `hy.REPL.runsource`.  Three streams per case: a definer D, a
requirer Q (`(require D :readers [..]/*)`) and an unrelated U whose text uses
the same tags; fresh `HyReader()`s are probed in between.

Oracle: `simulate` — replays the stream with an explicit table name -> latest
definition: reading form i happens after form i-1 was compiled (all its
compile-time effects, including `defreader` and `require :readers`), so a use
sees exactly the definitions of earlier top-level forms; a use of a name not in
the table is a LexException "... is not defined" raised when that form is
read, after all earlier read/compile-time events and before anything later; a
reader macro returning None contributes no form (and `parse-one-form` inside
another reader macro skips it); a definition in the same top-level form is not
visible to that form.

"Evaluated" in the property statement is read as "processed by the compiler,
with its compile-time effects": when a whole stream is handed over at once
(hy.eval of read-many, import) run-time effects necessarily come after all
reading, in order; through the REPL each chunk is also run before the next is read.

Secondary (never a verdict): `HyReader._current_reader` is what it was before,
after every operation including failing ones.  The behavioural counterpart is
generated: a read that fails at compile time inside `(eval-when-compile (try (hy.read ...)))`
must not disturb a later `defreader`/use in the same stream.
"""
import importlib
import io
import os
import shutil
import sys
import tempfile
from contextlib import redirect_stderr, redirect_stdout

from hv import macrogen as G
from hv.common import rng_for, same_model

ID = "C37"
LEVEL = "exploration"
RULE = ("streams of 3-20 top-level forms mixing defreader (bodies logging at read time, parsing zero or one following "
        "form, returning a form or None; redefinitions), uses #name (top level, nested in do, nested under another reader "
        "macro), (do (defreader n ..) #n) same-form uses, (require D :readers [..]/*), compile-time and run-time logging "
        "forms, compile-time failing reads, uses before definition; three streams per case (definer, requirer, unrelated "
        "with the same tags), each evaluated via hy.eval(hy.read-many), imported module file, or hy.REPL.runsource in chunks; "
        "fresh HyReader probes in between. Non-trivial = stream in which a definition (or require) and a use of it are in "
        "different top-level forms, in a case where another module is involved; distinct by (stream text, mode).")
FLOOR = {"quick": 80, "thorough": 500}
BUDGET = {"quick": 30, "thorough": 480}
CASE_TIMEOUT = 30
NEEDS_EVENTS = True
ANCHORS = ["hy.reader:read_many", "hy.reader.hy_reader:HyReader.tag_dispatch", "hy.reader.hy_reader:HyReader.try_parse_one_form",
           "hy.reader.hy_reader:HyReader.as_current_reader", "hy.macros:enable_readers", "hy.macros:require_reader",
           "hy.macros:reader_macro"]
ASSUMPTIONS = [
    "'evaluated' = compiled with its compile-time effects (defreader and require :readers act at compile time); run-time "
    "effects of a stream handed over as a whole come after all reading",
    "`do` evaluates its forms in order; eval-when-compile runs when the form is compiled",
]
MANIFEST = {
    "text": "Generated streams of defreader / #uses / require :readers / logging forms across a definer, a requirer and an "
            "unrelated module are evaluated through hy.eval(hy.read-many), module import and the REPL; the interleaved log of "
            "read-time, compile-time and run-time events, the LexException for uses before definition (raised only after all "
            "earlier effects), absence of forms for None-returning reader macros, per-module _hy_reader_macros and the "
            "blindness of fresh HyReader()s are compared with a table-replay oracle. Exploration: held on the streams run.",
    "note": "Trusted: the replay oracle's reading of docs/macros.rst 'Reader macros' and the read-many/require entries. Bounds: "
            "<= 20 top-level forms per stream, three modules, reader macros parse at most one form.",
    "technique": "runtime monitoring: read/compile/run-time event log through a builtins-installed logger vs stream-replay oracle",
}

TAGS = ["t1", "up-it", "λr", "Rdr", "x?", "mk2"]
MODES = ["eval", "file", "repl"]


# ---------------------------------------------------------------------------
# the oracle

class Lex(Exception):
    pass


def read_x(x, T, ev):
    """Read element x with table T; append read-time events; return the form it denotes (or None)."""
    k = x[0]
    if k in ("log", "int"):
        return x
    if k == "do":
        return ["do", [f for f in [read_x(c, T, ev) for c in x[1]] if f is not None]]
    if k == "len":
        # a quoted list of reader-macro uses: only the number of forms they produced is observed
        n = len([f for f in [read_x(c, T, ev) for c in x[3]] if f is not None])
        return ["log", f"L{x[1]}={n}", x[2]]
    d = T.get(x[1])
    if d is None:
        raise Lex(x[1])
    if k == "use0":
        ev.append("R" + d["id"])
        inner = None
    else:
        if d["logpos"] == "before":
            ev.append("R" + d["id"])
        inner = read_x(x[2], T, ev)
        if d["logpos"] != "before":
            ev.append("R" + d["id"])
    if d["ret"] == "none":
        return None
    own = ["log", "p" + d["id"], d["phase"]]
    return own if k == "use0" else ["do", [own, inner]]


def eval_form(f, cev, rev):
    if f[0] == "log":
        (cev if f[2] == "C" else rev).append(f[2] + f[1])
    else:
        for c in f[1]:
            eval_form(c, cev, rev)


def simulate(chunks, dfinal, dlog=None):
    """chunks: list of lists of top-level items (one chunk unless REPL). dfinal: the definer's final table.
    dlog: when the definer has not been imported yet, its own complete log - compiling the first
    `require` imports (compiles and runs) it at that point.
    Returns (expected log, name of the undefined reader macro or None, final table)."""
    T, log = {}, []
    for chunk in chunks:
        run = []
        for it in chunk:
            k = it[0]
            try:
                if k == "x":
                    f = read_x(it[1], T, log)
                    if f is not None:
                        eval_form(f, log, run)
                elif k == "def":
                    T[it[1]["name"]] = it[1]
                elif k == "dodef":
                    fs = [read_x(c, T, log) for c in it[2]]
                    for f in fs:
                        if f is not None:
                            eval_form(f, log, run)
                    T[it[1]["name"]] = it[1]
                elif k == "req":
                    if dlog is not None:
                        log += dlog
                        dlog = None
                    names = sorted(dfinal) if it[1] == "*" else it[1]
                    for n in names:
                        T[n] = dfinal[n]
                elif k == "ctfail":
                    log.append("C" + it[1])
            except Lex as e:
                return log, str(e), T
        log += run
    return log, None, T


# ---------------------------------------------------------------------------
# generator

class SG:
    def __init__(self, rng, ids, role, dfinal=None):
        self.rng, self.ids, self.role = rng, ids, role
        self.T = {}
        self.dfinal = dfinal or {}
        self.items = []
        self.failed = False
        self.split = False      # some definition/require and a use of it in different top-level forms

    def nid(self):
        self.ids[0] += 1
        return str(self.ids[0])

    def new_def(self, name=None):
        rng = self.rng
        return {"name": name or rng.choice(TAGS), "id": self.nid(),
                "kind": rng.choice(["noparse", "parse1"]),
                "ret": "none" if rng.random() < 0.25 else "form",
                "logpos": rng.choice(["before", "after"]),
                "phase": rng.choice(["C", "E"]), "doc": rng.random() < 0.2}

    def log(self):
        return ["log", self.nid(), self.rng.choice(["C", "E"])]

    def x(self, depth=0, need_form=False, undefined=None):
        """An element. need_form: must denote a form (it is what a parse-one reader macro will parse)."""
        rng = self.rng
        r = rng.random()
        names = [n for n, d in self.T.items() if not (need_form and d["ret"] == "none")]
        if undefined:
            # a use of a name that is not defined here: the form cannot be read
            self.failed = True
            return ["use0", undefined]
        if r < 0.3 or depth >= 3 or (not names and r < 0.8):
            return self.log()
        if r < 0.8 and names:
            n = rng.choice(names)
            d = self.T[n]
            self.split = True
            if d["kind"] == "noparse":
                return ["use0", n]
            return ["use1", n, self.x(depth + 1, need_form=True)]
        if r < 0.9 and names:
            # (HVLEN "L.." '[#a 7 #b 8]): how many forms did the uses yield?
            els = []
            for _ in range(rng.randint(1, 4)):
                n = rng.choice(list(self.T))
                if rng.random() < 0.3:
                    els.append(["int"])
                elif self.T[n]["kind"] == "noparse":
                    els.append(["use0", n])
                else:
                    els.append(["use1", n, ["int"]])
            self.split = True
            return ["len", self.nid(), rng.choice(["C", "E"]), els]
        # a `do` is always a form, even when empty after dropping Nones
        return ["do", [self.x(depth + 1) for _ in range(rng.randint(1, 3))]]

    def gen(self, nforms):
        rng = self.rng
        foreign = [n for n in self.dfinal if n not in self.T]
        for i in range(nforms):
            if self.failed:
                break
            r = rng.random()
            if self.role == "Q" and i == self.req_at:
                names = "*" if rng.random() < 0.4 else rng.sample(sorted(self.dfinal), rng.randint(1, len(self.dfinal)))
                self.items.append(["req", names])
                for n in (sorted(self.dfinal) if names == "*" else names):
                    self.T[n] = self.dfinal[n]
                continue
            undefined = None
            if self.role in ("U", "Q") and rng.random() < self.p_undef:
                cand = [n for n in self.dfinal if n not in self.T] or [n for n in TAGS if n not in self.T]
                if cand:
                    undefined = rng.choice(cand)
            if undefined:
                if rng.random() < 0.5:
                    self.items.append(["x", self.x(undefined=undefined)])
                else:
                    pre = [self.x(1) for _ in range(rng.randint(0, 2))]
                    self.items.append(["x", ["do", pre + [self.x(undefined=undefined)]]])
            elif r < 0.3:
                d = self.new_def()
                self.items.append(["def", d])
                self.T[d["name"]] = d
            elif r < 0.38:
                # a use in the same top-level form as the definition sees the *previous* state
                d = self.new_def()
                if d["name"] in self.T and rng.random() < 0.7:
                    old = self.T[d["name"]]
                    use = ["use0", d["name"]] if old["kind"] == "noparse" else ["use1", d["name"], self.log()]
                    xs = [use]
                elif d["name"] not in self.T and self.role != "D" and rng.random() < 0.5:
                    xs = [["use0", d["name"]]]
                    self.failed = True
                else:
                    xs = [self.x(1)]
                self.items.append(["dodef", d, xs])
                self.T[d["name"]] = d
            elif r < 0.43:
                self.items.append(["ctfail", self.nid()])
            else:
                self.items.append(["x", self.x()])
        return self.items


def chunked(rng, items, mode):
    if mode != "repl":
        return [items]
    out, i = [], 0
    while i < len(items):
        n = rng.choice([1, 1, 2, 3])
        out.append(items[i:i + n])
        i += n
    return out or [[]]


# --- rendering ---------------------------------------------------------------

def render_log(f):
    if f[2] == "C":
        return f'(eval-when-compile (HVLOG "C{f[1]}"))'
    return f'(HVLOG "E{f[1]}")'


def render_x(x):
    k = x[0]
    if k == "log":
        return render_log(x)
    if k == "int":
        return "7"
    if k == "len":
        call = f'(HVLEN "{x[2]}L{x[1]}" \'[' + " ".join(render_x(c) for c in x[3]) + "])"
        return f"(eval-when-compile {call})" if x[2] == "C" else call
    if k == "do":
        return "(do " + " ".join(render_x(c) for c in x[1]) + ")"
    if k == "use0":
        return "#" + x[1]
    return "#" + x[1] + " " + render_x(x[2])


def render_def(d):
    own = render_log(["log", "p" + d["id"], d["phase"]])
    doc = '"a reader macro" ' if d["doc"] else ""
    rlog = f'(HVLOG "R{d["id"]}")'
    if d["kind"] == "noparse":
        ret = "None" if d["ret"] == "none" else "'" + own
        return f"(defreader {d['name']} {doc}{rlog} {ret})"
    parse = "(setv form (.parse-one-form &reader))"
    seq = f"{rlog} {parse}" if d["logpos"] == "before" else f"{parse} {rlog}"
    ret = "None" if d["ret"] == "none" else "`(do " + own + " ~form)"
    return f"(defreader {d['name']} {doc}{seq} {ret})"


def render_item(it, dmod):
    k = it[0]
    if k == "x":
        return render_x(it[1])
    if k == "def":
        return render_def(it[1])
    if k == "dodef":
        return "(do " + render_def(it[1]) + " " + " ".join(render_x(c) for c in it[2]) + ")"
    if k == "req":
        names = "*" if it[1] == "*" else "[" + " ".join(it[1]) + "]"
        return f"(require {dmod} :readers {names})"
    if k == "ctfail":
        return ('(eval-when-compile (try (hy.read "#never-defined-tag 1") '
                f'(except [e Exception] (HVLOG "C{it[1]}"))))')
    raise ValueError(k)


DMOD, QMOD, UMOD = "hvrd", "hvrq", "hvru"


def gen_case(rng, tier):
    ids = [0]
    big = 20 if tier == "thorough" else 14
    d = SG(rng, ids, "D")
    d.p_undef = 0
    d.req_at = -1
    d.gen(rng.randint(3, big))
    if not d.T:
        dd = d.new_def()
        d.items.append(["def", dd])
        d.T[dd["name"]] = dd
        d.items.append(["x", d.x()])
    dfinal = dict(d.T)
    q = SG(rng, ids, "Q", dfinal)
    q.req_at = rng.randint(0, 3)
    q.p_undef = 0.04
    q.gen(rng.randint(3, big))
    u = SG(rng, ids, "U", dfinal)
    u.req_at = -1
    u.p_undef = 0.25
    u.gen(rng.randint(3, big))
    streams = {}
    for role, sg, mod in (("D", d, DMOD), ("Q", q, QMOD), ("U", u, UMOD)):
        mode = rng.choice(MODES)
        chunks = chunked(rng, sg.items, mode)
        streams[role] = {
            "mode": mode, "chunks": chunks, "split": sg.split,
            "texts": ["\n".join(render_item(it, DMOD) for it in ch) + "\n" for ch in chunks],
        }
    order = ["D"] + rng.sample(["Q", "U"], 2)
    lazy = rng.random() < 0.4
    if lazy:
        # the definer is a module file that is imported for the first time while the requirer is
        # being compiled (by its `require`): its own uses must still work, and the requirer must
        # see only the reader macros it listed
        streams["D"]["mode"] = "file"
        streams["D"]["chunks"] = [d.items]
        streams["D"]["texts"] = ["\n".join(render_item(it, DMOD) for it in d.items) + "\n"]
        order = order[1:]
    return {"streams": streams, "order": order, "dfinal": dfinal, "lazy": lazy,
            "probe_names": sorted(dfinal)[:3]}


def cases(seed, tier, shard, nshards):
    i = 0
    while True:
        rng = rng_for(seed, ID, shard, i)
        i += 1
        yield gen_case(rng, tier)


def case_key(case):
    return [[s["texts"], s["mode"]] for s in case["streams"].values()] + [case["order"]]


# ---------------------------------------------------------------------------
# running

class Env:
    def __init__(self):
        self.dir = None
        self.mods = {}
        self.cur = []          # (label, ok?) observations of HyReader._current_reader

    def scratch(self):
        if self.dir is None:
            root = os.environ.get("VERIF_SCRATCH")
            self.dir = os.path.realpath(tempfile.mkdtemp(prefix="c37-", dir=root if root and os.path.isdir(root) else None))
            sys.path.insert(0, self.dir)
        return self.dir

    def cleanup(self):
        for m in (DMOD, QMOD, UMOD):
            sys.modules.pop(m, None)
        if self.dir:
            if self.dir in sys.path:
                sys.path.remove(self.dir)
            sys.path_importer_cache.pop(self.dir, None)
            shutil.rmtree(self.dir, ignore_errors=True)


def load_stream(env, modname, st, logger):
    """Evaluate one stream; returns (exception or None, module or None, log snapshots)."""
    import hy
    import types
    mode = st["mode"]
    exc = None
    if mode == "eval":
        m = types.ModuleType(modname)
        m.__file__ = f"<{modname}>"
        sys.modules[modname] = m
        try:
            hy.eval(hy.read_many(st["texts"][0], filename=f"<{modname}>"), module=m)
        except BaseException as e:
            if type(e).__name__ == "CaseTimeout":
                raise
            exc = e
        return exc, m
    if mode == "file":
        d = env.scratch()
        with open(os.path.join(d, modname + ".hy"), "w", encoding="utf-8") as f:
            f.write(st["texts"][0])
        importlib.invalidate_caches()
        try:
            m = importlib.import_module(modname)
        except BaseException as e:
            if type(e).__name__ == "CaseTimeout":
                raise
            return e, None
        return None, m
    # REPL: one runsource call per chunk
    out, err = io.StringIO(), io.StringIO()
    star_e = hy.mangle("*e")
    with redirect_stdout(out), redirect_stderr(err):
        repl = hy.REPL(locals={"__name__": modname})
        m = repl.module
        for text in st["texts"]:
            before = repl.locals.get(star_e)
            try:
                more = repl.runsource(text, filename="<hvrepl>")
            except BaseException as e:
                if type(e).__name__ == "CaseTimeout":
                    raise
                exc = e
                break
            after = repl.locals.get(star_e)
            if after is not None and after is not before:
                exc = after
                break
            if more:
                exc = RuntimeError("REPL reported incomplete input for a complete chunk")
                break
    return exc, m


def _xkinds(x, T):
    out = {"x:" + x[0]}
    for c in (x[1] if x[0] == "do" else x[3] if x[0] == "len" else [x[2]] if x[0] == "use1" else []):
        out |= _xkinds(c, T)
    return out


def run_case(case):
    import hy
    from hy.reader.exceptions import LexException
    from hy.reader.hy_reader import HyReader
    G.reset_state((DMOD, QMOD, UMOD), path_markers=("/c37-",))
    classes = []
    res = {"ok": True, "nontrivial": False, "classes": classes, "events": 0, "n": 0, "nt_keys": []}
    env = Env()
    has_cur = hasattr(HyReader, "_current_reader")

    def cur_check(label, prior):
        if has_cur:
            env.cur.append((label, HyReader._current_reader is prior))

    def fail(why):
        res.update(ok=False, why=why)
        return res

    for m in (DMOD, QMOD, UMOD):
        sys.modules.pop(m, None)
    dfinal = case["dfinal"]
    lazy = case.get("lazy")
    try:
        with G.BuiltinLogger() as lg:
            if lazy:
                with open(os.path.join(env.scratch(), DMOD + ".hy"), "w", encoding="utf-8") as f:
                    f.write(case["streams"]["D"]["texts"][0])
                importlib.invalidate_caches()
                classes.append("lazy-definer")
            for role in case["order"]:
                st = case["streams"][role]
                modname = {"D": DMOD, "Q": QMOD, "U": UMOD}[role]
                dlog = None
                if lazy and role == "Q" and DMOD not in sys.modules:
                    dlog = simulate(case["streams"]["D"]["chunks"], {})[0]
                want_log, want_err, T = simulate(st["chunks"], dfinal, dlog)
                del lg.events[:]
                prior = HyReader._current_reader if has_cur else None
                exc, mod = load_stream(env, modname, st, lg)
                cur_check(f"{role}:{st['mode']}:{'fail' if exc else 'ok'}", prior)
                got_log = list(lg.events)
                res["n"] += 1
                res["events"] += len(got_log)
                classes += [f"role:{role}", f"mode:{st['mode']}", "outcome:" + ("lex" if want_err else "ok")]
                kinds = {it[0] for ch in st["chunks"] for it in ch}
                for ch in st["chunks"]:
                    for it in ch:
                        for x in (it[2] if it[0] == "dodef" else [it[1]] if it[0] == "x" else []):
                            kinds |= _xkinds(x, dfinal)
                classes += ["item:" + k for k in kinds]
                label = f"stream {role} ({st['mode']})"
                text = "\n;; --- next chunk\n".join(st["texts"])
                if want_err is None:
                    if exc is not None:
                        return fail(f"{label} raised {type(exc).__name__}: {str(exc)[:300]} although every reader macro is "
                                    f"defined (or required) in an earlier top-level form than its uses; log so far {got_log}; stream:\n{text}")
                else:
                    if exc is None:
                        return fail(f"{label}: `#{want_err}` is used without a definition visible to this module/reader at "
                                    f"that point, but the stream was accepted; log {got_log}; stream:\n{text}")
                    if not isinstance(exc, LexException) or "not defined" not in str(exc) or want_err not in str(exc):
                        return fail(f"{label}: expected LexException \"reader macro '#{want_err}' is not defined\", got "
                                    f"{type(exc).__name__}: {str(exc)[:300]}; stream:\n{text}")
                if got_log != want_log:
                    return fail(f"{label}: event log {got_log}, expected {want_log} (R = a reader macro ran, C = compile-time, "
                                f"E = run-time; form i is read only after form i-1 was compiled"
                                + ("; the error must come after all earlier effects and before any later one" if want_err else "")
                                + f"); stream:\n{text}")
                if mod is not None:
                    keys = set(getattr(mod, "_hy_reader_macros", {}))
                    if keys != set(T):
                        return fail(f"{label}: module _hy_reader_macros has {sorted(keys)}, expected {sorted(T)}; stream:\n{text}")
                if lazy and role == "Q":
                    dm = sys.modules.get(DMOD)
                    if dm is not None:
                        classes.append("lazy-definer:imported-by-require")
                        keys = set(getattr(dm, "_hy_reader_macros", {}))
                        if keys != set(dfinal):
                            return fail(f"module {DMOD} (imported by the require in {label}) has _hy_reader_macros "
                                        f"{sorted(keys)}, expected {sorted(dfinal)}")
                if st["split"]:
                    res["nt_keys"].append([st["texts"], st["mode"], bool(lazy)])
                if role == "D":
                    env.dmod = mod
                # fresh readers in between: nothing defined anywhere is visible to them
                for n in case["probe_names"]:
                    for how in ("fresh", "default"):
                        prior = HyReader._current_reader if has_cur else None
                        del lg.events[:]
                        try:
                            kw = {"reader": hy.HyReader()} if how == "fresh" else {}
                            got = hy.read(f"#{n} 1", **kw)
                            return fail(f"after {label}: a {how} HyReader read `#{n} 1` as {hy.repr(got)}; reader macro "
                                        f"`{n}` of module {DMOD} leaked into an unrelated reader")
                        except LexException as e:
                            if "not defined" not in str(e):
                                return fail(f"after {label}: {how} reader on `#{n} 1`: {e}")
                        cur_check("probe-fail", prior)
                        if lg.events:
                            return fail(f"after {label}: reading `#{n} 1` with a {how} reader ran reader-macro code: {lg.events}")
                        res["events"] += 1
                classes.append("probe:fresh-reader")
                # use_current_readers: a reader created inside D sees D's reader macros
                if role == "D" and mod is not None:
                    for n in case["probe_names"]:
                        d = dfinal[n]
                        if d["kind"] != "noparse" or d["ret"] != "form":
                            continue
                        del lg.events[:]
                        prior = HyReader._current_reader if has_cur else None
                        try:
                            got = hy.eval(hy.read(f'(hy.read "#{n}" :reader (hy.HyReader :use-current-readers True))'),
                                          module=mod)
                        except BaseException as e:
                            if type(e).__name__ == "CaseTimeout":
                                raise
                            return fail(f"(hy.HyReader :use-current-readers True) created in module {DMOD} cannot read `#{n}`: "
                                        f"{type(e).__name__}: {e}")
                        cur_check("probe-ok", prior)
                        want = hy.read(render_log(["log", "p" + d["id"], d["phase"]]))
                        dd = same_model(got, want)
                        if dd or lg.events != ["R" + d["id"]]:
                            return fail(f"use-current-readers reader in {DMOD} read `#{n}` as {hy.repr(got)} with read-time log "
                                        f"{lg.events}; expected {hy.repr(want)} and ['R{d['id']}']")
                        classes.append("probe:use-current-readers")
                        res["events"] += 1
    finally:
        env.cleanup()
    res["nontrivial"] = bool(res["nt_keys"])
    if has_cur:
        bad = [l for l, ok in env.cur if not ok]
        classes.append("secondary:current-reader-" + ("NOT-RESTORED" if bad else "restored"))
        classes += ["secondary:op:" + l.split(":")[-1] for l, _ in env.cur]
    else:
        classes.append("secondary:current-reader-skipped")
    res["classes"] = sorted(set(classes))
    return res
