"""C18 — reading any text yields models or a Hy reader error, and terminates.

History observed: the exception type that escapes `list(hy.read_many(text))`
(or the models it yields) and a *logical* step count of the reader taken with
sys.monitoring (PY_START plus backward JUMPs of every code object that lives in
hy/reader/* or hy/models.py). Oracle: exception type is LexException /
PrematureEndOfInput (both SyntaxErrors); termination by step bounds, never by
wall-clock (the per-case alarm only makes a case inconclusive).
"""
import io
import os
import sys

from hv.common import rng_for
from hv import textgen as tg

ID = "C18"
LEVEL = "exploration"
RULE = ("texts: (a) random strings <=200 chars over a weighted alphabet of syntax-significant "
        "characters/tokens (brackets, quotes, sugar, #-dispatch, string prefixes, escapes, digits, "
        "NaN/Inf, non-ASCII letters/digits/spaces, NUL, lone surrogates), nesting depth <=30; "
        "(b) 1-3 char/token mutations and splices of generated well-formed programs; (c) deep "
        "nesting, depth 31-120 and 1500-6000. Non-trivial = the input yields >=2 models or raises; "
        "distinct by text.")
FLOOR = {"quick": 5000, "thorough": 5000}
BUDGET = {"quick": 25, "thorough": 540}
CASE_TIMEOUT = 45
REPLAY_TIMEOUT = 280
NEEDS_EVENTS = True
ANCHORS = ["hy.reader.hy_reader:HyReader.try_parse_one_form",
           "hy.reader.hy_reader:HyReader.read_chars_until",
           "hy.reader.reader:Reader.chars",
           "hy.reader.reader:Reader.peeking",
           "hy.reader.reader:Reader.getc"]
ASSUMPTIONS = ["CPython 3.12 sys.monitoring delivers PY_START / JUMP for every Python-level "
               "function entry / loop back-edge in hy/reader/* and hy/models.py",
               "an input that needs more than 1e9 reader steps (or 1e7 with no input consumed "
               "during the last 5e6) does not terminate; normal inputs need <= ~45 steps/char"]
MANIFEST = {
    "text": "Random hostile texts, mutated well-formed programs and deeply nested texts are read "
            "with hy.read_many; the escaping exception type is checked (LexException / "
            "PrematureEndOfInput only) and termination is decided on a logical step count of the "
            "reader's own code objects (sys.monitoring), not on wall-clock. Exploration: held on "
            "the texts read, nothing beyond.",
    "note": "Trusted: sys.monitoring event delivery; step bounds 1e9 / (1e7 with 5e6 stalled). "
            "Bounds: text length <=200 (random), nesting depth <=120 or >=1500 (the range "
            "between costs minutes per input and is left out).",
    "technique": "runtime monitoring: exception-type oracle at hy.read_many + sys.monitoring "
                 "PY_START/back-edge step counter with stall detection as termination bound",
}

# ---- step bounds -----------------------------------------------------------
HARD_LIMIT = 10 ** 9          # decided only in the fresh-process re-run
STALL_MIN = 10 ** 7           # total steps before a stall can be called
STALL_SPAN = 5 * 10 ** 6      # ... with the stream position unchanged for this many
SCREEN_LIMIT = 3 * 10 ** 7    # in a worker: hand the case to the fresh-process re-run
CHECK_EVERY = 1 << 16
DEEP_EVERY = 8000       # one deep-nesting case per this many cases (plus one early)
DEEP_CAP = {"quick": {"seq": 90, "quote": 60, "hash": 60, "fstr": 36},
            "thorough": {"seq": 120, "quote": 70, "hash": 70, "fstr": 40}}

TOOL = 3
_state = {"mode": "worker", "installed": False}


class StepLimit(BaseException):
    """Raised from the monitoring callback into the reader (BaseException so
    that the reader's own `except Exception` re-wrap cannot swallow it)."""


class _Counter:
    def __init__(self):
        self.n = 0
        self.start = 0
        self.flag = {}
        self.armed = False
        self.limit = 0
        self.next_check = 0
        self.progress = None      # callable -> stream position or None
        self.last_pos = None
        self.last_pos_step = 0
        self.verdict = None
        self.prefix = None
        self.models = None

    def mine(self, code):
        f = self.flag.get(code)
        if f is None:
            fn = code.co_filename
            f = self.flag[code] = fn.startswith(self.prefix) or fn == self.models
        return f

    def tick(self):
        self.n += 1
        if self.armed and self.n >= self.next_check:
            self.check()

    def check(self):
        self.next_check = self.n + CHECK_EVERY
        pos = None
        if self.progress is not None:
            try:
                pos = self.progress()
            except Exception:
                pos = None
        if pos != self.last_pos:
            self.last_pos, self.last_pos_step = pos, self.n
        steps = self.n - self.start
        if steps > self.limit:
            self.armed = False
            self.verdict = "limit"
            raise StepLimit(steps)
        if (pos is not None and steps > STALL_MIN
                and self.n - self.last_pos_step > STALL_SPAN):
            self.armed = False
            self.verdict = "stall"
            raise StepLimit(steps)


C = _Counter()


def _on_start(code, offset):
    if not C.mine(code):
        return sys.monitoring.DISABLE
    C.tick()


def _on_jump(code, offset, dest):
    if not C.mine(code):
        return sys.monitoring.DISABLE
    if dest < offset:
        C.tick()


def _install():
    if _state["installed"]:
        return
    import hy
    import hy.reader  # noqa
    import hy.models  # noqa
    root = os.path.dirname(os.path.abspath(hy.__file__))
    C.prefix = os.path.join(root, "reader") + os.sep
    C.models = os.path.join(root, "models.py")
    mon = sys.monitoring
    try:
        mon.use_tool_id(TOOL, "hv-c18-steps")
    except ValueError:
        pass
    mon.register_callback(TOOL, mon.events.PY_START, _on_start)
    mon.register_callback(TOOL, mon.events.JUMP, _on_jump)
    mon.set_events(TOOL, mon.events.PY_START | mon.events.JUMP)
    _state["installed"] = True


def setup_worker(tier, seed):
    _state["mode"] = "replay" if tier == "replay" else "worker"
    _install()


_max = {"steps": 0, "steps_per_char": 0.0, "deep_steps": 0}


def finish_worker():
    return {"max_steps": _max["steps"], "max_steps_per_char": round(_max["steps_per_char"], 1),
            "max_deep_steps": _max["deep_steps"]}


# ---- workload ----------------------------------------------------------------

def cases(seed, tier, shard, nshards):
    i = 0
    while True:
        rng = rng_for(seed, ID, shard, i)
        i += 1
        via = "stream" if rng.random() < 0.5 else "str"
        if i % DEEP_EVERY == (7 + 3 * shard) % DEEP_EVERY and i > 200:     # staggered across shards, after the cheap cases
            # (c) deep nesting: its own (small) budget, the reader is cubic in depth
            kind = rng.choice(tg.DEEP_KINDS)
            if rng.random() < 0.5:
                # cubic cost: paren-like 120 deep = 3.0e6 steps, quote sugar 70 deep = 1.1e6,
                # f-string fields 40 deep = 1.3e6 (70 deep = 7.1e6, too close to the stall bound)
                cap = DEEP_CAP[tier if tier in DEEP_CAP else "quick"]
                cap = cap[kind] if kind in cap else cap["seq"]
                d = rng.choice([rng.randint(31, 60), rng.randint(31, 60), rng.randint(31, cap),
                                rng.randint(max(31, cap - 30), cap)])
                d = min(d, cap)
                cls = "deep-lo"
            else:
                d = rng.choice([1500, 2000, rng.randint(1500, 6000)])
                cls = "deep-hi"
            kind, text = tg.deep_nest(rng, d, kind)
            yield {"text": text, "cls": cls, "kind": kind, "depth": d, "via": via}
            continue
        r = rng.random()
        if r < 0.5:
            yield {"text": tg.hostile_text(rng), "cls": "random", "via": via}
        elif r < 0.93:
            a = tg.wellformed_tokens(rng)
            b = tg.wellformed_tokens(rng) if rng.random() < 0.4 else None
            text, ops = tg.mutate_tokens(rng, a, b)
            yield {"text": text[:400], "cls": "mutated", "ops": ops, "via": via}
        else:
            # unmutated well-formed text: keeps the generator honest (must read)
            yield {"text": "".join(tg.wellformed_tokens(rng)), "cls": "wellformed", "via": via}


def case_key(case):
    return case["text"]


# ---- one observed execution ----------------------------------------------------

def run_case(case):
    _install()
    import hy
    text = case["text"]
    via = case.get("via", "str")
    if via == "stream":
        stream = io.StringIO(text)
        progress = stream.tell
        arg = stream
    else:
        stream = None
        progress = None
        arg = text
    C.verdict = None
    C.start = C.n
    C.limit = HARD_LIMIT if _state["mode"] == "replay" else SCREEN_LIMIT
    C.last_pos, C.last_pos_step = None, C.n
    C.next_check = C.n + CHECK_EVERY
    models, exc, limit_hit = [], None, None
    try:
        try:
            lazy = hy.read_many(arg)
            if progress is None:
                # secondary: the reader's own stream, if that internal exists
                def progress(lazy=lazy):
                    return lazy.reader._stream.tell()
            C.progress = progress
            C.armed = True
            for m in lazy:
                models.append(m)
        finally:
            C.armed = False
            C.progress = None
    except StepLimit as e:
        limit_hit = e.args[0]
    except BaseException as e:
        if type(e).__name__ == "CaseTimeout":
            raise
        exc = e
    steps = C.n - C.start

    classes = ["cls:" + case["cls"], "via:" + via]
    if case.get("kind"):
        classes.append("deep:" + case["kind"])
    for op in case.get("ops", ()):
        classes.append("mut:" + op)
    res = {"ok": True, "events": steps, "classes": classes,
           "sample": {"text": text[:200], "cls": case["cls"]}}
    if case["cls"].startswith("deep"):
        _max["deep_steps"] = max(_max["deep_steps"], steps)
    else:
        _max["steps"] = max(_max["steps"], steps)
        if len(text) >= 10:
            _max["steps_per_char"] = max(_max["steps_per_char"], steps / len(text))

    if limit_hit is not None:
        classes.append("out:step-limit")
        res["nontrivial"] = True
        if C.verdict == "stall":
            res.update(ok=False, why=f"non-termination: {limit_hit} reader steps, the input position "
                                     f"did not advance during the last {STALL_SPAN} of them")
        elif _state["mode"] == "replay":
            res.update(ok=False, why=f"non-termination: more than {HARD_LIMIT} reader steps")
        else:
            res.update(ok=False, why=f"more than {SCREEN_LIMIT} reader steps in the worker; "
                                     f"decided by the fresh-process re-run (bound {HARD_LIMIT})")
        return res

    if exc is None:
        classes.append("out:models" if len(models) >= 2 else f"out:{len(models)}-model")
        res["nontrivial"] = len(models) >= 2
        import hy.models as M
        bad = [type(m).__name__ for m in models if not isinstance(m, M.Object)]
        if bad:
            res.update(ok=False, why=f"read_many yielded non-model objects: {bad[:3]}")
        if case["cls"] == "wellformed":
            classes.append("wellformed-read")
        return res

    res["nontrivial"] = True
    name = type(exc).__name__
    classes.append("out:" + name)
    if not tg.is_reader_error(exc):
        msg = ""
        try:
            msg = str(exc)[:200]
        except Exception:
            pass
        res.update(ok=False, why=f"read_many({text[:120]!r}) raised {name} ({msg}), "
                                 f"not LexException/PrematureEndOfInput")
    elif case["cls"] == "wellformed":
        # not a property violation, but the generator claims these read
        classes.append("wellformed-rejected")
    return res


def gate(tot, classes, extra, tier):
    need = ["cls:random", "cls:mutated", "out:LexException", "out:PrematureEndOfInput", "out:models"]
    missing = [c for c in need if not classes.get(c)]
    if missing:
        return "classes-not-reached:" + ",".join(missing)
    return None
