"""C27 — hy.repr round-trips values of the documented types.

History observed per case: the text returned by hy.repr(x), the value obtained
by (hy.eval (hy.read text)), and the number of hy-repr entries (sys.monitoring
PY_START on the hy-repr code object).  Oracle: NaN-aware typed deep equality;
for self-referential values, text equality with an acyclic twin in which every
back-reference is an object whose *registered* printer returns the
placeholder; termination by an event bound on hy-repr entries.
"""
import collections
import fractions
import sys
import types

from hv.common import rng_for
from hv import gen_values as G

ID = "C27"
LEVEL = "exploration"
RULE = ("one value per case, generated as an IR over exactly the types of the statement "
        "(None bool int float complex str bytes bytearray list tuple dict set frozenset keyword "
        "Fraction range slice deque OrderedDict Counter defaultdict ChainMap), nesting <= 4 (5 thorough), "
        "hashability respected, shared sub-objects (DAG) and, in ~15% of cases, self-references. "
        "Non-trivial = nesting depth >= 2 or a type without literal syntax "
        "(bytearray frozenset Fraction range slice deque OrderedDict Counter defaultdict ChainMap); "
        "distinct by the rendered IR.")
FLOOR = {"quick": 3000, "thorough": 3000}
BUDGET = {"quick": 20, "thorough": 480}
CASE_TIMEOUT = 20
NEEDS_EVENTS = True
ANCHORS = ["hy.core.hy_repr:hy_repr", "hy.core.hy_repr:_base_repr", "hy.core.hy_repr:_cat"]
ASSUMPTIONS = [
    "CPython 3.12 ==/hash semantics of the container types; equality is NaN-aware (NaN equals NaN), "
    "typed at every node, sign of zero recorded but not gating",
    "the evaluation namespace provides Fraction deque OrderedDict Counter defaultdict ChainMap",
    "placeholders: list [...], dict {...}, set #{...}, frozenset (frozenset #{...}), deque (deque [...]), "
    "others ...; the generic ... is accepted everywhere",
    "termination bound: hy-repr entries <= 8*size+64 (size = nodes of the value with shared nodes expanded)",
]
MANIFEST = {
    "text": "Randomly generated nested values over exactly the listed types (hostile floats, strings, bytes; shared and self-referential containers) are printed with hy.repr, read, evaluated and compared with the original by NaN-aware typed deep equality; self-referential values are compared textually with an acyclic twin whose back-references are objects with a registered placeholder printer; every print runs under a logical bound on hy-repr entries. Exploration: held on the values generated, nothing beyond.",
    "note": "Trusted: CPython equality of the container types, the value generator/builder, hy.read/hy.eval for literals and calls. Bounds: depth <= 4 (5 thorough), width <= 4, ints < 2**256, strings <= 12 chars. Known findings are attributed by feature + normaliser (defaultdict factory; keyword as direct slice component).",
    "technique": "runtime monitoring: round-trip oracle (typed NaN-aware deep equality) + placeholder twin + sys.monitoring event bound on hy-repr entries",
}

PLACEHOLDER = {"list": "[...]", "dict": "{...}", "set": "#{...}",
               "frozenset": "(frozenset #{...})", "deque": "(deque [...])"}
TOOL = 3


# ------------------------------------------------------------ known mechanisms

def _defs(ir):
    return G.label_defs(ir)


def _is_kw(n, defs):
    while n["t"] == "share" and n["lbl"] in defs:
        n = defs[n["lbl"]]
    return n["t"] == "keyword"


def _f_ddict_has(ir):
    return any(n["t"] == "ddict" and n.get("f") for n in G.walk(ir))


def _f_ddict_norm(ir):
    return G.map_nodes(ir, lambda n: dict(n, f=None) if n["t"] == "ddict" else n)


def _f_slicekw_has(ir):
    defs = _defs(ir)
    return any(n["t"] == "slice" and any(_is_kw(c, defs) for c in n["c"]) for n in G.walk(ir))


def _f_slicekw_norm(ir):
    defs = _defs(ir)

    def f(n):
        if n["t"] == "slice":
            # (a labelled keyword keeps its label, so later shares still resolve)
            n = dict(n, c=[dict({"t": "str", "v": "kw"},
                                **({"lbl": c["lbl"]} if c["t"] != "share" and "lbl" in c else {}))
                           if _is_kw(c, defs) else c for c in n["c"]])
        return n
    return G.map_nodes(ir, f)


# mechanism key -> (input feature, normaliser removing only that feature)
FEATURES = [
    ("defaultdict-factory-python-repr", _f_ddict_has, _f_ddict_norm),
    ("slice-keyword-component-read-as-kwarg", _f_slicekw_has, _f_slicekw_norm),
]


def one_feature(ir, rng):
    """Keep at most one known-mechanism feature per case, so that attribution
    (violation disappears when that feature alone is normalised) is exact."""
    present = [f for f in FEATURES if f[1](ir)]
    if len(present) > 1:
        keep = rng.choice(present)
        for f in present:
            if f is not keep:
                ir = f[2](ir)
    return ir


# ---------------------------------------------------------------------- cases

def cases(seed, tier, shard, nshards):
    depth = 5 if tier == "thorough" else 4
    i = 0
    while True:
        rng = rng_for(seed, ID, shard, i)
        i += 1
        r = rng.random()
        if r < 0.15:
            ir = G.gen_cyclic(rng, "repr", max_depth=depth - 1)
            kind = "cyclic"
        elif r < 0.35:
            # per-value formatting: a leaf, or a flat container of leaves
            g = G.Gen(rng, "repr", max_depth=1, share_p=0.05)
            ir = g.node(0, False, "root") if rng.random() < 0.5 else g.node(1, False, "root")
            kind = "flat"
        else:
            g = G.Gen(rng, "repr", max_depth=rng.randint(2, depth))
            ir = g.value()
            kind = "nested"
        ir = one_feature(ir, rng)
        yield {"ir": ir, "kind": kind}


# ------------------------------------------------------------------- monitors

EventBound = G.EventBound


_state = {}


def _setup():
    if _state:
        return _state
    import hy
    m = types.ModuleType("hvc27env")
    m.__dict__.update(Fraction=fractions.Fraction, deque=collections.deque,
                      OrderedDict=collections.OrderedDict, Counter=collections.Counter,
                      defaultdict=collections.defaultdict, ChainMap=collections.ChainMap)
    sys.modules[m.__name__] = m

    class Marker:
        """Stands for a back-reference in the acyclic twin of a self-referential value."""
        def __init__(self, text):
            self.text = text
    hy.repr_register(Marker, lambda x: x.text)
    _state.update(hy=hy, env=m, Marker=Marker, mon=G.EntryMonitor("hy.core.hy_repr", "hy_repr", TOOL, "hv-c27"), counts=collections.Counter())
    return _state


def setup_worker(tier, seed):
    _setup()


def finish_worker():
    st = _setup()
    return {"oracle_counts": dict(st["counts"]), "hy_repr_entry_monitor": st["mon"].ok,
            "max_hy_repr_entries_per_100_nodes": st.get("max_ratio", 0)}


def expanded_size(ir):
    defs = _defs(ir)
    memo = {}

    def sz(n):
        if n["t"] == "share":
            k = n["lbl"]
            if k not in memo:
                memo[k] = sz(defs[k]) if k in defs else 1
            return memo[k]
        return 1 + sum(sz(k) for k in G.kids(n))
    return min(sz(ir), 10 ** 6)


def hy_repr_bounded(st, x, limit):
    mon = st["mon"]
    mon.count = 0
    mon.limit = limit if mon.ok else None
    try:
        return st["hy"].repr(x), None
    except EventBound as e:
        return None, f"hy-repr entered {e.args[0]} times, bound {limit}: does not terminate"
    except RecursionError as e:
        return None, f"hy.repr raised RecursionError: {str(e)[:80]}"
    except Exception as e:
        return None, f"hy.repr raised {type(e).__name__}: {str(e)[:200]}"
    finally:
        mon.limit = None


def oracle(st, ir):
    """-> (why or None, events, tags)"""
    hy = st["hy"]
    tags = []
    limit = 8 * expanded_size(ir) + 64     # generous: range values already reach 4x
    x = G.build(ir)
    text, why = hy_repr_bounded(st, x, limit)
    events = st["mon"].count
    st["max_ratio"] = max(st.get("max_ratio", 0), int(100 * events / max(1, (limit - 16) // 4)))
    if why:
        return why, events, tags
    if not isinstance(text, str):
        return f"hy.repr returned {type(text).__name__}", events, tags
    if G.has_ref(ir):
        st["counts"]["placeholder_twin"] += 1
        Marker = st["Marker"]
        twin = G.build(ir, ref_hook=lambda t: Marker(PLACEHOLDER.get(t, "...")))
        exp, why = hy_repr_bounded(st, twin, limit)
        events += st["mon"].count
        if why:
            return "acyclic twin: " + why, events, tags
        if text == exp:
            return None, events, tags
        twin2 = G.build(ir, ref_hook=lambda t: Marker("..."))
        exp2, _ = hy_repr_bounded(st, twin2, limit)
        events += st["mon"].count
        if text == exp2:
            tags.append("generic-placeholder")
            return None, events, tags
        return (f"self-referential value printed {text[:300]!r}; with the placeholder at every "
                f"back-reference the text is {exp[:300]!r}"), events, tags
    st["counts"]["round_trip"] += 1
    try:
        model = hy.read(text)
    except Exception as e:
        return f"hy.read({text[:300]!r}) raised {type(e).__name__}: {str(e)[:160]}", events, tags
    try:
        y = hy.eval(model, module=st["env"])
    except Exception as e:
        return (f"hy.eval(hy.read({text[:300]!r})) raised {type(e).__name__}: {str(e)[:160]}",
                events, tags)
    d = G.deep_same(x, y)
    if d:
        return f"{text[:300]!r} evaluates to {y!r:.200}, not the original {x!r:.200} ({d[:200]})", events, tags
    if G.sign_of_zero_differs(x, y):
        tags.append("sign-of-zero-differs")
    return None, events, tags


def _str_tags(s):
    out = set()
    if '"' in s:
        out.add("str:dquote")
    if "'" in s:
        out.add("str:squote")
    if "\\" in s:
        out.add("str:backslash")
    if any(ord(c) < 32 or 0x7f <= ord(c) < 0xa0 for c in s):
        out.add("str:control")
    if any(ord(c) > 0x7f for c in s):
        out.add("str:nonascii")
    if any(0xd800 <= ord(c) <= 0xdfff for c in s):
        out.add("str:surrogate")
    return out


def classify(ir):
    tags = set()
    for n in G.walk(ir):
        t = n["t"]
        tags.add("t:" + t)
        if t == "float" or t == "complex":
            vs = [n["v"]] if t == "float" else [n["re"], n["im"]]
            for h in vs:
                f = float.fromhex(h)
                if f != f:
                    tags.add("float:nan")
                elif f in (G.INF, -G.INF):
                    tags.add("float:inf")
                elif f == 0 and h.startswith("-"):
                    tags.add("float:-0.0")
                elif f != 0 and abs(f) < 2.2250738585072014e-308:
                    tags.add("float:subnormal")
                elif len(repr(abs(f)).replace(".", "").split("e")[0].strip("0")) >= 17:
                    tags.add("float:17digit")
                if "e" in repr(f):
                    tags.add("float:exponent")
        elif t == "str":
            tags |= _str_tags(n["v"])
        elif t in ("bytes", "bytearray"):
            b = bytes.fromhex(n["v"])
            if b'"' in b or b"'" in b:
                tags.add("bytes:quote")
            if b"\\" in b:
                tags.add("bytes:backslash")
            if any(c < 32 or c > 126 for c in b):
                tags.add("bytes:nonprintable")
        elif t == "int" and abs(int(n["v"])) >= 2 ** 63:
            tags.add("int:big")
        elif t == "deque" and n.get("maxlen") is not None:
            tags.add("deque:maxlen")
        elif t == "ddict":
            tags.add("ddict:" + str(n.get("f")))
    return tags


def run_case(case):
    st = _setup()
    ir = case["ir"]
    why, events, tags = oracle(st, ir)
    tset = G.ir_types(ir)
    depth = G.ir_depth(ir)
    classes = sorted(classify(ir)) + ["kind:" + case.get("kind", "?"), f"depth:{min(depth, 6)}"] + tags
    res = {"ok": why is None,
           "nontrivial": depth >= 2 or bool(tset & G.NONLITERAL_TYPES),
           "classes": classes, "events": events}
    if why is None:
        return res
    res["why"] = why
    present = [f for f in FEATURES if f[1](ir)]
    if len(present) == 1:
        key, _, norm = present[0]
        why2, ev2, _ = oracle(st, norm(ir))
        res["events"] += ev2
        if why2 is None:
            res["finding"] = key
            res["why"] = why + f" [attributed: disappears when only {key} is normalised away]"
    return res
