"""C09 — try/except/else/finally and with behave correctly at every raise point.

fault_enumeration.  A case is one generated `try`/`with` program (nesting depth
<= 3) in one usage context together with its fault plans: the fault-free run of
the Python twin enumerates the program's events; every event x {ValueError,
KeyError, E1, E2(BaseException)} is a single-fault plan, and ordered pairs (the
second fault lying in code reached after the first) are sampled (quick) or
enumerated (thorough).  The trace logger is the failpoint: the n-th logged event
raises instead of returning.  Harness context managers log construction,
`__enter__` and `__exit__` through the same logger, so faults land there too.

Oracle: CPython executing an independently rendered Python twin (hv/faults.py
`render_py`, written from docs/api.rst) under the same plan.  Compared per plan:
the total-order event trace (site, value token), the value of the form, the
escaping exception's type and identity token (fault ordinal / raise-site id),
the number of `finally` executions per entry of the `try` (marker events), and
the final values of the outer variables (the sentinel pre-bound to the except
variable's name must be intact, the except variable invisible).
"""
import hashlib

from hv import faults as F
from hv.common import rng_for

ID = "C09"
LEVEL = "fault_enumeration"
RULE = ("a case is a generated try/with program (depth <= 3; body, 0-3 handlers with [] / [[]] / [T] / [[T1 T2]] / "
        "[v T] / [v [T..]] / logged type expressions, else, finally; 1-3 managers incl. `_`, single-item form, "
        "statement-producing manager expressions, managers suppressing Exception or everything; raise / bare raise / "
        "return / setv / setx / reads of the except variable and of the same-named outer variable) in one of four "
        "usage contexts (module, fn, 2-iteration loop, value discarded) with ALL single-fault plans over the events of "
        "its fault-free run x 4 exception types, plus ordered pairs (sampled in quick, all in thorough). Each plan is "
        "one evaluation. Non-trivial = the (first) fault lands in a handler, else, finally, except-type expression, "
        "manager construction, __enter__ or __exit__, or the plan is a pair; distinct by (program text, plan).")
FLOOR = {"quick": 2000, "thorough": 20000}
BUDGET = {"quick": 32, "thorough": 540}
CASE_TIMEOUT = 60
NEEDS_EVENTS = True
ANCHORS = ["hy.core.result_macros:compile_try_expression", "hy.core.result_macros:compile_with_expression",
           "hy.core.result_macros:compile_raise_expression"]
ASSUMPTIONS = [
    "CPython 3.12.1 executes try/with/raise as documented (the twin is the reference); exception: CPython 3.12.1 "
    "drops an exception group raised inside an except* body when it has the same metadata as the caught group "
    "(e.g. try: try: raise KeyError(2) / except* LookupError: raise / except* BaseException: <nested except* try that "
    "raises>): a diagnostic twin detects such reference runs and the plan is then not judged",
    "the Python twin renderer (hv/faults.py render_py) encodes docs/api.rst: try -> value of the last form evaluated "
    "among body/handler/else; with -> body value or None when suppressed; except variable local to its handler",
    "`[]` is documented both as \"any subtype of Exception\" and as \"like Python's `except:`\": either reading is "
    "accepted per plan",
    "faults are raised only at logging sites (the failpoint), not between arbitrary byte-codes",
]
MANIFEST = {
    "text": "Generated try/with nestings (depth <= 3) are compiled by the working tree and executed under a trace "
            "logger that is also a failpoint: after a fault-free run enumerates the events, the program is re-run with "
            "a fault injected at every event x {ValueError, KeyError, E1, E2(BaseException)} singly and at ordered "
            "pairs (sampled in quick, all in thorough); faults therefore land in bodies, handlers, else, finally, "
            "except-type expressions, manager construction, __enter__ and __exit__. Every run is compared with CPython "
            "executing an independently rendered Python twin under the same plan: total-order trace, value, escaping "
            "exception type and identity, finally executions per entry, outer variables (sentinel intact, except "
            "variable invisible). fault_enumeration: every single-fault plan of every generated program is run.",
    "note": "Trusted: CPython 3.12.1; the twin renderer's reading of docs/api.rst. Bounds: depth <= 3, <= ~30 sites, "
            "no async managers, no except*, no empty else clause (value undocumented), type expressions are pure, "
            "faults only at logging sites, at most two faults per run.",
    "technique": "runtime monitoring: trace logger as failpoint, exhaustive single-fault (and pair) enumeration per "
                 "program, differential against CPython executing a Python twin",
}

NONTRIVIAL_REGIONS = {"handler", "else", "finally", "type", "mgr", "enter", "exit"}


def _L(k, e=None):
    return {"op": "L", "k": k, "e": e if e is not None else {"op": "lit", "v": 100 + k}}


def _rd(n):
    return {"op": "rd", "n": n}


def _m(k, var=None, mode="plain", stmt=False, **kw):
    return dict({"var": var, "k": k, "mode": mode, "stmt": stmt, "new": False}, **kw)


def _try(i, b, hs=(), els=None, fin=None, **kw):
    return dict({"op": "try", "id": i, "mb": None, "mf": None, "star": False, "b": b, "hs": list(hs),
                 "else": els, "fin": fin}, **kw)


def regression_programs():
    """Witnesses of the repaired with/try mechanisms (`fixed` entries of known_findings.json)."""
    out = []
    # b1bccbf: (L 5 (with [_ (CM 2) m3 (do (setv tm3 3) (CM tm3))] (L 4 9)))
    out.append(("with-later-manager-statements",
                [_L(5, {"op": "with", "id": 1, "single": False,
                        "ms": [_m(2), _m(3, "m3", stmt=True)], "b": [_L(4)]})]))
    out.append(("with-later-manager-statements",
                [{"op": "set", "n": "r1", "x": True,
                  "e": {"op": "with", "id": 1, "single": False,
                        "ms": [_m(1, "m1", "supp"), _m(2, None, stmt=True), _m(3, "m3", stmt=True)],
                        "b": [_L(4, _rd("m3")), _L(5)]}}, _L(6, _rd("r1"))]))
    # dfba9b8: (setv a (setx b (try 1 (finally 2)))) and the handler variant
    out.append(("setx-try-temp-nameerror",
                [{"op": "set", "n": "r1", "x": False,
                  "e": {"op": "set", "n": "r2", "x": True, "e": _try(1, [_L(1)], fin=[_L(2)])}},
                 _L(3, _rd("r2"))]))
    out.append(("setx-try-temp-nameerror",
                [{"op": "set", "n": "r1", "x": False,
                  "e": {"op": "set", "n": "r2", "x": True,
                        "e": _try(1, [_L(1)], [{"spec": {"form": "single", "types": ["ValueError"], "logk": None},
                                                "var": None, "b": [_L(2)]}])}},
                 _L(3, _rd("r1")), _L(4, _rd("r2"))]))
    # 39e3b71: (setv v2 (try (setv v3 v2) 2 (finally (setv v1 v3) (setv v2 9))))
    out.append(("try-finally-rename-aliasing",
                [{"op": "set", "n": "r2", "x": False,
                  "e": _try(1, [{"op": "set", "n": "r3", "x": False, "e": _L(1, _rd("r2"))}, _L(2)],
                            fin=[{"op": "set", "n": "r1", "x": False, "e": _L(3, _rd("r3"))},
                                 _L(4, _rd("r2")),
                                 {"op": "set", "n": "r2", "x": False, "e": _L(5)}])},
                 _L(6, _rd("r2")), _L(7, _rd("r1"))]))
    # ff7eae6: (with [_ (CMS 1) m2 (CMS 2)] (L 3 103) (L 4 104)) + 3-manager and async variants
    out.append(("with-value-kept-when-inner-exit-raises-and-outer-manager-suppresses",
                [{"op": "with", "id": 1, "single": False, "ms": [_m(1, None, "supp"), _m(2, "m2", "supp")],
                  "b": [_L(3), _L(4)]}]))
    out.append(("with-value-kept-when-inner-exit-raises-and-outer-manager-suppresses",
                [_L(6, {"op": "with", "id": 1, "single": False,
                        "ms": [_m(1, "m1", "suppall"), _m(2, None), _m(3, "m3")], "b": [_L(4, _rd("m3")), _L(5)]})]))
    return out


def _case(prog, rng, tier, max_pairs, regress=None):
    star = "try:except*" in F.features(prog)[0]
    names = F.FAULT_NAMES + (F.GROUP_FAULTS if star else [])
    py = F.render_py(prog, True)
    n, singles, pairs = F.enumerate_plans(F.compile_py(py), rng, tier, max_pairs, names)
    if n == 0:
        return None
    case = {"prog": prog, "hy": F.render_hy(prog), "py": py, "py_exc_reading": F.render_py(prog, False),
            "nevents": n, "plans": [[]] + singles + pairs}
    if regress:
        case["regress"] = regress
    return case


def mix_case(rng):
    """A `try` whose handlers mix `except` and `except*` (or do not): Hy must reject it with a
    Hy syntax error exactly when Python rejects the twin with a SyntaxError."""
    g = F.Gen09(rng, max_depth=1, budget=8)
    sc = {"wvars": [], "hvars": [], "hbound": frozenset(), "in_handler": False, "in_fn": False}
    t = g.try_form(0, sc)
    while len(t["hs"]) < 2:
        t["hs"].append({"spec": {"form": "single", "types": [rng.choice(F.HANDLER_TYPES)], "logk": None},
                        "var": None, "b": [g.leaf()]})
    for h in t["hs"]:
        if h["spec"]["form"] == "all":
            h["spec"] = {"form": "single", "types": ["Exception"], "logk": None}
        h["star"] = rng.random() < 0.5
    prog = {"ctx": rng.choice(["module", "fn"]), "forms": [t]}
    return {"kind": "mix", "prog": prog, "hy": F.render_hy(prog), "py": F.render_py(prog, True)}


def cases(seed, tier, shard, nshards):
    max_pairs = 24 if tier == "quick" else 1500
    # 1. deterministic regression section: witnesses of repaired mechanisms, every context,
    #    all single-fault plans and pairs
    j = 0
    for key, forms in regression_programs():
        for ctx in F.ALL_CTXS:
            j += 1
            if j % nshards != shard:
                continue
            c = _case({"ctx": ctx, "forms": forms}, rng_for(seed, ID, "regress", j), "thorough", 400, regress=key)
            if c:
                yield c
    # 2. generated programs
    i = 0
    while True:
        rng = rng_for(seed, ID, shard, i)
        i += 1
        if i % 16 == 0:
            for _ in range(8):
                yield mix_case(rng)
            continue
        ctx = F.ALL_CTXS[i % 5] if rng.random() < 0.8 else rng.choice(F.ALL_CTXS)
        prog = F.gen09(rng, ctx, max_depth=rng.choice([1, 2, 3, 3]), star=(i % 3 == 0))
        c = _case(prog, rng, tier, max_pairs)
        if c:
            yield c


def case_key(case):
    return [case["hy"], case.get("plans")]


def _cmp(got, ref, tries):
    """None if the Hy run agrees with the twin run, else an explanation."""
    if got["events"] != ref["events"]:
        a, b = got["events"], ref["events"]
        j = next((x for x in range(min(len(a), len(b))) if a[x] != b[x]), min(len(a), len(b)))
        return (f"event trace differs from CPython's at #{j + 1}: hy {a[j] if j < len(a) else 'ended'} vs "
                f"twin {b[j] if j < len(b) else 'ended'}; hy trace {[x[0] for x in a]} twin trace {[x[0] for x in b]}")
    if got["exc"] != ref["exc"]:
        return f"escaping exception {got['exc']} but CPython's twin gives {ref['exc']} (value {ref['result']})"
    if got["result"] != ref["result"]:
        return f"value {got['result']} but the twin (docs value rule) gives {ref['result']}"
    if got["finals"] != ref["finals"]:
        d = {k: (got["finals"][k], ref["finals"][k]) for k in got["finals"] if got["finals"][k] != ref["finals"][k]}
        return f"outer variables after the run differ (hy, twin): {d}"
    return None


def _finally_counts(events, tries):
    sites = {}
    for ev in events:
        sites[ev[0]] = sites.get(ev[0], 0) + 1
    for t in tries:
        if t.get("mb") is not None and t.get("mf") is not None:
            nb, nf = sites.get(t["mb"], 0), sites.get(t["mf"], 0)
            if nb != nf:
                return f"try #{t['id']} was entered {nb}x (site {t['mb']}) but its finally ran {nf}x (site {t['mf']})"
    return None


def check_plan(hy_code, py_code, py2_code, plan, tries, diag=None):
    """Returns (why|None, info).  `diag`: callable giving the compiled diagnostic twin."""
    got = F.run_code(hy_code, plan)
    ref = F.run_code(py_code, plan)
    info = {"got": got, "ref": ref, "reading2": False, "carved": False}
    why = _cmp(got, ref, tries)
    if why is not None and py2_code is not None:
        ref2 = F.run_code(py2_code, plan)
        if _cmp(got, ref2, tries) is None:
            info["reading2"] = True
            info["ref"] = ref2
            why = None
    if why is not None and diag is not None:
        # Trusted-base guard: CPython 3.12.1 can complete an except* try statement normally
        # although a handler body raised (the raised group is mistaken for a re-raise and
        # dropped).  The diagnostic twin -- same observable run, plus bookkeeping -- proves it;
        # such a reference run cannot judge Hy and the plan is not judged.
        dg = F.run_code(diag(), plan)
        if dg["lost"] and all(dg[k] == ref[k] for k in ("events", "exc", "result", "finals")):
            info["carved"] = True
            why = None
    if why is None and not info["carved"]:
        why = _finally_counts(got["events"], tries)
    return why, info


def run_mix(case):
    prog = case["prog"]
    flags = {bool(h.get("star")) for h in prog["forms"][0]["hs"]}
    mixed = len(flags) == 2
    res = {"ok": True, "nontrivial": mixed, "events": 0, "n": 1,
           "classes": ["kind:except-mix", "mix:" + ("mixed" if mixed else "uniform-" + ("star" if True in flags else "plain"))]}
    try:
        F.compile_py(case["py"])
        py_err = None
    except SyntaxError as ex:
        py_err = ex
    try:
        hy_code, _ = F.compile_hy_module(case["hy"])
        hy_err = None
    except BaseException as ex:
        if type(ex).__name__ == "CaseTimeout":
            raise
        hy_err = ex
    if py_err is not None:
        import hy.errors
        res["classes"].append("mix:python-syntax-error")
        if hy_err is None:
            res.update(ok=False, why=f"Python rejects the twin ({py_err.msg}) but Hy compiled: {case['hy'][:500]}")
        elif not isinstance(hy_err, hy.errors.HyLanguageError):
            res.update(ok=False, why=f"Python rejects the twin ({py_err.msg}); Hy raised {type(hy_err).__name__} "
                                     f"instead of a Hy syntax error: {case['hy'][:500]}")
    elif hy_err is not None:
        res.update(ok=False, why=f"Python accepts the twin but Hy raised {type(hy_err).__name__}: "
                                 f"{str(hy_err)[:300]}: {case['hy'][:500]}")
    else:
        # both compile: they must also run alike
        why, info = check_plan(hy_code, F.compile_py(case["py"]), None, [], F.features(prog)[1])
        res["events"] = len(info["got"]["events"])
        if why:
            res.update(ok=False, why=f"plan []: {why} [program: {case['hy'][:500]}]")
    return res


def run_case(case):
    if case.get("kind") == "mix":
        return run_mix(case)
    prog = case["prog"]
    feats, tries = F.features(prog)
    reg = F.regions(prog)
    classes = {"ctx:" + prog["ctx"]} | feats
    if case.get("regress"):
        classes.add("regress:" + case["regress"])
    res = {"ok": True, "nontrivial": False, "events": 0, "n": 0}
    try:
        hy_code, tree = F.compile_hy_module(case["hy"])
    except Exception as ex:
        res.update(ok=False, n=1, classes=sorted(classes),
                   why=f"compilation failed: {type(ex).__name__}: {str(ex)[:400]}")
        return res
    py_code = F.compile_py(case["py"])
    py2_code = F.compile_py(case["py_exc_reading"]) if "spec:all" in feats else None
    sha = hashlib.sha1(case["hy"].encode()).hexdigest()[:16]
    nt_keys = []
    bad = []
    diag = None
    if "try:except*" in feats:
        memo = []

        def diag():
            if not memo:
                memo.append(F.compile_py(F.render_py(prog, True, diag=True)))
            return memo[0]
    for plan in case["plans"]:
        why, info = check_plan(hy_code, py_code, py2_code, plan, tries, diag)
        if info["carved"]:
            classes.add("carve:cpython-exceptstar-dropped-raised-exception(reference-run-not-judged)")
        res["n"] += 1
        res["events"] += len(info["got"]["events"])
        ref = info["ref"]
        # where did the faults land (by the reference run)
        landed = [ev[0] for ev in ref["events"] if isinstance(ev[1], str) and ev[1].startswith("!")]
        regions = [reg.get(str(s), "?") for s in landed]
        for r, (_, t) in zip(regions, plan):
            classes.add("fault-in:" + r)
            classes.add("fault-type:" + t)
        classes.add("plan:" + ("none", "single", "pair")[len(plan)])
        if len(plan) == 2 and len(landed) == 2:
            classes.add("pair:both-landed")
        classes.add("outcome:" + ("value" if ref["exc"] is None else "raises-" + ref["exc"][0]))
        if info["reading2"]:
            classes.add("empty-spec:exception-only-reading-accepted")
        if plan and landed and (len(plan) == 2 or regions[0] in NONTRIVIAL_REGIONS):
            nt_keys.append([sha, plan])
        if why is not None:
            bad.append((plan, why, landed))
    res["nontrivial"] = bool(nt_keys)
    res["nt_keys"] = nt_keys
    res["classes"] = sorted(classes)
    res["sample"] = {"hy": case["hy"], "py": case["py"], "nplans": len(case["plans"]),
                     "plans_head": case["plans"][:6]}
    if bad:
        plan, why, _ = bad[0]
        res["ok"] = False
        fk = _attribute(case, bad)
        if fk:
            res["finding"] = fk
        res["why"] = (f"plan {plan}: {why} [{len(bad)} of {len(case['plans'])} plans of this program disagree; "
                      f"program: {case['hy'][:700]}]")
    return res


FINDING_FLAT_WITH = "with-value-kept-when-inner-exit-raises-and-outer-manager-suppresses"


FINDING_STAR_RENAME = "try-exceptstar-result-renamed-to-assignment-target"


def _recheck(p2, bad):
    try:
        hy2, _ = F.compile_hy_module(F.render_hy(p2))
    except Exception:
        return False
    py2 = F.compile_py(F.render_py(p2, True))
    py2b = F.compile_py(F.render_py(p2, False)) if F.has_all_handler(p2) else None
    _, tries = F.features(p2)
    return all(check_plan(hy2, py2, py2b, plan, tries)[0] is None for plan, _, _ in bad)


def _attribute(case, bad):
    """Mechanism attribution (BUILDING rule 2): the case has the mechanism's input feature AND
    every disagreeing plan agrees once only that feature is normalised away (the normalisers add
    or remove no event, so the same plans apply)."""
    prog = case["prog"]
    # (a) a fault landed in the __exit__ of a manager that shares one Python `with` statement
    #     with an earlier manager; normaliser: each manager gets its own `with` statement
    sites = F.flat_later_exit_sites(prog)
    if sites and all(any(str(s) in sites for s in landed) for _, _, landed in bad):
        if _recheck(F.normalise_flat_multi_with(prog), bad):
            return FINDING_FLAT_WITH
    # (b) (setv/setx x (try ... (except* ...))) without finally; normaliser: add an empty (finally)
    if F.feature_assigned_star_try(prog):
        if _recheck(F.normalise_assigned_star_try(prog), bad):
            return FINDING_STAR_RENAME
    return None


def gate(tot, classes, extra, tier):
    missing = [r for r in ("handler", "else", "finally", "enter", "exit", "mgr", "type")
               if not classes.get("fault-in:" + r)]
    if missing:
        return "no-fault-landed-in-" + "+".join(missing)
    if not classes.get("plan:pair"):
        return "no-pair-plans"
    need = ["try:except*", "op:raise-group", "fault-type:G:N", "mgr:async", "with:mixed-sync-async",
            "mix:python-syntax-error", "ctx:afn"] + ["regress:" + k for k in sorted({k for k, _ in regression_programs()})]
    missing = [c for c in need if not classes.get(c)]
    if missing:
        return "never-reached:" + "+".join(missing)
    return None
