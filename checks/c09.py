"""C09 — try/except/else/finally and with behave correctly at every raise point.

fault_enumeration.  A case is one generated `try`/`with` program (nesting depth
<= 3) in one usage context together with its fault plans: the fault-free run of
the Python twin enumerates the program's events; every event x {ValueError,
KeyError, E1, E2(BaseException)} is a single-fault plan, and ordered pairs (the
second fault lying in code reached after the first) are sampled (quick) or
enumerated (thorough).  The trace logger is the failpoint: the n-th logged event
raises instead of returning.  Harness context managers log construction,
`__enter__` and `__exit__` through the same logger, so faults land there too.

Oracle: CPython executing an independently rendered Python twin (hv/faults.py
`render_py`, written from docs/api.rst) under the same plan.  Compared per plan:
the total-order event trace (site, value token), the value of the form, the
escaping exception's type and identity token (fault ordinal / raise-site id),
the number of `finally` executions per entry of the `try` (marker events), and
the final values of the outer variables (the sentinel pre-bound to the except
variable's name must be intact, the except variable invisible).
"""
import hashlib

from hv import faults as F
from hv.common import rng_for

ID = "C09"
LEVEL = "fault_enumeration"
RULE = ("a case is a generated try/with program (depth <= 3; body, 0-3 handlers with [] / [[]] / [T] / [[T1 T2]] / "
        "[v T] / [v [T..]] / logged type expressions, else, finally; 1-3 managers incl. `_`, single-item form, "
        "statement-producing manager expressions, managers suppressing Exception or everything; raise / bare raise / "
        "return / setv / setx / reads of the except variable and of the same-named outer variable) in one of four "
        "usage contexts (module, fn, 2-iteration loop, value discarded) with ALL single-fault plans over the events of "
        "its fault-free run x 4 exception types, plus ordered pairs (sampled in quick, all in thorough). Each plan is "
        "one evaluation. Non-trivial = the (first) fault lands in a handler, else, finally, except-type expression, "
        "manager construction, __enter__ or __exit__, or the plan is a pair; distinct by (program text, plan).")
FLOOR = {"quick": 2000, "thorough": 20000}
BUDGET = {"quick": 32, "thorough": 540}
CASE_TIMEOUT = 60
NEEDS_EVENTS = True
ANCHORS = ["hy.core.result_macros:compile_try_expression", "hy.core.result_macros:compile_with_expression",
           "hy.core.result_macros:compile_raise_expression"]
ASSUMPTIONS = [
    "CPython 3.12.1 executes try/with/raise as documented (the twin is the reference)",
    "the Python twin renderer (hv/faults.py render_py) encodes docs/api.rst: try -> value of the last form evaluated "
    "among body/handler/else; with -> body value or None when suppressed; except variable local to its handler",
    "`[]` is documented both as \"any subtype of Exception\" and as \"like Python's `except:`\": either reading is "
    "accepted per plan",
    "faults are raised only at logging sites (the failpoint), not between arbitrary byte-codes",
]
MANIFEST = {
    "text": "Generated try/with nestings (depth <= 3) are compiled by the working tree and executed under a trace "
            "logger that is also a failpoint: after a fault-free run enumerates the events, the program is re-run with "
            "a fault injected at every event x {ValueError, KeyError, E1, E2(BaseException)} singly and at ordered "
            "pairs (sampled in quick, all in thorough); faults therefore land in bodies, handlers, else, finally, "
            "except-type expressions, manager construction, __enter__ and __exit__. Every run is compared with CPython "
            "executing an independently rendered Python twin under the same plan: total-order trace, value, escaping "
            "exception type and identity, finally executions per entry, outer variables (sentinel intact, except "
            "variable invisible). fault_enumeration: every single-fault plan of every generated program is run.",
    "note": "Trusted: CPython 3.12.1; the twin renderer's reading of docs/api.rst. Bounds: depth <= 3, <= ~30 sites, "
            "no async managers, no except*, no empty else clause (value undocumented), type expressions are pure, "
            "faults only at logging sites, at most two faults per run.",
    "technique": "runtime monitoring: trace logger as failpoint, exhaustive single-fault (and pair) enumeration per "
                 "program, differential against CPython executing a Python twin",
}

NONTRIVIAL_REGIONS = {"handler", "else", "finally", "type", "mgr", "enter", "exit"}


def cases(seed, tier, shard, nshards):
    i = 0
    max_pairs = 24 if tier == "quick" else 1500
    while True:
        rng = rng_for(seed, ID, shard, i)
        ctx = F.CTXS[i % 4] if rng.random() < 0.8 else rng.choice(F.CTXS)
        i += 1
        prog = F.gen09(rng, ctx, max_depth=rng.choice([1, 2, 3, 3]))
        py = F.render_py(prog, True)
        n, singles, pairs = F.enumerate_plans(F.compile_py(py), rng, tier, max_pairs)
        if n == 0:
            continue
        yield {"prog": prog, "hy": F.render_hy(prog), "py": py, "py_exc_reading": F.render_py(prog, False),
               "nevents": n, "plans": [[]] + singles + pairs}


def case_key(case):
    return [case["hy"], case["plans"]]


def _cmp(got, ref, tries):
    """None if the Hy run agrees with the twin run, else an explanation."""
    if got["events"] != ref["events"]:
        a, b = got["events"], ref["events"]
        j = next((x for x in range(min(len(a), len(b))) if a[x] != b[x]), min(len(a), len(b)))
        return (f"event trace differs from CPython's at #{j + 1}: hy {a[j] if j < len(a) else 'ended'} vs "
                f"twin {b[j] if j < len(b) else 'ended'}; hy trace {[x[0] for x in a]} twin trace {[x[0] for x in b]}")
    if got["exc"] != ref["exc"]:
        return f"escaping exception {got['exc']} but CPython's twin gives {ref['exc']} (value {ref['result']})"
    if got["result"] != ref["result"]:
        return f"value {got['result']} but the twin (docs value rule) gives {ref['result']}"
    if got["finals"] != ref["finals"]:
        d = {k: (got["finals"][k], ref["finals"][k]) for k in got["finals"] if got["finals"][k] != ref["finals"][k]}
        return f"outer variables after the run differ (hy, twin): {d}"
    return None


def _finally_counts(events, tries):
    sites = {}
    for ev in events:
        sites[ev[0]] = sites.get(ev[0], 0) + 1
    for t in tries:
        if t.get("mb") is not None and t.get("mf") is not None:
            nb, nf = sites.get(t["mb"], 0), sites.get(t["mf"], 0)
            if nb != nf:
                return f"try #{t['id']} was entered {nb}x (site {t['mb']}) but its finally ran {nf}x (site {t['mf']})"
    return None


def check_plan(hy_code, py_code, py2_code, plan, tries):
    """Returns (why|None, info)."""
    got = F.run_code(hy_code, plan)
    ref = F.run_code(py_code, plan)
    info = {"got": got, "ref": ref, "reading2": False}
    why = _cmp(got, ref, tries)
    if why is not None and py2_code is not None:
        ref2 = F.run_code(py2_code, plan)
        if _cmp(got, ref2, tries) is None:
            info["reading2"] = True
            info["ref"] = ref2
            why = None
    if why is None:
        why = _finally_counts(got["events"], tries)
    return why, info


def run_case(case):
    prog = case["prog"]
    feats, tries = F.features(prog)
    reg = F.regions(prog)
    classes = {"ctx:" + prog["ctx"]} | feats
    res = {"ok": True, "nontrivial": False, "events": 0, "n": 0}
    try:
        hy_code, tree = F.compile_hy_module(case["hy"])
    except Exception as ex:
        res.update(ok=False, n=1, classes=sorted(classes),
                   why=f"compilation failed: {type(ex).__name__}: {str(ex)[:400]}")
        return res
    py_code = F.compile_py(case["py"])
    py2_code = F.compile_py(case["py_exc_reading"]) if "spec:all" in feats else None
    sha = hashlib.sha1(case["hy"].encode()).hexdigest()[:16]
    nt_keys = []
    bad = []
    for plan in case["plans"]:
        why, info = check_plan(hy_code, py_code, py2_code, plan, tries)
        res["n"] += 1
        res["events"] += len(info["got"]["events"])
        ref = info["ref"]
        # where did the faults land (by the reference run)
        landed = [ev[0] for ev in ref["events"] if isinstance(ev[1], str) and ev[1].startswith("!")]
        regions = [reg.get(str(s), "?") for s in landed]
        for r, (_, t) in zip(regions, plan):
            classes.add("fault-in:" + r)
            classes.add("fault-type:" + t)
        classes.add("plan:" + ("none", "single", "pair")[len(plan)])
        if len(plan) == 2 and len(landed) == 2:
            classes.add("pair:both-landed")
        classes.add("outcome:" + ("value" if ref["exc"] is None else "raises-" + ref["exc"][0]))
        if info["reading2"]:
            classes.add("empty-spec:exception-only-reading-accepted")
        if plan and landed and (len(plan) == 2 or regions[0] in NONTRIVIAL_REGIONS):
            nt_keys.append([sha, plan])
        if why is not None:
            bad.append((plan, why, landed))
    res["nontrivial"] = bool(nt_keys)
    res["nt_keys"] = nt_keys
    res["classes"] = sorted(classes)
    res["sample"] = {"hy": case["hy"], "py": case["py"], "nplans": len(case["plans"]),
                     "plans_head": case["plans"][:6]}
    if bad:
        plan, why, _ = bad[0]
        res["ok"] = False
        fk = _attribute(case, bad)
        if fk:
            res["finding"] = fk
        res["why"] = (f"plan {plan}: {why} [{len(bad)} of {len(case['plans'])} plans of this program disagree; "
                      f"program: {case['hy'][:700]}]")
    return res


FINDING_FLAT_WITH = "with-value-kept-when-inner-exit-raises-and-outer-manager-suppresses"


def _attribute(case, bad):
    """Mechanism attribution (BUILDING rule 2): every disagreeing plan has the feature -- a
    fault landed in the __exit__ of a manager that shares one Python `with` statement with an
    earlier manager -- AND agrees once only that feature is normalised away (each manager gets
    its own `with` statement; no event added or removed, so the same plan applies)."""
    prog = case["prog"]
    sites = F.flat_later_exit_sites(prog)
    if not sites or not all(any(str(s) in sites for s in landed) for _, _, landed in bad):
        return None
    p2 = F.normalise_flat_multi_with(prog)
    try:
        hy2, _ = F.compile_hy_module(F.render_hy(p2))
    except Exception:
        return None
    py2 = F.compile_py(F.render_py(p2, True))
    py2b = F.compile_py(F.render_py(p2, False)) if F.has_all_handler(p2) else None
    _, tries = F.features(p2)
    if all(check_plan(hy2, py2, py2b, plan, tries)[0] is None for plan, _, _ in bad):
        return FINDING_FLAT_WITH
    return None


def gate(tot, classes, extra, tier):
    missing = [r for r in ("handler", "else", "finally", "enter", "exit", "mgr", "type")
               if not classes.get("fault-in:" + r)]
    if missing:
        return "no-fault-landed-in-" + "+".join(missing)
    if not classes.get("plan:pair"):
        return "no-pair-plans"
    return None
