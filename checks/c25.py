"""C25 — hy.repr of any readable model reads back to the same model.

History observed: the text hy.repr prints for a model, the model obtained by
reading and evaluating that text, and the text printed for that model.
Oracle: deep typed equality (types, brackets, conversion, is_tstring at every
node; NaN-aware) and text fixpoint.
"""
import types

from hv import gen_models as G
from hv.common import rng_for, same_model

ID = "C25"
LEVEL = "exploration"
RULE = ("models from three sources: (a) read from generated Hy source over every syntax form with "
        "random spellings, (b) assembled with constructors from reader-valid parts and admitted only "
        "if an independent printer + the reader reproduce them, (c) every top-level form and distinct "
        "compound sub-form of the repository's own *.hy files. Non-trivial = the model contains an "
        "f-string, a bracket string or a sugar form; distinct by rendered case.")
FLOOR = {"quick": 800, "thorough": 2000}
BUDGET = {"quick": 18, "thorough": 480}
CASE_TIMEOUT = 20
NEEDS_EVENTS = True
ANCHORS = ["hy.core.hy_repr:hy_repr", "hy.core.hy_repr:_base_repr", "hy.core.hy_repr:_cat"]
ASSUMPTIONS = [
    "the reader is correct on the generated texts (C18-C24 check it); a model is 'readable' iff it "
    "was read from text or the independent printer's text reads back to it",
    "FComponent.expression is not compared (the statement names brackets, conversion, is_tstring)",
    "sign of zero is not gating; NaN equals NaN",
]
MANIFEST = {
    "text": "For models read from generated Hy source over every syntax form, models assembled from "
            "reader-valid parts (admitted only when an independent printer plus the reader reproduce "
            "them) and every form of the repository's own Hy files, hy.repr's text is read (must be "
            "exactly one form), evaluated and compared node by node (type, brackets, conversion, "
            "is_tstring, payload; NaN-aware) with the original, and printed again (text fixpoint). "
            "Exploration: held on the models run, nothing beyond.",
    "note": "Trusted: the reader and quote on the printed text (checked by C18-C24, C30); the "
            "independent printer in hv/gen_models.py only decides admission. Bounds: depth <= 4, "
            "strings <= 10 chars, spec nesting <= 2.",
    "technique": "runtime monitoring: print -> read -> eval -> deep typed comparison and text fixpoint "
                 "over generated and corpus models, with mechanism attribution by normalisation",
}

ATTRS = ("brackets", "conversion", "is_tstring")
_state = {"mod": None, "events": 0, "patched": False}


def _mod():
    if _state["mod"] is None:
        _state["mod"] = types.ModuleType("hv_c25_eval")
    return _state["mod"]


def setup_worker(tier, seed):
    """Secondary monitor: count hy-repr's recursive calls (skipped if the internal moved)."""
    try:
        import hy.core.hy_repr as R
        orig = R.hy_repr

        def counting(obj):
            _state["events"] += 1
            return orig(obj)
        R.hy_repr = counting
        _state["patched"] = True
    except Exception:
        _state["patched"] = False


# Deterministic regression inputs: the witness of every repaired mechanism (known_findings.json,
# status fixed) with small variations of nesting position, neighbours and spelling.
REGRESS = {
    "complex-negative-zero-imag": [
        "-3-0j", "1-0j", "-0.0-0j", "Inf-0j", "NaN-0j", "[-3-0j]", "(f 1-0j 2.5-0J)", "{1 -3-0j}",
        "'-3-0j", "#(-3-0j -3+0j)", 'f"{-3-0j}"', 'f"{x :{2-0j}}"', "~-3-0j", "#{1e3-0j}"],
    "unquote-of-at-dotted-form": [
        "(unquote (. @a b))", "(unquote @a.b)", "~ @a.b", "~ @.b", "~ @a.b.c", "[~ @a.b]", "(f ~ @x.y 1)",
        "`(a ~ @b.c)", "~ ~ @a.b", "'~ @a.b", "#* ~ @a.b", 'f"{~ @a.b}"', 'f"{x :{~ @a.b}}"', "~ @@.y",
        "{~ @a.b ~ @c}", "~ @x", "~ @", "(unquote (. @ b c))", "~@ ~ @a.b", "#(~ @a.b)"],
    "dotted-sugar-not-a-dotted-identifier": [
        "(. . .)", "(. None . a)", "(. None _1)", "(. a ..)", "(. a ... b)", "(.. None .)", "(. None ...)",
        "(. None _1e5)", "(. None ,1)", "(. None _1j)", "(. None _1_0)", "(. . . .)", "(... None ..)",
        "[(. . .)]", "(f (. None _1) 2)", "'(. . .)", 'f"{(. . .)}"', "~(. None _1)", "(. a . b)",
        "(. None _0x1)", "#((. None _1) (. . .))", 'f"{x :{(. None _1)}}"'],
    # (¶ stands for a newline, ¤ for a carriage return in the source text)
    "bracket-string-leading-newline": [
        "#[[¶¶abc]]", "#[x[¶¶]x]", "#[[¶¶¶]]", "#[f[¶¶abc{x}]f]", "#[f-x[¶¶{x}]f-x]",
        "[#[[¶¶abc]] 1]", 'f"{#[[¶¶a]]}"', "#[[¶¤¶abc]]", "#[==[¶¶ ]==]", "(f #[[¶¶]])",
        "#[f[¶¶]f]", "#[f[¶¶{{]f]", "'#[[¶¶q]]", "{#[[¶¶k]] #[f[¶¶{v}]f]}", "#[[¤¤ab]]"],
    "fcomponent-multi-spec": [
        'f"{x :{w}.{p}}"', 'f"{x :a{w}}"', 'f"{x :{w}b}"', 'f"{x !r :{w}.{p}f}"', "#[f[{x :{w}.{p}}]f]",
        't"{x :{w}.{p}}"', 'f"{x :{w :{a}{b}}}"', '[f"{x :>{w}}"]', 'f"a{x :{w}.{p}}b{y :{w}{p}}"',
        'f"{x :{w !r}{p !s :>3}z}"', 'rf"{x :{w}-{p}}"', '(f f"{x :{w}{p}{q}}")', 'f"{x = :{w}.{p}}"',
        'f"{f"{y :{a}{b}}" :{w}.{p}}"'],
    "fspec-string-verbatim": [
        'f"{x :a{{b}"', 'f"{x :{{}"', r'f"{x :\\>5}"', r'f"{x :\">5}"', r'f"{x :\r}"', "#[f[{x :a{{b}]f]",
        r"#[f[{x :\>5}]f]", 'f"{x :{{{w}}"', r'f"{x :\x5c}"', r'f"{x !r :\t{{}"', r't"{x :{{<\\}"',
        r'[f"{x :\"}"]', 'f"{x :{w :{{}}"', 'f"{x :{{{{}"', r'f"{x :\\{w}}"'],
    "fcomponent-value-starts-with-brace": [
        'f"{ {1 2} }"', 'f"{ {} }"', 'f"{ {1 2} !r :>9}"', "#[f[{ {1 2}}]f]", 'f"{x :{ {1 2} }}"',
        'f"a{ {"k" {1 2}} }b"', 't"{ {1 2} }"', '[f"{ {:a 1} }"]', 'f"{ {1 2} = }"', 'f"{{{ {1 2} }}}"',
        'rf"{ {1 2}}"', 'f"{ {1} }{ {2 3} }"'],
    "fstring-escaped-backslash-before-N-brace": [
        r'f"\x5cN{{x}}"', r'f"{"\N{BULLET}" = }"', r'f"\x5c\x5cN{{"', r'f"a\x5cN{{BULLET}}{x}"',
        r'f"{x :\x5cN{{}"', r'[f"\x5cN{{a}}" 1]', r't"\x5cN{{x}}"', r'f"\x5cN{x}"'],
}
REGRESS_TOTAL = {k: len(v) for k, v in REGRESS.items()}


def regress_cases(shard, nshards):
    n = 0
    for key, texts in REGRESS.items():
        for text in texts:
            n += 1
            if n % nshards == shard:
                yield {"kind": "text", "regress": key,
                       "text": text.replace("¶", "\n").replace("¤", "\r")}


def gate(tot, classes, extra, tier):
    missing = [k for k, n in REGRESS_TOTAL.items() if classes.get("regress:" + k, 0) < n]
    if missing:
        return "regression-inputs-did-not-all-run:" + ",".join(missing)


def cases(seed, tier, shard, nshards):
    yield from regress_cases(shard, nshards)
    corpus = G.corpus_iter(shard, nshards)
    depth = 3 if tier == "quick" else 4
    i = 0
    while True:
        rng = rng_for(seed, ID, shard, i)
        k = i % 5
        i += 1
        focus = G.FOCI[(i // 5) % len(G.FOCI)]
        if k == 0:
            item = next(corpus, None)
            if item is not None and item[1]["t"] != "FComp":
                yield {"kind": "corpus", "src": item[0], "m": item[1]}
            continue
        ir = G.gen_ir(rng, rng.choice([1, 2, depth]), "readable", focus)
        if k in (1, 2):
            try:
                yield {"kind": "text", "text": G.to_text(ir, rng)}
            except G.Unprintable:
                pass
        else:
            yield {"kind": "ir", "m": ir}


def roundtrip(m):
    """Returns (why-or-None, printed text)."""
    import hy
    from hy.reader import read_many
    try:
        s = hy.repr(m)
    except Exception as e:
        return f"hy.repr raised {type(e).__name__}: {e}", None
    if not _state["patched"]:
        _state["events"] += 1
    try:
        forms = list(read_many(s))
    except Exception as e:
        return f"printed text {s!r} does not read: {type(e).__name__}: {str(e).strip().splitlines()[-1]}", s
    if len(forms) != 1:
        return f"printed text {s!r} reads as {len(forms)} forms", s
    try:
        back = hy.eval(forms[0], module=_mod())
    except Exception as e:
        return f"evaluating printed text {s!r} raised {type(e).__name__}: {e}", s
    d = same_model(m, back, attrs=ATTRS)
    if d:
        return f"printed {s!r}; read back differs at {d}", s
    try:
        s2 = hy.repr(back)
    except Exception as e:
        return f"hy.repr of the read-back model raised {type(e).__name__}: {e}", s
    if s2 != s:
        return f"printed {s!r} but the read-back model prints {s2!r}", s
    return None, s


# --- mechanism attribution (feature predicate over the IR, normaliser) -------

def _n_multispec(ir):
    return G.map_ir(ir, lambda j: dict(j, c=j["c"][:2]) if j["t"] == "FComp" and len(j["c"]) > 2 else j)


def _n_leading_nl(ir):
    def f(j):
        if j["t"] == "Str" and j.get("b") is not None:
            return dict(j, v=j["v"].lstrip("\n"))
        if j["t"] == "FStr" and j.get("b") is not None and j["c"] and j["c"][0]["t"] == "Str":
            first = dict(j["c"][0], v=j["c"][0]["v"].lstrip("\n"))
            return dict(j, c=([first] if first["v"] else []) + j["c"][1:])
        return j
    return G.map_ir(ir, f)


def _n_spec_braces(ir):
    def f(j):
        if j["t"] == "FComp":
            return dict(j, c=j["c"][:1] + [dict(c, v=c["v"].replace("{", "_").replace("}", "_"))
                                           if c["t"] == "Str" else c for c in j["c"][1:]])
        return j
    return G.map_ir(ir, f)


def _numberlike(text):
    t = text[:1] + text[1:].replace("_", "").replace(",", "")
    for conv in (lambda x: int(x, 0), float, complex):
        try:
            conv(t)
            return True
        except ValueError:
            pass
    return False


def _dotted_text(j):
    kids = j["c"]
    if kids[1]["v"] == "None":
        return kids[0]["v"] + ".".join(k["v"] for k in kids[2:])
    return ".".join(k["v"] for k in kids[1:])


def _bad_dotted(j):
    """A dotted-sugar expression whose dotted spelling is not a dotted identifier."""
    return G.sugar_head(j) == "dotted" and (any(G.all_dots(c["v"]) for c in j["c"][1:])
                                            or _numberlike(_dotted_text(j)))


def _n_dots_part(ir):
    def f(j):
        if _bad_dotted(j):
            j = dict(j, c=j["c"][:1] + [G.sym("d") if G.all_dots(c["v"]) else c for c in j["c"][1:]])
            if _numberlike(_dotted_text(j)):
                j = dict(j, c=j["c"][:2] + [G.sym("s" + c["v"]) for c in j["c"][2:]])
        return j
    return G.map_ir(ir, f)


def _n_brace_value(ir):
    def f(j):
        if j["t"] == "FComp" and j["c"] and j["c"][0]["t"] == "Dict":
            return dict(j, c=[dict(j["c"][0], t="List")] + j["c"][1:])
        return j
    return G.map_ir(ir, f)


ESC_CHARS = ('\\', '"', '\r')


def _spec_strings(j, raw=False, fix=None):
    """Walk format-spec strings with their context (raw = inside a bracket f-string).
    Without `fix`: yields (string node, raw). With `fix`: returns the rewritten tree."""
    if j["t"] == "FStr":
        raw = j.get("b") is not None
    if "c" not in j:
        return j if fix else []
    kids, found = [], []
    for i, c in enumerate(j["c"]):
        if j["t"] == "FComp" and i >= 1 and c["t"] == "Str":
            if fix:
                kids.append(fix(c, raw))
            else:
                found.append((c, raw))
        else:
            r = _spec_strings(c, raw, fix)
            if fix:
                kids.append(r)
            else:
                found.extend(r)
    return dict(j, c=kids) if fix else found


def _has_spec_escape(ir):
    return any(not raw and any(ch in c["v"] for ch in ESC_CHARS) for c, raw in _spec_strings(ir))


def _n_spec_escape(ir):
    def fix(c, raw):
        if raw:
            return c
        v = c["v"]
        for ch in ESC_CHARS:
            v = v.replace(ch, "_")
        return dict(c, v=v)
    return _spec_strings(ir, False, fix)


def _fstr_strings(j, raw=False, fix=None, found=None):
    """Literal and spec strings of non-bracket f-strings (where escapes are processed)."""
    if j["t"] == "FStr":
        raw = j.get("b") is not None
    if "c" not in j:
        return j
    kids = []
    for i, c in enumerate(j["c"]):
        if c["t"] == "Str" and not raw and (j["t"] == "FStr" or (j["t"] == "FComp" and i >= 1)):
            if found is not None:
                found.append(c)
            kids.append(fix(c) if fix else c)
        else:
            kids.append(_fstr_strings(c, raw, fix, found))
    return dict(j, c=kids)


def _has_bs_n_brace(ir):
    found = []
    _fstr_strings(ir, found=found)
    return any("\\N{" in c["v"] for c in found)


def _n_bs_n_brace(ir):
    return _fstr_strings(ir, fix=lambda c: dict(c, v=c["v"].replace("\\N{", "\\M{")))


def _at_dotted(j):
    """(unquote X) where X is not a symbol but prints starting with '@' (a dotted form @a.b)."""
    if j["t"] == "Expr" and len(j["c"]) == 2 and j["c"][0] == G.sym("unquote"):
        x = j["c"][1]
        if G.sugar_head(x) == "dotted":
            first = x["c"][1] if x["c"][0]["v"] == "." and x["c"][1]["v"] != "None" else x["c"][0]
            return first["v"].startswith("@")
    return False


def _n_at_dotted(ir):
    def f(j):
        if _at_dotted(j):
            x = j["c"][1]
            k = 1 if x["c"][0]["v"] == "." and x["c"][1]["v"] != "None" else 0
            kids = list(x["c"])
            kids[k] = G.sym("x" + kids[k]["v"])
            return dict(j, c=[j["c"][0], dict(x, c=kids)])
        return j
    return G.map_ir(ir, f)


def _spec_debug(j):
    """A format spec holding the text of a nested `=` field: two adjacent Strings, or a String
    with a '}' (neither can be spelled as plain spec text)."""
    if j["t"] != "FComp":
        return False
    spec = j["c"][1:]
    return any(a["t"] == "Str" and b["t"] == "Str" for a, b in zip(spec, spec[1:])) or \
        any(c["t"] == "Str" and "}" in c["v"] for c in spec)


def _n_spec_debug(ir):
    def f(j):
        if not _spec_debug(j):
            return j
        out = []
        for c in j["c"][1:]:
            if c["t"] == "Str":
                c = dict(c, v=c["v"].replace("}", "_"))
                if out and out[-1]["t"] == "Str":
                    out[-1] = dict(out[-1], v=out[-1]["v"] + c["v"])
                    continue
            out.append(c)
        return dict(j, c=j["c"][:1] + out)
    return G.map_ir(ir, f)


def _neg_zero_imag(j):
    return j["t"] == "Complex" and j["v"][1] == "-0.0"


def _n_zero_imag(ir):
    return G.map_ir(ir, lambda j: dict(j, v=[j["v"][0], "0.0"]) if _neg_zero_imag(j) else j)


NORMALISERS = [
    ("fspec-nested-debug-text", lambda ir: any(_spec_debug(j) for j, _, _ in G.walk(ir)), _n_spec_debug),
    ("fcomponent-multi-spec", lambda ir: "multi-spec" in G.features(ir), _n_multispec),
    ("bracket-string-leading-newline", lambda ir: "leading-newline" in G.features(ir), _n_leading_nl),
    # one mechanism: the printer inserts a format-spec String verbatim ('{' not doubled; in a
    # non-bracket f-string backslash, '"' and CR not escaped)
    ("fspec-string-verbatim", lambda ir: "spec-braces" in G.features(ir) or _has_spec_escape(ir),
     lambda ir: _n_spec_escape(_n_spec_braces(ir))),
    ("dotted-sugar-not-a-dotted-identifier", lambda ir: any(_bad_dotted(j) for j, _, _ in G.walk(ir)), _n_dots_part),
    ("fcomponent-value-starts-with-brace", lambda ir: "fcomp-brace-value" in G.features(ir), _n_brace_value),
    ("unquote-of-at-dotted-form", lambda ir: any(_at_dotted(j) for j, _, _ in G.walk(ir)), _n_at_dotted),
    ("fstring-escaped-backslash-before-N-brace", _has_bs_n_brace, _n_bs_n_brace),
    ("complex-negative-zero-imag", lambda ir: any(_neg_zero_imag(j) for j, _, _ in G.walk(ir)), _n_zero_imag),
]

CLASS_FEATS = ("fstring", "tstring", "bracket-string", "sugar", "fspec", "multi-spec", "nested-spec",
               "spec-braces", "leading-newline", "empty-seq", "odd-dict", "kw-empty", "special-symbol",
               "nan-inf", "dotted-dots-part", "fcomp-brace-value", "attr:conversion")


def run_case(case):
    import hy
    kind = case["kind"]
    ev0 = _state["events"]
    if kind == "text":
        try:
            m = hy.read(case["text"])
            ir = G.enc(m)
        except Exception:
            return {"ok": None, "classes": ["skip:generated-text-unreadable"]}
    else:
        ir = case["m"]
        m = G.dec(ir)
        if kind == "ir":
            # premise: the reader can produce this model
            try:
                d = same_model(m, hy.read(G.to_text(ir)), attrs=ATTRS)
            except Exception as e:
                d = str(e)
            if d:
                return {"ok": None, "classes": ["skip:not-reader-producible"]}
    feats = G.features(ir)
    classes = ["kind:" + kind] + (["regress:" + case["regress"]] if "regress" in case else []) + sorted(f for f in feats if f.startswith(("T:", "sugar:")) or f in CLASS_FEATS)
    why, text = roundtrip(m)
    res = {"ok": why is None,
           "nontrivial": bool(feats & {"fstring", "bracket-string", "sugar"}),
           "classes": classes,
           "sample": {"kind": kind, "printed": (text or "")[:300], "src": case.get("src")}}
    if why is not None:
        key, causes = G.attribute(ir, lambda j: roundtrip(G.dec(j))[0] is not None, NORMALISERS, ID)
        res["why"] = why[:1500]
        if key:
            res["finding"] = key
            res["why"] += f" [mechanisms: {', '.join(causes)}]"
            classes.append("finding:" + key)
    res["events"] = _state["events"] - ev0
    return res


def finish_worker():
    return {"hy_repr_call_counter_attached": bool(_state["patched"])}
