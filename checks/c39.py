"""C39 — hy.eval returns the value of the last form and restores the caller's `hy`.

fault_enumeration.  A case is a set of *histories* of hy.eval calls, each history
on a fresh pool of dictionaries:

* enum cases: one generated program (hv/gen_prog.py generator: single form, `do`
  block or Lazy stream from hy.read-many) in one argument mode (globals only /
  locals only / both / the same dict as both / module / globals+module /
  locals+module / nothing) and one dictionary configuration (no `hy` entry, or a
  prior entry holding the hy module, a sentinel object, None or an int).  The
  reference interpreter gives the number N of logged events; the history is run
  fault-free and then once per event n = 1..N with the trace logger raising at
  event n (exception type rotating over ValueError, KeyError, E1,
  E2(BaseException); all four in thorough), plus failures during compilation
  (a raising macro, given through `macros=` or the module's macro table, at each
  top-level position) and during reading (malformed tail of the read-many
  stream), optionally after a compile-time event.  Every faulted call is followed
  by a small successful call on the same dictionaries.
* history cases: 2-10 calls with random programs / modes / faults sharing a pool
  of three dictionaries; a quarter of the programs assign `hy` themselves.

Oracle per call: (1) for every dictionary the caller supplied as globals/locals,
the `hy` entry before and after the call is compared by identity ("has an entry
exactly when it had one before, holding the same object"); (2) when no fault
fired, the returned value must equal the reference interpreter's value of the
last form (or the escaping exception the reference's).
"""
import hashlib
import json

from hv import faults as F
from hv import gen_prog as G
from hv.common import rng_for

ID = "C39"
LEVEL = "fault_enumeration"
RULE = ("each evaluation is one hy.eval call inside a history run on fresh dictionaries. enum cases: a gen_prog program "
        "as single form / do block / Lazy read-many stream x argument mode (g, l, gl, same dict as both, module, "
        "g+module, l+module, none) x prior `hy` entry (absent, module, sentinel, None, int), called fault-free and "
        "with the logger raising at EACH of its N events, plus a raising macro at each top-level position and "
        "malformed stream tails, each followed by a successful call on the same dictionaries. history cases: 2-10 "
        "calls sharing three dictionaries; 25% of programs assign `hy`. Non-trivial = the call raised after >= 1 "
        "logged event, or a supplied dictionary had a prior `hy` entry; distinct by (case, history, call).")
FLOOR = {"quick": 2000, "thorough": 20000}
BUDGET = {"quick": 32, "thorough": 540}
CASE_TIMEOUT = 90
NEEDS_EVENTS = True
ANCHORS = ["hy.compiler:hy_eval_user", "hy.compiler:hy_eval"]
ASSUMPTIONS = [
    "the reference interpreter (hv/gen_prog.py Interp) gives the value of the last form",
    "only dictionaries passed as globals= / locals= are 'dictionaries given to hy.eval'; a module passed as module= "
    "(its __dict__ filling in for globals) and the calling frame's namespace are not checked",
    "faults fire at logging sites, in a raising macro or in the reader; not between arbitrary byte-codes of hy.eval",
    "when a fault fired and the program swallowed it (catch-all handler / suppressing manager) the value is not checked",
]
MANIFEST = {
    "text": "Histories of hy.eval calls over generated programs (single forms, do blocks, Lazy read-many streams) in "
            "eight argument modes and five prior-`hy` configurations, with the trace logger raising at each logged "
            "event of each program in turn, raising macros at each top-level position and malformed stream tails, "
            "followed by further calls on the same dictionaries. After every call the `hy` entry of every dictionary "
            "supplied as globals/locals is compared by identity with the entry before the call, and for calls where no "
            "fault fired the result is compared with a reference interpreter's value of the last form. "
            "fault_enumeration: every event of every enumerated program is a crash point.",
    "note": "Trusted: gen_prog.Interp. Bounds: programs <= 40 nodes; histories <= 10 calls; module.__dict__ passed via "
            "module= and the caller's frame are outside the statement (not gated); faults only at logging sites, in "
            "macros and in the reader.",
    "technique": "runtime monitoring: call histories with failpoint enumeration over every logged event, identity "
                 "snapshots of the supplied dictionaries before/after each call, value vs reference interpreter",
}

PRIORS = ["absent", "module", "sentinel", "none", "int"]
TYPES = F.FAULT_NAMES


def _program(rng, small=False):
    for _ in range(20):
        prog = G.gen_program(rng, max_depth=rng.choice([2, 3, 3, 4]),
                             max_nodes=rng.choice([8, 14] if small else [10, 18, 28, 40]))
        assign_hy = rng.random() < 0.25
        if assign_hy:
            prog = F.rename_var(prog, "v0", "hy")
        try:
            ref = G.Interp().run(prog)
        except G.Budget:
            continue
        n = G.count_events(ref["trace"])
        ops = F.prog_ops(prog)
        return {"ir": prog, "assign_hy": assign_hy, "nevents": n,
                "split_safe": not (ops & F.SPLIT_UNSAFE_OPS), "ref_raises": ref["exc"] is not None}
    raise RuntimeError("no program within the interpreter budget")


def _pick_form(rng, p):
    forms = ["do", "lazy"]
    if not p["ir"]["forms"] and not p["assign_hy"]:
        forms += ["single", "single"]
    return rng.choice(forms)


def _pick_mode(rng, p, i=None):
    modes = [m for m in F.MODES if p["split_safe"] or m not in F.SPLIT_MODES]
    weights = [1 if m == "none" else 2 if "module" in m else 4 for m in modes]
    if i is not None:
        return modes[i % len(modes)]
    return rng.choices(modes, weights)[0]


def _bind(mode, names):
    """Which pool dictionaries a call passes: returns (g, l)."""
    if mode in ("g", "g+module"):
        return names[0], None
    if mode in ("l", "l+module"):
        return None, names[0]
    if mode == "gl":
        return names[0], names[1]
    if mode == "same":
        return names[0], names[0]
    return None, None


def _call(pi, p, form, mode, g, l, fault, rng):
    c = {"p": pi, "form": form, "mode": mode, "g": g, "l": l, "fault": fault,
         "text": F.c39_render(p["ir"], form, fault)}
    if "module" in mode:
        c["modstr"] = rng.random() < 0.3
    return c


def _follow(mode, g, l, k):
    return {"p": None, "form": "single", "mode": mode, "g": g, "l": l, "fault": None,
            "text": f"(L {F.FOLLOW_SITE} {k})", "expect": k}


def enum_case(rng, tier, idx):
    p = _program(rng)
    form = _pick_form(rng, p)
    mode = _pick_mode(rng, p, idx)
    pool = {"D0": {"prior": PRIORS[(idx // 8) % 5] if rng.random() < 0.7 else rng.choice(PRIORS)},
            "D1": {"prior": rng.choice(PRIORS)}}
    g, l = _bind(mode, ["D0", "D1"])
    faults = [None]
    for n in range(1, p["nevents"] + 1):
        ts = TYPES if tier == "thorough" else [TYPES[(n + idx) % 4]]
        faults += [{"kind": "event", "n": n, "t": t} for t in ts]
    ntop = len(p["ir"]["forms"]) + 2 if form != "single" else 1
    for pos in range(ntop + 1):
        faults.append({"kind": "macro", "pos": pos, "via": rng.choice(["arg", "module"]),
                       "ct": rng.random() < 0.5})
    if form == "lazy":
        for tail in F.READ_TAILS:
            faults.append({"kind": "read", "tail": tail, "ct": rng.random() < 0.6})
    faults.append({"kind": "ctevent", "n": 1, "t": rng.choice(TYPES), "ct": True})
    hist = []
    for j, f in enumerate(faults):
        calls = [_call(0, p, form, mode, g, l, f, rng)]
        calls.append(_follow(mode, g, l, 41 + j))
        if rng.random() < 0.3:
            calls.append(_call(0, p, form, mode, g, l, None, rng))
        hist.append(calls)
    return {"kind": "enum", "pool": pool, "progs": [p], "histories": hist}


def history_case(rng, tier):
    ncalls = rng.randint(2, 10)
    pool = {f"D{i}": {"prior": rng.choice(PRIORS)} for i in range(3)}
    progs, calls = [], []
    for _ in range(ncalls):
        p = _program(rng, small=True)
        progs.append(p)
        form = _pick_form(rng, p)
        mode = _pick_mode(rng, p)
        names = rng.sample(sorted(pool), 2)
        g, l = _bind(mode, names)
        r = rng.random()
        fault = None
        if r < 0.35 and p["nevents"]:
            fault = {"kind": "event", "n": rng.randint(1, p["nevents"]), "t": rng.choice(TYPES)}
        elif r < 0.45:
            fault = {"kind": "macro", "pos": rng.randint(0, 4), "via": rng.choice(["arg", "module"]),
                     "ct": rng.random() < 0.5}
        elif r < 0.52 and form == "lazy":
            fault = {"kind": "read", "tail": rng.choice(F.READ_TAILS), "ct": rng.random() < 0.5}
        calls.append(_call(len(progs) - 1, p, form, mode, g, l, fault, rng))
        if rng.random() < 0.25:
            calls.append(_follow(mode, g, l, rng.randint(10, 99)))
    return {"kind": "history", "pool": pool, "progs": progs, "histories": [calls[:10]]}


def cases(seed, tier, shard, nshards):
    i = 0
    while True:
        rng = rng_for(seed, ID, shard, i)
        if i % 3 == 2:
            for _ in range(6):
                yield history_case(rng, tier)
        else:
            yield enum_case(rng, tier, i * nshards + shard)
        i += 1


def case_key(case):
    return [case["pool"], [[c["text"], c["mode"], c["g"], c["l"], c["fault"]] for h in case["histories"] for c in h]]


def run_case(case):
    sha = hashlib.sha1(json.dumps(case_key(case), sort_keys=True).encode()).hexdigest()[:16]
    classes = {"kind:" + case["kind"]}
    for p in case["progs"]:
        if p["assign_hy"]:
            classes.add("program-assigns-hy")
    res = {"ok": True, "nontrivial": False, "events": 0, "n": 0}
    nt_keys = []
    bad = []
    for hi, calls in enumerate(case["histories"]):
        recs = F.run_history(case["pool"], case["progs"], calls)
        classes.add(f"history-length:{min(len(calls), 10)}")
        for ci, (c, r) in enumerate(zip(calls, recs)):
            res["n"] += 1
            res["events"] += r["events"]
            classes.update(r["tags"])
            if r.get("value_checked"):
                classes.add("value-checked")
            if r["raised"] and r["events"] >= 1:
                classes.add("raised-after-events")
            if (r["raised"] and r["events"] >= 1) or r["prior"]:
                nt_keys.append([sha, hi, ci])
            if r["why"]:
                bad.append((hi, ci, c, r["why"]))
    res["nontrivial"] = bool(nt_keys)
    res["nt_keys"] = nt_keys
    res["classes"] = sorted(classes)
    h0 = case["histories"][0]
    res["sample"] = {"kind": case["kind"], "pool": case["pool"], "nhistories": len(case["histories"]),
                     "first_history": [{k: c.get(k) for k in ("text", "form", "mode", "g", "l", "fault")} for c in h0]}
    if bad:
        hi, ci, c, why = bad[0]
        res["ok"] = False
        res["why"] = (f"history {hi} call {ci} (mode {c['mode']}, globals={c['g']}, locals={c['l']}, pool "
                      f"{case['pool']}, fault {c['fault']}): {why}; text: {c['text'][:500]} "
                      f"[{len(bad)} calls of this case disagree]")
    return res


def setup_worker(tier, seed):
    F.c39_setup()


def gate(tot, classes, extra, tier):
    need = ["mode:" + m for m in F.MODES] + ["fault:event", "fault:macro", "fault:read", "fault:ctevent",
                                              "raised-after-events", "value-checked", "program-assigns-hy",
                                              "dict:same-object-as-both", "dict:empty"]
    missing = [c for c in need if not classes.get(c)]
    if missing:
        return "never-reached:" + "+".join(missing)
    if not any(k.startswith("dict:prior-") for k in classes):
        return "no-dictionary-with-a-prior-hy-entry"
    return None
