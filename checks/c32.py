"""C32 - hy.mangle yields a canonical Python identifier.

History observed: the return value (or escaping exception) of the real
`hy.mangle` on every name of the workload, and of `hy.mangle` applied to its
own result. Oracle: closed-form predicates over `str.isidentifier` and
`unicodedata` (nothing of hy's own tables is consulted).
"""
import unicodedata

from hv import mangle_gen as G
from hv.common import rng_for

ID = "C32"
LEVEL = "exploration"
RULE = ("every code point 0..0x10FFFF (incl. surrogates) in the seven contexts c, ac, ca, acb, _c, -c, c- "
        "(exhaustive, blocks of 256 code points sharded over the workers) plus random hostile names (30% "
        "with dotted-identifier syntax). Non-trivial = a name that hy.mangle changes. distinct_nontrivial "
        "counts (block, context) pairs that contain such a name plus distinct changed random names (thorough: "
        "one key per batch after the first batches); the exact number of changed names is "
        "coverage.names_changed.")
FLOOR = {"quick": 20000, "thorough": 20000}
BUDGET = {"quick": 45, "thorough": 420}
CASE_TIMEOUT = 900
NEEDS_EVENTS = True
EXHAUSTIVE = {"quick": True, "thorough": True}
ANCHORS = ["hy.reader.mangling:mangle"]
ASSUMPTIONS = ["CPython 3.12.1 str.isidentifier and unicodedata (Unicode 15.0) are the reference for "
               "'valid identifier' and 'NFKC normal form'",
               "an underscore is any character whose NFKC form is '_' (docs/syntax.rst, mangling step 1)",
               "names containing a dot that do not have dotted-identifier syntax (trailing dot, '..' inside) "
               "are outside the documented domain and nothing is demanded of them"]
MANIFEST = {
    "text": "hy.mangle is called on every Unicode code point (0..0x10FFFF including surrogates) in seven "
            "positional contexts - exhaustively in both tiers - and on random hostile names (hyphens, "
            "underscore-like characters, the delimiter X, existing hyx_/XfooX escapes, NFKC-changing "
            "characters, combining marks, unnamed code points, digits first, keywords, dotted names). Each "
            "result is checked by closed-form predicates: str.isidentifier, NFKC-normal, same number of "
            "leading underscores as leading underscore-like characters of the input, NFKC-normal "
            "identifiers unchanged, mangle(mangle(s)) == mangle(s), dotted names equal to the part-wise "
            "manglings joined by dots. Exploration: held on the names run; the code-point sub-space is "
            "complete (exhaustive: true), longer names are sampled.",
    "note": "Trusted: CPython's str.isidentifier/unicodedata. Bounds: exhaustive only for the seven "
            "single-code-point contexts; random names <= ~30 characters.",
    "technique": "runtime monitoring: exhaustive code-point enumeration + random hostile names against "
                 "closed-form unicodedata/isidentifier predicates",
}

RAND_BATCH = 250
RAND_TOTAL = {"quick": 200_000, "thorough": 20_000_000}
KEYED_BATCHES = 1600          # batches whose changed names are keyed individually
DOTTED_SHARE = 0.3

COUNTS = {}


def _bump(k, n=1):
    COUNTS[k] = COUNTS.get(k, 0) + n


def setup_worker(tier, seed):
    COUNTS.clear()
    G.underscore_like()


def finish_worker():
    return dict(COUNTS)


def gate(tot, classes, extra, tier):
    done = extra.get("cp_blocks_done", 0)
    if done < G.NBLOCKS:
        return f"code-point-enumeration-incomplete-{done}-of-{G.NBLOCKS}-blocks"
    return None


def cases(seed, tier, shard, nshards):
    for b in G.block_indices(shard, nshards):
        yield {"kind": "cp", "lo": b * G.BLOCK, "n": G.BLOCK}
    if tier == "thorough" and shard == nshards - 1:
        # DESIGN 6.8: the repository's own tests as a workload, hy.mangle under an icontract postcondition
        yield {"kind": "repo-tests-under-contracts"}
    nb = RAND_TOTAL[tier] // RAND_BATCH
    for i in range(nb):
        if i % nshards != shard:
            continue
        rng = rng_for(seed, ID, shard, i)
        names = [G.rand_name(rng, DOTTED_SHARE) for _ in range(RAND_BATCH)]
        yield {"kind": "rand", "i": i, "keyed": i < KEYED_BATCHES, "names": names}


def case_key(case):
    return case


# --- oracle -----------------------------------------------------------------

def _mangle():
    import hy
    return hy.mangle


def check_plain(mangle, s):
    """The dot-free (or all-dots) clauses. Returns (m, why-or-None, calls)."""
    try:
        m = mangle(s)
    except Exception as e:
        return None, f"mangle({s!r}) raised {type(e).__name__}: {e}", 1
    if type(m) is not str:
        return m, f"mangle({s!r}) returned {type(m).__name__}, not str", 1
    if not m.isidentifier():
        return m, f"mangle({s!r}) = {m!r} is not a valid Python identifier", 1
    if unicodedata.normalize("NFKC", m) != m:
        return m, f"mangle({s!r}) = {m!r} is not in NFKC normal form", 1
    lead_in = G.leading_underscores(s)
    lead_out = len(m) - len(m.lstrip("_"))
    if lead_in != lead_out:
        return m, (f"mangle({s!r}) = {m!r} has {lead_out} leading underscores, the name has "
                   f"{lead_in} leading underscore(-like) characters"), 1
    if m != s and s.isidentifier() and unicodedata.normalize("NFKC", s) == s:
        return m, f"{s!r} is already an NFKC-normal identifier but mangle changed it to {m!r}", 1
    try:
        mm = mangle(m)
    except Exception as e:
        return m, f"mangle(mangle({s!r})) = mangle({m!r}) raised {type(e).__name__}: {e}", 2
    if mm != m:
        return m, f"not idempotent: mangle({s!r}) = {m!r} but mangling that gives {mm!r}", 2
    return m, None, 2


def dotted_parts(s):
    """For a name with dotted-identifier syntax: (number of leading dots,
    parts); None for any other name containing a dot and a non-dot."""
    body = s.lstrip(".")
    parts = body.split(".")
    if not all(parts):
        return None
    return len(s) - len(body), parts


def check_name(mangle, s):
    """Returns (status, m, why, calls); status in ok / bad / skip."""
    if "." in s and s.strip("."):
        dp = dotted_parts(s)
        if dp is None:
            return "skip", None, None, 0
        k, parts = dp
        calls = 0
        expect = []
        for p in parts:
            pm, why, c = check_plain(mangle, p)
            calls += c
            if why:
                return "bad", pm, f"part {p!r} of dotted name {s!r}: {why}", calls
            expect.append(pm)
        want = "." * k + ".".join(expect)
        try:
            m = mangle(s)
        except Exception as e:
            return "bad", None, f"mangle({s!r}) raised {type(e).__name__}: {e}", calls + 1
        calls += 1
        if m != want:
            return "bad", m, (f"dotted name not mangled part-wise: mangle({s!r}) = {m!r}, the parts "
                              f"mangle to {want!r}"), calls
        return "ok", m, None, calls
    m, why, calls = check_plain(mangle, s)
    return ("bad" if why else "ok"), m, why, calls


def run_repo_tests_case():
    from hv.contracts import run_repo_tests
    d = run_repo_tests()
    n = d.get("evaluations", {}).get("mangle", 0)
    if "error" in d or not d.get("installed") or n == 0:
        return {"ok": None, "classes": ["repo-tests:contract-not-evaluated"]}
    bad = [v["what"] for v in d.get("violations", []) if v["property"] == ID]
    res = {"ok": not bad, "nontrivial": False, "classes": ["repo-tests-under-contracts"], "events": n, "n": n,
           "sample": {"kind": "repo-tests-under-contracts", "contract_evaluations": d["evaluations"],
                      "tests_collected": d.get("tests_collected")}}
    if bad:
        res["why"] = "icontract postcondition on hy.mangle failed during the repository's tests: " + " | ".join(bad[:3])
    return res


def run_case(case):
    if case["kind"] == "repo-tests-under-contracts":
        return run_repo_tests_case()
    mangle = _mangle()
    bad = []
    calls = n = changed = skipped = 0
    nt_keys = []
    classes = set()
    sample = None
    if case["kind"] == "cp":
        lo = case["lo"]
        ctx_changed = [0] * len(G.CONTEXTS)
        hyx = hexesc = 0
        for ci, cp, s in G.block_names(lo, case["n"]):
            st, m, why, c = check_name(mangle, s)
            calls += c
            if st == "skip":
                skipped += 1
                continue
            n += 1
            if st == "bad":
                bad.append(why)
                continue
            if m != s:
                ctx_changed[ci] += 1
                if m.lstrip("_").startswith("hyx_"):
                    hyx += 1
                    if "XU" in m:
                        hexesc += 1
                if sample is None:
                    sample = {"name": s, "mangled": m}
        changed = sum(ctx_changed)
        for ci, k in enumerate(ctx_changed):
            if k:
                nt_keys.append(("cp", lo, ci))
                classes.add("changed-in-ctx:" + G.CONTEXTS[ci][0])
                _bump("changed_ctx_" + G.CONTEXTS[ci][0], k)
        classes.add("cp-block")
        classes.update("cat:" + unicodedata.category(chr(cp))[0]
                       for cp in range(lo, lo + case["n"], 16))
        if hyx:
            classes.add("path:hyx-escape")
        if hexesc:
            classes.add("escape:U-hex")
        if hyx > hexesc:
            classes.add("escape:unicode-name")
        _bump("cp_blocks_done")
        _bump("cp_names", n)
        _bump("cp_names_changed", changed)
        _bump("cp_hyx_path", hyx)
        sample = {"kind": "cp", "lo": lo, "n": case["n"], "example": sample}
    else:
        classes.add("rand-batch")
        for s in case["names"]:
            st, m, why, c = check_name(mangle, s)
            calls += c
            if st == "skip":
                skipped += 1
                continue
            n += 1
            classes.update("name:" + t for t in G.name_classes(s))
            if st == "bad":
                bad.append(why)
                continue
            if m != s:
                changed += 1
                if case.get("keyed", True):
                    nt_keys.append(("name", s))
        if changed and not case.get("keyed", True):
            nt_keys.append(("batch", case.get("i")))
        _bump("rand_names", n)
        _bump("rand_names_changed", changed)
        sample = {"kind": "rand", "names": case["names"][:6]}
    _bump("names_changed", changed)
    _bump("names_outside_domain_skipped", skipped)
    res = {"ok": not bad, "nontrivial": bool(nt_keys), "classes": sorted(classes),
           "events": calls, "n": n, "nt_keys": nt_keys, "sample": sample}
    if bad:
        res["why"] = f"{len(bad)} name(s) rejected; first: " + " | ".join(bad[:3])
    return res
