"""C17 — runtime tracebacks point at the line of the failing form.

Observation: the traceback of the one exception a generated program raises.
Every program is laid out with one sub-form per line (random blank lines and
comment lines in between) and contains exactly one *raiser*.  The program is
compiled with filename/source set, executed, and the traceback is walked: the
innermost frame whose filename is the generated module must report a line
inside [start_line, end_line] of the raiser form.  The span is taken from the
positions the tree's reader reports for that form (found in the model tree by
equality with the raiser read on its own) and cross-checked with the lines
the generator's layout recorded.  For a raiser that sits in a user macro's
quasiquoted template the span is the macro call's.

Hosts are hand-written templates with one HOLE each (one template per slot of
each construct); chains of 1-3 hosts are composed around the raiser.
"""
import itertools
import re
import sys
import types

from hv.common import rng_for

ID = "C17"
LEVEL = "exploration"
RULE = ("multi-line programs (one sub-form per line, random blank lines and hostile comment lines) with exactly "
        "one raiser (division by zero, undefined name/function, raise, failing get, failing attribute (both "
        "spellings), failing unpacking assignment, failing import / from-import, call of a non-callable, a harness "
        "function that raises, and ~65 forms whose failing operation the compiler builds by REWRITING the source "
        "form: multi-value augmented assignments, reciprocal/unary/variadic/right-associative operators, comparison "
        "chains, multi-index get, dotted/method-call sugar, (. x [i]), f-string '=' debug fields and specs, cut, "
        "assert, with/for protocol failures, unpacking, core-macro expansions) placed in EACH slot of each host template (do if cond when and or setv setx let fn "
        "calls keyword/unpacked arguments operators collections while for with try assert raise yield quasiquote "
        "defn bodies/defaults/decorators/annotations, class bodies/bases/methods, lfor/sfor/dfor/gfor in both "
        "strategies, match, f-string fields, user macros: raiser in the argument and in the template); depth-1 "
        "host x raiser pairs enumerated in shuffled order (as far as the budget reaches), chains of 1-3 hosts "
        "sampled; at module level and inside a function; line endings LF, CRLF and mixed (with lone CRs inside "
        "comments and a string literal; only LF ends a line); one program in six starts with a shebang line read "
        "with skip_shebang, as files are (it is line 1). "
        "Non-trivial = raiser under a function/class/comprehension/macro host or the compiled AST hoists a "
        "statement (a _hy_ temporary); distinct by program text.")
FLOOR = {"quick": 500, "thorough": 5000}
BUDGET = {"quick": 32, "thorough": 480}
CASE_TIMEOUT = 20
NEEDS_EVENTS = True
ANCHORS = ["hy.compiler:Asty._get_pos", "hy.reader.hy_reader:HyReader.fill_pos",
           "hy.models:Object.replace", "hy.models:Sequence.replace", "hy.macros:macroexpand"]
ASSUMPTIONS = [
    "CPython 3.12 sets tb_lineno from the start line of the instruction that raised, and that instruction "
    "carries the position of the AST node Hy built for the raiser form or one of its sub-forms",
    "the raiser is the first thing that fails: host fillers never raise (programs that raise something else, "
    "or nothing, are outside the quantifier and are counted as skipped; more than 5% of them is inconclusive; each is tagged skip:<reason>)",
    "a form produced by a user macro's quasiquoted template has no source text of its own: its span is the "
    "macro call's (DESIGN C17)",
]
MANIFEST = {
    "text": "Generated multi-line programs with exactly one raising form, placed in every slot of ~230 host "
            "templates over the core forms, functions, classes, comprehensions (both strategies), match, "
            "f-string fields, keyword arguments and user macros (argument and template), are compiled with "
            "filename/source set and executed; the innermost traceback frame of the generated module must "
            "report a line inside the raiser's line span (reader positions, cross-checked with the generator's "
            "layout; macro call's span for template raisers). Exploration: held on the programs run.",
    "note": "Trusted: CPython 3.12.1 line attribution of instructions; the generator's layout bookkeeping "
            "(cross-checked against the reader on every case; a line ends at LF only, as for hy and CPython). Bounds: chains of <= 3 hosts, no async, no "
            "reader macros, no hy.eval of run-time-built models (docs: positions fall back to 1 there).",
    "technique": "runtime monitoring: traceback walk of the one raising form vs. its source line span",
}

HOLE = "HOLE"

_counts = {}


def _bump(k, n=1):
    _counts[k] = _counts.get(k, 0) + n


# ---------------------------------------------------------------------------
# tiny s-expression trees:  atom = str | ["seq", opener, [children]] |
# ["pre", prefix, child] | ["f", [raw-or-tree ...]] | ["mark", child]

OPENERS = {"(": ")", "[": "]", "{": "}", "#(": ")", "#{": "}"}
PREFIXES = ["#**", "#*", "#^", "~@", "~", "`", "'"]


def parse(text):
    """Parse template text (no comments) into a list of trees."""
    pos = 0
    n = len(text)

    def ws():
        nonlocal pos
        while pos < n and text[pos] in " \n\t":
            pos += 1

    def form():
        nonlocal pos
        ws()
        if text.startswith("#[", pos):            # bracket string: one atom
            d = text.index("[", pos + 2)
            closer = "]" + text[pos + 2:d] + "]"
            j = text.index(closer, d + 1) + len(closer)
            s = text[pos:j]
            pos = j
            return s
        for op in ("#(", "#{", "(", "[", "{"):
            if text.startswith(op, pos):
                pos += len(op)
                items = []
                while True:
                    ws()
                    if pos >= n:
                        raise ValueError("unclosed in template: " + text)
                    if text[pos] in ")]}":
                        if text[pos] != OPENERS[op]:
                            raise ValueError("mismatched closer in template: " + text)
                        pos += 1
                        return ["seq", op, items]
                    items.append(form())
        for p in PREFIXES:
            if text.startswith(p, pos):
                pos += len(p)
                return ["pre", p + (" " if p.startswith("#") else ""), form()]
        if text[pos] == '"':
            j = pos + 1
            while text[j] != '"':
                j += 2 if text[j] == "\\" else 1
            s = text[pos:j + 1]
            pos = j + 1
            return s
        j = pos
        while j < n and text[j] not in " \n\t()[]{}\"":
            j += 1
        if j == pos:
            raise ValueError(f"bad template at {pos}: {text}")
        if j < n and text[j] == '"' and text[pos:j].isalpha():
            # prefixed string literal (f"..." r"..." b"..."): one atom, fields included
            j += 1
            while text[j] != '"':
                j += 2 if text[j] == "\\" else 1
            j += 1
        s = text[pos:j]
        pos = j
        return s

    out = []
    ws()
    while pos < n:
        out.append(form())
        ws()
    return out


def parse1(text):
    r = parse(text)
    if len(r) != 1:
        raise ValueError("expected one form: " + text)
    return r[0]


def subst(tree, repl):
    """Replace the HOLE atom by `repl` (returns a new tree)."""
    if isinstance(tree, str):
        return repl if tree == HOLE else tree
    k = tree[0]
    if k == "seq":
        return ["seq", tree[1], [subst(c, repl) for c in tree[2]]]
    if k == "pre":
        return ["pre", tree[1], subst(tree[2], repl)]
    if k == "mark":
        return ["mark", subst(tree[1], repl)]
    if k == "f":
        return ["f", [subst(x, repl) if (_is_tree(x) or x == HOLE) else x for x in tree[1]]]
    raise ValueError(k)


def _is_tree(x):
    return isinstance(x, list)


def has_hole(tree):
    if isinstance(tree, str):
        return tree == HOLE
    k = tree[0]
    if k == "seq":
        return any(has_hole(c) for c in tree[2])
    if k in ("pre",):
        return has_hole(tree[2])
    if k == "mark":
        return has_hole(tree[1])
    if k == "f":
        return any(has_hole(x) for x in tree[1] if _is_tree(x) or x == HOLE)
    return False


def has_mark(tree):
    if isinstance(tree, str):
        return False
    k = tree[0]
    if k == "mark":
        return True
    if k == "seq":
        return any(has_mark(c) for c in tree[2])
    if k == "pre":
        return has_mark(tree[2])
    if k == "f":
        return any(has_mark(x) for x in tree[1] if _is_tree(x))
    return False


def flat(tree):
    if isinstance(tree, str):
        return tree
    k = tree[0]
    if k == "seq":
        return tree[1] + " ".join(flat(c) for c in tree[2]) + OPENERS[tree[1]]
    if k == "pre":
        return tree[1] + flat(tree[2])
    if k == "mark":
        return flat(tree[1])
    if k == "f":
        return 'f"' + "".join(flat(x) if _is_tree(x) else x for x in tree[1]) + '"'
    raise ValueError(k)


def size(tree):
    if isinstance(tree, str):
        return 1
    k = tree[0]
    if k == "seq":
        return 1 + sum(size(c) for c in tree[2])
    if k == "pre":
        return size(tree[2])
    if k == "mark":
        return size(tree[1])
    return 1 + sum(size(x) for x in tree[1] if _is_tree(x))


_COMMENTS = ["; filler", ";; (/ 1 0)", "; \" unbalanced ( [ {", ";;; ) ] }", "; undefined-name", ";",
             "; (raise (EX 1))", "; `(~x ~@y)", "; f\"{x}\"", "; #_ (foo", ";\t tab", "; λ ✈ unicode"]


_CR_COMMENTS = ["; lone\rCR ( in a comment", ";\r", "; \r\r\" ) two"]


class Layout:
    """Multi-line renderer: every element of a sequence on the path to a mark
    gets its own line; other sequences are kept on one line half of the time."""

    def __init__(self, rng, noise=0.25, spread=0.5, cr_comments=False):
        self.rng, self.noise, self.spread = rng, noise, spread
        # a lone CR is not a line break (neither for hy's reader nor for CPython): it stays in the comment
        self.comments = _COMMENTS + (_CR_COMMENTS * 3 if cr_comments else [])
        self.lines = [""]
        self.marks = []
        self.in_f = 0

    def cur(self):
        return len(self.lines)

    def emit(self, s):
        # an atom may hold line breaks (string literals): keep the line bookkeeping exact
        first, *rest = s.split("\n")
        self.lines[-1] += first
        self.lines.extend(rest)

    def newline(self, indent):
        rng = self.rng
        while rng.random() < self.noise:
            if self.in_f or rng.random() < 0.5:
                self.lines.append("")
            else:
                self.lines.append(" " * rng.choice([0, indent, indent + 3]) + rng.choice(self.comments))
        self.lines.append(" " * indent)

    def render(self, t, indent, force=False):
        rng = self.rng
        if isinstance(t, str):
            self.emit(t)
            return
        k = t[0]
        if k == "mark":
            start, scol = self.cur(), len(self.lines[-1])
            # a marked form is spread over several lines half of the time
            self.render(t[1], indent, force=rng.random() < 0.5)
            self.marks.append([start, self.cur(), scol, len(self.lines[-1])])
            return
        if k == "pre":
            self.emit(t[1])
            self.render(t[2], indent + len(t[1]), force)
            return
        if k == "f":
            self.emit('f"')
            self.in_f += 1
            spread = force or has_mark(t) or rng.random() < self.spread
            for x in t[1]:
                if _is_tree(x):
                    if spread:
                        self.newline(indent + 2)
                        self.render(x, indent + 2, force)
                        self.newline(indent)
                    else:
                        self.emit(flat(x))
                else:
                    self.emit(x)
            self.in_f -= 1
            self.emit('"')
            return
        op, items = t[1], t[2]
        spread = items and (force or has_mark(t) or (size(t) > 3 and rng.random() < self.spread))
        if not spread:
            self.emit(flat(t))
            return
        self.emit(op)
        ind = indent + 2
        first_own_line = rng.random() < 0.25
        for i, c in enumerate(items):
            if i > 0 or first_own_line:
                self.newline(ind)
            self.render(c, ind, False)
        if rng.random() < 0.3:
            self.newline(indent)
        self.emit(OPENERS[op])


# ---------------------------------------------------------------------------
# raisers: (kind, template with $N, exception type name, token template or None)

RAISERS = [
    ("div", "(/ $N 0)", "ZeroDivisionError", None),
    ("div-nested", "(+ 1 (/ $N (- 1 1)))", "ZeroDivisionError", None),
    ("name", "undefined-name-$N", "NameError", "undefined_name_$N"),
    ("namecall", "(undefined-fn-$N 1 2)", "NameError", "undefined_fn_$N"),
    ("raise", "(raise (EX $N))", "EX", "$N"),
    ("raise-from", "(raise (EX $N) :from None)", "EX", "$N"),
    ("get-dict", "(get {1 2} $N)", "KeyError", "$N"),
    ("get-list", "(get [1 2] $N)", "IndexError", None),
    ("attr", "(. V attr-$N)", "AttributeError", "attr_$N"),
    ("attr-dotted", "V.attr-$N", "AttributeError", "attr_$N"),
    ("attr-method", "(.meth-$N V 1)", "AttributeError", "meth_$N"),
    ("unpack", "(setv [ua-$N ub-$N] [$N 2 3])", "ValueError", "too many values to unpack"),
    ("unpack-let", "(let [[ua-$N ub-$N] [$N]] ua-$N)", "ValueError", "not enough values to unpack"),
    ("import", "(import nomod-$N)", "ModuleNotFoundError", "nomod_$N"),
    ("import-from", "(import math [nosuch-$N])", "ImportError", "nosuch_$N"),
    ("notcallable", "($N 1)", "TypeError", "not callable"),
    ("harness-call", "(BOOM $N)", "EX", "boom$N"),
    ("int-parse", "(int \"x$N\")", "ValueError", "x$N"),
    # forms whose failing operation is built by the compiler from new models (mkexpr / Expression /
    # synthesised constants), not compiled from a source sub-form as it stands
    ("aug-div-multi", "(/= (get LST 0) $N 0)", "ZeroDivisionError", None),
    ("aug-add-multi", "(+= (get LST 0) $N \"a\")", "TypeError", "unsupported operand"),
    ("aug-floordiv-multi", "(//= (get LST 0) $N 1 0)", "ZeroDivisionError", None),
    ("aug-sub-multi", "(-= (get LST 0) $N \"a\")", "TypeError", "unsupported operand"),
    ("aug-mul-multi", "(*= (get LST 0) $N None)", "TypeError", "unsupported operand"),
    ("aug-pow-multi", "(**= (get LST 0) 0 (- $N))", "ZeroDivisionError", None),
    ("aug-or-multi", "(|= (get LST 0) $N \"a\")", "TypeError", "unsupported operand"),
    ("aug-shift-multi", "(<<= (get LST 0) $N \"a\")", "TypeError", "unsupported operand"),
    ("aug-single", "(/= (get LST 0) (- $N $N))", "ZeroDivisionError", None),
    ("aug-mod", "(%= (get LST 0) (- $N $N))", "ZeroDivisionError", None),
    ("aug-attr-target", "(+= V.attr-$N 1 2)", "AttributeError", "attr_$N"),
    ("reciprocal", "(/ (- $N $N))", "ZeroDivisionError", None),
    ("unary-neg", "(- \"a$N\")", "TypeError", "bad operand"),
    ("sub-multi", "(- $N 1 \"a\")", "TypeError", "unsupported operand"),
    ("add-multi", "(+ $N 1 2 \"a\")", "TypeError", "unsupported operand"),
    ("pow-right-assoc", "(** 0 (- $N) 1)", "ZeroDivisionError", None),
    ("floordiv", "(// $N 1 0)", "ZeroDivisionError", None),
    ("mod", "(% $N 0)", "ZeroDivisionError", None),
    ("matmul", "(@ $N 1)", "TypeError", "unsupported operand"),
    ("compare-chain", "(< 1 $N \"a\")", "TypeError", "not supported between"),
    ("compare-chain-first", "(<= \"a\" $N 3)", "TypeError", "not supported between"),
    ("chainc", "(chainc 1 < $N <= \"a\")", "TypeError", "not supported between"),
    ("not-in", "(not-in 1 $N)", "TypeError", "not iterable"),
    ("in", "(in $N 5)", "TypeError", "not iterable"),
    ("get-multi", "(get [[1]] 0 $N)", "IndexError", None),
    ("get-multi-dict", "(get {1 {2 3}} 1 $N)", "KeyError", "$N"),
    ("dot-index", "(. LST [$N])", "IndexError", None),
    ("dot-method", "(. V (meth-$N 1))", "AttributeError", "meth_$N"),
    ("dot-chain", "(. V real imag attr-$N)", "AttributeError", "attr_$N"),
    ("dotted-chain", "V.real.attr-$N", "AttributeError", "attr_$N"),
    ("method-sugar-noargs", "(.meth-$N V)", "AttributeError", "meth_$N"),
    ("method-sugar-chain", "(.real.meth-$N V)", "AttributeError", "meth_$N"),
    ("dotted-call", "(V.meth-$N 1)", "AttributeError", "meth_$N"),
    ("cut-int", "(cut $N 1)", "TypeError", "not subscriptable"),
    ("cut-step", "(cut [1 2] 0 1 (- $N $N))", "ValueError", "slice step cannot be zero"),
    ("fstr-debug", "f\"{(/ $N 0) =}\"", "ZeroDivisionError", None),
    ("fstr-debug-spec", "f\"a{(get [1] $N) = !r:>5}b\"", "IndexError", None),
    ("fstr-bad-spec", "f\"{$N :zz}\"", "ValueError", "format code"),
    ("fstr-nested-spec-bad", "f\"{$N :{BADSPEC}}\"", "ValueError", "format code"),
    ("assert", "(assert (= 1 $N))", "AssertionError", None),
    ("assert-msg", "(assert False \"m$N\")", "AssertionError", "m$N"),
    ("raise-nonexception", "(raise $N)", "TypeError", "exceptions must derive"),
    ("for-not-iterable", "(for [x$N $N] 1)", "TypeError", "not iterable"),
    ("lfor-not-iterable", "(lfor x$N $N x$N)", "TypeError", "not iterable"),
    ("with-not-cm", "(with [$N] 1)", "TypeError", "context manager"),
    ("with-not-cm-named", "(with [w$N $N] 1)", "TypeError", "context manager"),
    ("unpack-iter-arg", "(F #* $N)", "TypeError", "after *"),
    ("unpack-map-arg", "(F #** $N)", "TypeError", "after **"),
    ("list-unpack", "[1 #* $N]", "TypeError", "must be an iterable"),
    ("setv-subscript", "(setv (get LST $N) 1)", "IndexError", None),
    ("setv-attr", "(setv V.attr-$N 1)", "AttributeError", "attr_$N"),
    ("del-subscript", "(del (get LST $N))", "IndexError", None),
    ("del-name", "(del undefined-$N)", "NameError", "undefined_$N"),
    ("setv-unpack-star", "(setv [ua-$N #* ub-$N] $N)", "TypeError", "cannot unpack"),
    ("let-unpack-nested", "(let [[ua-$N [ub-$N uc-$N]] [1 [$N]]] ua-$N)", "ValueError", "not enough values"),
    ("match-class-nonclass", "(match 1 (V :x$N 1) 2)", "TypeError", "must be a class"),
    ("pyops-call", "(hy.pyops./ $N 0)", "ZeroDivisionError", None),
    ("cond-test", "(cond (/ $N 0) 1)", "ZeroDivisionError", None),
    ("when-test", "(when (get [1] $N) 1)", "IndexError", None),
    ("and-operand", "(and 1 (get [1] $N))", "IndexError", None),
    ("if-test-only", "(if (get [1] $N) 1 2)", "IndexError", None),
    ("quasi-unquote", "`(a ~(get [1] $N))", "IndexError", None),
    ("kwarg-unknown", "((fn [] 1) :kw-$N 1)", "TypeError", "kw_$N"),
    ("import-as", "(import nomod-$N :as nm-$N)", "ModuleNotFoundError", "nomod_$N"),
    ("import-from-as", "(import math [nosuch-$N :as ns-$N])", "ImportError", "nosuch_$N"),
    ("import-dotted", "(import os.nosub-$N)", "ModuleNotFoundError", "nosub_$N"),
]
STATEMENT_RAISERS = {"raise", "raise-from", "unpack", "unpack-let", "import", "import-from",
                     "aug-div-multi", "aug-add-multi", "aug-floordiv-multi", "aug-sub-multi", "aug-mul-multi",
                     "aug-pow-multi", "aug-or-multi", "aug-shift-multi", "aug-single", "aug-mod", "aug-attr-target",
                     "assert", "assert-msg", "raise-nonexception", "for-not-iterable", "with-not-cm",
                     "with-not-cm-named", "setv-subscript", "setv-attr", "del-subscript", "del-name",
                     "setv-unpack-star", "let-unpack-nested", "match-class-nonclass", "import-as",
                     "import-from-as", "import-dotted", "cond-test", "when-test", "if-test-only"}

# ---------------------------------------------------------------------------
# hosts: (name, class tag, template) — exactly one HOLE; $1 $2 ... are replaced
# by numbers unique in the program.  Tags: core fn class comp-native comp-fn
# match fstr kwarg macro-arg macro-tmpl

H = []


def host(name, tag, template, pre=None, hole_in="host"):
    H.append({"name": name, "tag": tag, "t": template, "pre": pre, "hole_in": hole_in})


STMT = "(do (setv t$9 1) t$9)"          # a statement-producing filler

for nm, tp in [
    ("do-mid", "(do 1 HOLE 2)"), ("do-last", "(do (setv t$1 1) HOLE)"), ("do-first", "(do HOLE 1)"),
    ("if-test", "(if HOLE 1 2)"), ("if-then", "(if True HOLE 2)"), ("if-else", "(if False 1 HOLE)"),
    ("if-stmt-test-else", "(if (do (setv t$1 0) t$1) 1 HOLE)"),
    ("if-then-stmt-else", "(if True HOLE " + STMT + ")"),
    ("cond-test", "(cond False 1 HOLE 2)"), ("cond-result", "(cond False 1 True HOLE)"),
    ("cond-stmt-test", "(cond " + STMT + " HOLE True 2)"),
    ("when-body", "(when True 1 HOLE)"), ("when-test", "(when HOLE 1)"),
    ("and-mid", "(and 1 HOLE 2)"), ("or-mid", "(or 0 HOLE 2)"), ("and-first", "(and HOLE 1)"),
    ("or-after-stmt", "(or (do (setv t$1 0) t$1) HOLE)"), ("and-before-stmt", "(and 1 HOLE " + STMT + ")"),
    ("setv", "(setv x$1 HOLE)"), ("setv-second", "(setv x$1 1 y$1 HOLE)"), ("setx", "(setx x$1 HOLE)"),
    ("setv-first", "(setv x$1 HOLE y$1 2)"),
    ("augassign", "(+= (get LST 0) HOLE)"), ("setv-subscript", "(setv (get LST 0) HOLE)"),
    ("setv-subscript-index", "(setv (get LST HOLE) 1)"),
    ("setv-unpack", "(setv [a$1 b$1] HOLE)"), ("setv-attr-target", "(setv (. HOLE attr$1) 1)"),
    ("let-value", "(let [a$1 HOLE] a$1)"), ("let-body", "(let [a$1 1] HOLE)"),
    ("let-second-value", "(let [a$1 1 b$1 HOLE] 2)"), ("let-body-after-setv", "(let [a$1 1] (setv a$1 2) HOLE)"),
    ("let-nested", "(let [a$1 1] (let [a$1 2 b$1 a$1] HOLE))"),
    ("call-arg", "(F 1 HOLE 2)"), ("call-head", "(HOLE 1 2)"),
    ("call-arg-after-stmt", "(F " + STMT + " HOLE)"), ("call-arg-before-stmt", "(F HOLE " + STMT + ")"),
    ("call-unpack-iter", "(F #* HOLE)"), ("call-unpack-map", "(F #** HOLE)"),
    ("call-unpack-list", "(F #* [1 HOLE])"), ("method-call-arg", "(.append [] HOLE)"),
    ("method-call-obj", "(.append HOLE 1)"), ("method-str", "(.count \"abc\" HOLE)"),
    ("attr-call", "((. [] append) HOLE)"), ("dotted-call", "(LST.append HOLE)"),
    ("op-add", "(+ 1 HOLE 2)"), ("op-neg", "(- HOLE)"), ("op-mul-after-stmt", "(* " + STMT + " HOLE)"),
    ("op-lt-mid", "(< 1 HOLE 3)"), ("op-lt-last", "(< 0 1 HOLE)"), ("op-not", "(not HOLE)"),
    ("op-in", "(in HOLE [1])"), ("op-get-index", "(get [1 2] HOLE)"), ("op-get-obj", "(get HOLE 0)"),
    ("op-get-two", "(get [[1]] 0 HOLE)"),
    ("op-cut", "(cut [1 2] HOLE)"), ("op-cut-stop", "(cut [1 2] 0 HOLE)"), ("op-dot", "(. HOLE real)"),
    ("op-dot-index", "(. LST [HOLE])"), ("op-dot-call", "(. LST (count HOLE))"),
    ("op-is", "(is HOLE None)"), ("op-eq", "(= 1 HOLE)"), ("op-pow", "(** 2 HOLE)"), ("op-mod", "(% HOLE 2)"),
    ("list", "[1 HOLE 2]"), ("tuple", "#(1 HOLE)"), ("set", "#{1 HOLE}"), ("dict-value", "{1 HOLE}"),
    ("dict-key", "{HOLE 1}"), ("list-after-stmt", "[" + STMT + " HOLE]"), ("list-unpack", "[#* HOLE]"),
    ("dict-unpack", "{#** HOLE}"), ("list-nested", "[[1 [HOLE]]]"),
    ("while-test", "(while HOLE (break))"), ("while-body", "(while (TICK) HOLE (break))"),
    ("while-body-last", "(while (TICK) 1 HOLE)"), ("while-else", "(while False 1 (else HOLE))"),
    ("while-stmt-test", "(while (do (setv t$1 (TICK)) t$1) HOLE)"),
    ("for-iter", "(for [i$1 HOLE] 1)"), ("for-body", "(for [i$1 [1 2]] 1 HOLE)"),
    ("for-else", "(for [i$1 []] 1 (else HOLE))"), ("for-second-iter", "(for [i$1 [1] j$1 HOLE] 1)"),
    ("for-if", "(for [i$1 [1] :if HOLE] 1)"), ("for-setv", "(for [i$1 [1] :setv j$1 HOLE] 1)"),
    ("for-do", "(for [i$1 [1] :do HOLE] 1)"), ("for-body-after-if", "(for [i$1 [1] :if True] HOLE)"),
    ("with-cm", "(with [c$1 HOLE] 1)"), ("with-body", "(with [c$1 (CM)] 1 HOLE)"),
    ("with-anon", "(with [(CM)] HOLE)"), ("with-second-cm", "(with [c$1 (CM) d$1 HOLE] 1)"),
    ("with-body-after-setv", "(with [c$1 (CM)] (setv t$1 1) HOLE)"), ("with-value", "(setv x$1 (with [(CM)] HOLE))"),
    ("try-body-unmatched", "(try HOLE (except [EOther] 1))"), ("try-body-finally", "(try HOLE (finally 1))"),
    ("try-handler", "(try (raise (EOther)) (except [EOther] HOLE))"),
    ("try-handler-named", "(try (raise (EOther)) (except [e$1 EOther] 1 HOLE))"),
    ("try-else", "(try 1 (except [EOther] 2) (else HOLE))"), ("try-finally", "(try 1 (finally HOLE))"),
    ("try-except-type", "(try (raise (EOther)) (except [e$1 HOLE] 2))"),
    ("try-value", "(setv x$1 (try HOLE (except [EOther] 1)))"),
    ("try-body-second", "(try (setv t$1 1) HOLE (except [EOther] 1) (finally 2))"),
    ("raise-arg", "(raise HOLE)"), ("raise-from-arg", "(raise (EOther) :from HOLE)"),
    ("assert-test", "(assert HOLE)"), ("assert-msg", "(assert False HOLE)"),
    ("del-sub", "(del (get HOLE 0))"),
    ("quasiquote-unquote", "`(a ~HOLE b)"), ("quasiquote-splice", "`(a ~@HOLE)"),
    ("quasiquote-nested", "`[a {b ~HOLE}]"),
    ("chained", "(.append (get [[]] 0) (+ 1 HOLE))"),
    ("print-arg", "(IDENT (IDENT HOLE))"),
    ("lambda-iife-arg", "((fn [a$1] a$1) HOLE)"),
]:
    host(nm, "core", tp)

for nm, tp in [
    ("fn-body", "((fn [] HOLE))"), ("fn-body-last", "((fn [a$1] 1 HOLE) 5)"),
    ("fn-default", "((fn [[a$1 HOLE]] a$1))"), ("fn-body-stmt", "((fn [] (setv t$1 1) HOLE t$1))"),
    ("fn-return", "((fn [] (return HOLE)))"), ("fn-yield", "(list ((fn [] (yield HOLE))))"),
    ("fn-after-yield", "(list ((fn [] (yield 1) HOLE)))"), ("fn-yield-from", "(list ((fn [] (yield :from HOLE))))"),
    ("fn-kwonly-default", "((fn [* [k$1 HOLE]] k$1))"),
    ("defn-body", "(do (defn f$1 [] HOLE) (f$1))"),
    ("defn-body-mid", "(do (defn f$1 [a$1] (setv b$1 a$1) HOLE b$1) (f$1 3))"),
    ("defn-docstring-body", "(do (defn f$1 [] \"doc\" HOLE) (f$1))"),
    ("defn-default", "(defn f$1 [[a$1 HOLE]] a$1)"), ("defn-kwonly-default", "(defn f$1 [a$1 * [k$1 HOLE]] 1)"),
    ("defn-second-default", "(defn f$1 [[a$1 1] [b$1 HOLE]] a$1)"),
    ("defn-decorator", "(defn [HOLE] f$1 [] 1)"), ("defn-decorator-call", "(defn [(DECO HOLE)] f$1 [] 1)"),
    ("defn-second-decorator", "(defn [IDENT HOLE] f$1 [] 1)"),
    ("defn-return-annotation", "(defn #^ HOLE f$1 [] 1)"), ("defn-param-annotation", "(defn f$1 [#^ HOLE a$1] 1)"),
    ("defn-return", "(do (defn f$1 [] (return HOLE)) (f$1))"),
    ("defn-nested", "(do (defn f$1 [] (defn g$1 [] HOLE) (g$1)) (f$1))"),
    ("defn-varargs", "(do (defn f$1 [#* a$1] HOLE) (f$1 1 2))"),
    ("defn-call-arg", "(do (defn f$1 [a$1] a$1) (f$1 HOLE))"),
    ("defn-call-kwarg", "(do (defn f$1 [a$1 [b$1 2]] a$1) (f$1 1 :b$1 HOLE))"),
    ("defn-if-in-body", "(do (defn f$1 [a$1] (if a$1 (do (setv t$1 1) HOLE) 2)) (f$1 1))"),
    ("defn-value", "(do (setv g$1 (defn f$1 [] HOLE)) (f$1))"),
    ("defn-generator", "(do (defn f$1 [] (yield 1) HOLE) (list (f$1)))"),
    ("defn-closure", "(do (defn f$1 [a$1] (fn [] HOLE)) ((f$1 1)))"),
]:
    host(nm, "fn", tp)

for nm, tp in [
    ("class-attr", "(defclass C$1 [] (setv a$1 HOLE))"), ("class-body", "(defclass C$1 [] HOLE)"),
    ("class-base", "(defclass C$1 [HOLE])"), ("class-body-last", "(defclass C$1 [object] \"doc\" (setv a$1 1) HOLE)"),
    ("class-method", "(do (defclass C$1 [] (defn m$1 [self] HOLE)) (.m$1 (C$1)))"),
    ("class-decorator", "(defclass [HOLE] C$1 [])"), ("class-metaclass", "(defclass C$1 [:metaclass HOLE])"),
    ("class-init", "(do (defclass C$1 [] (defn __init__ [self] (setv self.a$1 1) HOLE)) (C$1))"),
    ("class-property", "(do (defclass C$1 [] (defn [property] p$1 [self] HOLE)) (. (C$1) p$1))"),
    ("class-method-default", "(defclass C$1 [] (defn m$1 [self [a$1 HOLE]] 1))"),
    ("class-second-base", "(defclass C$1 [object HOLE])"),
    ("class-nested", "(defclass C$1 [] (defclass D$1 [] (setv a$1 HOLE)))"),
]:
    host(nm, "class", tp)

for nm, tp in [
    ("lfor-iter", "(lfor x$1 HOLE x$1)"), ("lfor-elt", "(lfor x$1 [1 2] HOLE)"),
    ("lfor-if", "(lfor x$1 [1 2] :if HOLE x$1)"), ("lfor-second-iter", "(lfor x$1 [1] y$1 HOLE y$1)"),
    ("lfor-setv", "(lfor x$1 [1] :setv y$1 HOLE y$1)"), ("sfor-elt", "(sfor x$1 [1] HOLE)"),
    ("dfor-key", "(dfor x$1 [1] HOLE 1)"), ("dfor-value", "(dfor x$1 [1] 1 HOLE)"),
    ("gfor-elt", "(list (gfor x$1 [1] HOLE))"), ("gfor-iter", "(list (gfor x$1 HOLE x$1))"),
    ("gfor-if", "(list (gfor x$1 [1] :if HOLE x$1))"),
    ("lfor-nested-elt", "(lfor x$1 [1] (lfor y$1 [2] HOLE))"), ("lfor-elt-call", "(lfor x$1 [1] (F x$1 HOLE))"),
    ("lfor-unpack-target", "(lfor [x$1 y$1] [[1 2]] HOLE)"),
]:
    host(nm, "comp-native", tp)

for nm, tp in [
    ("lfor-do-elt", "(lfor x$1 [1 2] :do (setv z$1 x$1) HOLE)"), ("lfor-do", "(lfor x$1 [1] :do HOLE x$1)"),
    ("lfor-stmt-elt", "(lfor x$1 [1] (do (setv z$1 1) HOLE))"),
    ("lfor-do-if", "(lfor x$1 [1] :do (setv z$1 1) :if HOLE x$1)"),
    ("lfor-do-second-iter", "(lfor x$1 [1] :do (setv z$1 1) y$1 HOLE y$1)"),
    ("lfor-do-setv", "(lfor x$1 [1] :do (setv z$1 1) :setv y$1 HOLE y$1)"),
    ("dfor-do-key", "(dfor x$1 [1] :do (setv z$1 1) HOLE 2)"), ("dfor-do-value", "(dfor x$1 [1] :do (setv z$1 1) 2 HOLE)"),
    ("gfor-do-elt", "(list (gfor x$1 [1] :do (setv z$1 1) HOLE))"), ("sfor-do-elt", "(sfor x$1 [1] :do (setv z$1 1) HOLE)"),
    ("lfor-iter-do", "(lfor x$1 HOLE :do (setv z$1 1) x$1)"),
    ("lfor-stmt-if", "(lfor x$1 [1] :if (do (setv z$1 1) HOLE) x$1)"),
    ("lfor-nested-do", "(lfor x$1 [1] (lfor y$1 [2] :do (setv z$1 1) HOLE))"),
    ("lfor-try-elt", "(lfor x$1 [1] (try HOLE (finally 1)))"),
]:
    host(nm, "comp-fn", tp)

for nm, tp in [
    ("match-subject", "(match HOLE 1 2 _ 3)"), ("match-body", "(match 1 1 HOLE _ 3)"),
    ("match-later-body", "(match 2 1 0 _ HOLE)"), ("match-guard", "(match 1 x$1 :if HOLE 2 _ 3)"),
    ("match-seq-body", "(match [1 2] [a$1 b$1] HOLE)"), ("match-body-stmt", "(match 1 1 (do (setv t$1 1) HOLE))"),
    ("match-value", "(setv r$1 (match 1 1 HOLE))"), ("match-map-body", "(match {\"a\" 1} {\"a\" v$1} HOLE)"),
    ("match-stmt-subject", "(match (do (setv t$1 1) t$1) 1 HOLE)"),
    ("match-class-body", "(match (PT 1 2) (PT :x 1) HOLE)"),
    ("match-second-guard", "(match 1 x$1 :if False 2 y$1 :if HOLE 3)"),
    ("match-or-body", "(match 2 (| 1 2) HOLE)"), ("match-as-body", "(match 1 1 :as w$1 HOLE)"),
]:
    host(nm, "match", tp)

for nm, items in [
    ("fstr-field", ["a{", HOLE, "}b"]), ("fstr-second-field", ["{1}{", HOLE, "}"]),
    ("fstr-conversion", ["{", HOLE, " !r}"]), ("fstr-spec", ["{", HOLE, " :>5}"]),
    ("fstr-nested-spec", ["{1 :{", HOLE, "}}"]), ("fstr-after-stmt-field", ["{(do (setv t$1 1) t$1)}{", HOLE, "}"]),
    ("fstr-before-stmt-field", ["{", HOLE, "}{(do (setv t$1 1) t$1)}"]),
    ("fstr-debug-second", ["{V =}{", HOLE, "}"]),
]:
    H.append({"name": nm, "tag": "fstr", "t": None, "f": items, "pre": None, "hole_in": "host"})
host("fstr-in-call", "fstr", None)
H[-1]["f"] = ["x{", ["seq", "(", ["F", "1", HOLE]], "}"]

for nm, tp in [
    ("kwarg", "(F :kw$1 HOLE)"), ("kwarg-second", "(F 1 :kw$1 2 :kx$1 HOLE)"),
    ("kwarg-after-stmt", "(F :kw$1 " + STMT + " :kx$1 HOLE)"), ("kwarg-before-pos", "(F :kw$1 HOLE 1)"),
    ("kwarg-method", "(.format \"{a}\" :a HOLE)"), ("kwarg-class", "(do (defclass C$1 []) (C$1 :a$1 HOLE))"),
    ("kwarg-stmt-value", "(F :kw$1 (do (setv t$1 1) HOLE))"),
]:
    host(nm, "kwarg", tp)

for nm, pre, tp in [
    ("macro-arg-do", "(defmacro m$1 [a$1] `(do (setv q$1 1) ~a$1))", "(m$1 HOLE)"),
    ("macro-arg-if-then", "(defmacro m$1 [a$1 b$1] `(if ~a$1 ~b$1 0))", "(m$1 True HOLE)"),
    ("macro-arg-if-test", "(defmacro m$1 [a$1 b$1] `(if ~a$1 ~b$1 0))", "(m$1 HOLE 1)"),
    ("macro-arg-splice-fn", "(defmacro m$1 [#* body$1] `((fn [] ~@body$1)))", "(m$1 1 HOLE)"),
    ("macro-arg-list", "(defmacro m$1 [a$1] `[1 ~a$1 (do (setv q$1 1) q$1)])", "(m$1 HOLE)"),
    ("macro-arg-identity", "(defmacro m$1 [a$1] a$1)", "(m$1 HOLE)"),
    ("macro-arg-rebuilt", "(defmacro m$1 [a$1] (hy.models.Expression [(hy.models.Symbol \"do\") 1 a$1]))", "(m$1 HOLE)"),
    ("macro-arg-two-level", "(defmacro m$1 [a$1] `(do 1 ~a$1)) (defmacro n$1 [a$1] `(m$1 (IDENT ~a$1)))", "(n$1 HOLE)"),
    ("macro-arg-nested-form", "(defmacro m$1 [a$1] `(do ~a$1))", "(m$1 (if True (do (setv t$1 1) HOLE) 2))"),
    ("macro-arg-defn", "(defmacro m$1 [nm$1 a$1] `(do (defn ~nm$1 [] ~a$1) (~nm$1)))", "(m$1 f$1 HOLE)"),
    ("macro-arg-lfor", "(defmacro m$1 [a$1] `(lfor x$1 [1] :do (setv z$1 1) ~a$1))", "(m$1 HOLE)"),
    ("macro-arg-kwarg", "(defmacro m$1 [a$1] `(F :kw$1 ~a$1))", "(m$1 HOLE)"),
    ("macro-arg-fstr", "(defmacro m$1 [a$1] `(+ \"a\" (str ~a$1)))", "(m$1 HOLE)"),
    ("macro-arg-second-of-three", "(defmacro m$1 [a$1 b$1 c$1] `(do ~a$1 ~b$1 ~c$1))", "(m$1 1 HOLE 3)"),
    ("macro-arg-core-when", None, "(when True (when True HOLE))"),
    ("macro-arg-core-cond-nested", None, "(cond False 0 True (cond True HOLE))"),
]:
    host(nm, "macro-arg", tp, pre=pre)

for nm, pre, tp in [
    ("macro-tmpl-do", "(defmacro m$1 [a$1] `(do ~a$1 HOLE))", "(m$1 1)"),
    ("macro-tmpl-if", "(defmacro m$1 [] `(if True (do (setv q$1 1) HOLE) 0))", "(m$1)"),
    ("macro-tmpl-fn", "(defmacro m$1 [] `((fn [] HOLE)))", "(m$1)"),
    ("macro-tmpl-args", "(defmacro m$1 [a$1 b$1] `(F ~a$1 HOLE ~b$1))", "(m$1 1 2)"),
    ("macro-tmpl-bare", "(defmacro m$1 [] 'HOLE)", "(m$1)"),
    ("macro-tmpl-lfor", "(defmacro m$1 [a$1] `(lfor x$1 ~a$1 :do (setv z$1 1) HOLE))", "(m$1 [1 2])"),
    ("macro-tmpl-two-level", "(defmacro m$1 [] `(do 1 HOLE)) (defmacro n$1 [a$1] `(IDENT ~a$1))", "(n$1 (m$1))"),
    ("macro-tmpl-setv", "(defmacro m$1 [nm$1] `(setv ~nm$1 HOLE))", "(m$1 x$1)"),
    ("macro-tmpl-defn", "(defmacro m$1 [nm$1] `(do (defn ~nm$1 [] HOLE) (~nm$1)))", "(m$1 f$1)"),
    ("macro-tmpl-kwarg", "(defmacro m$1 [] `(F :kw$1 HOLE))", "(m$1)"),
]:
    host(nm, "macro-tmpl", tp, pre=pre, hole_in="pre")

HOST_BY_NAME = {h["name"]: h for h in H}
# Slots where Hy does not accept (or does not keep) a statement-producing form: assignment and
# deletion targets are rejected with a syntax error ("Can't assign or delete a non-expression") and a
# return annotation keeps only the expression part of its form (the statements are dropped - another
# property's subject).  Statement raisers and statement-producing inner hosts are not placed there.
EXPR_ONLY = {"del-sub", "setv-attr-target", "setv-subscript-index", "defn-return-annotation"}
NONTRIVIAL_TAGS = {"fn", "class", "comp-native", "comp-fn", "macro-arg", "macro-tmpl"}


def _numbered(text, nums):
    """Replace $k by numbers unique to this instantiation."""
    def rep(m):
        k = m.group(1)
        if k not in nums["local"]:
            nums["local"][k] = next(nums["ctr"])
        return str(nums["local"][k])
    return re.sub(r"\$(\d+)", rep, text)


def _numbered_tree(t, nums):
    if isinstance(t, str):
        return _numbered(t, nums)
    if t[0] == "seq":
        return ["seq", t[1], [_numbered_tree(c, nums) for c in t[2]]]
    if t[0] == "pre":
        return ["pre", t[1], _numbered_tree(t[2], nums)]
    if t[0] == "f":
        return ["f", [_numbered_tree(x, nums) for x in t[1]]]
    return t


def instantiate(h, nums):
    """-> (host tree with HOLE, list of preamble trees with or without HOLE)"""
    nums["local"] = {}
    if h.get("f") is not None:
        items = []
        for x in h["f"]:
            if isinstance(x, str) and x != HOLE:
                # raw text of an f-string may hold whole forms: number them too
                items.append(_numbered(x, nums))
            else:
                items.append(_numbered_tree(x, nums))
        tree = ["f", items]
    else:
        tree = parse1(_numbered(h["t"], nums))
    pre = parse(_numbered(h["pre"], nums)) if h["pre"] else []
    return tree, pre


EOLS = ["lf", "crlf", "mixed"]


def build_program(rng, chain, raiser, mode, noise, eol="lf", shebang=False):
    """chain: host names outermost first.  eol: how lines end - "lf", "crlf" or "mixed" (each line
    LF or CRLF at random; comments and a filler string then also hold lone CRs).  Only "\n" ends
    a line (hy's and CPython's rule), so the layout's line numbers do not depend on the variant.
    Returns the rendered case dict."""
    base = rng.randrange(1000, 9000)
    nums = {"ctr": itertools.count(base * 10), "local": {}}
    n = next(nums["ctr"])
    rk, rt, rexc, rtok = raiser
    rtext = rt.replace("$N", str(n))
    rtree = parse1(rtext)
    token = rtok.replace("$N", str(n)) if rtok else None

    cur = ["mark", rtree]           # the form whose span counts
    span_flat = rtext
    preambles = []
    in_template = False
    tags = []
    for name in reversed(chain):
        h = HOST_BY_NAME[name]
        tree, pre = instantiate(h, nums)
        tags.append(h["tag"])
        if h["hole_in"] == "pre":
            # the chain built so far lives in the macro's template; the call is the span form
            inner = _unmark(cur)
            pre = [subst(p, inner) if has_hole(p) else p for p in pre]
            preambles = pre + preambles
            cur = ["mark", tree]
            span_flat = flat(tree)
            in_template = True
        else:
            preambles = pre + preambles
            cur = subst(tree, cur)
    main = cur
    tops = []
    for p in preambles:
        tops.append(p)
    filler_n = next(nums["ctr"])
    tops.append(parse1(f"(setv filler{filler_n} [1 2 3])"))
    if eol == "mixed":
        tops.append(f'(setv sfiller{filler_n} "lone\rCR and CR\r\rCR")')
    if mode == "fn":
        tops.append(["seq", "(", ["defn", f"main{filler_n}", ["seq", "[", []], main]])
        tops.append(parse1(f"(main{filler_n})"))
    else:
        tops.append(main)
    tops.append(parse1(f"(setv never-reached{filler_n} 1)"))

    lay = Layout(rng, noise=noise, cr_comments=(eol == "mixed"))
    if rng.random() < 0.5:
        lay.emit(rng.choice(lay.comments))
        lay.newline(0)
    for i, t in enumerate(tops):
        if i:
            lay.newline(0)
        lay.render(t, 0)
    if eol == "lf":
        text = "\n".join(lay.lines) + "\n"
    elif eol == "crlf":
        text = "\r\n".join(lay.lines) + "\r\n"
    else:
        text = "".join(ln + rng.choice(["\n", "\r\n"]) for ln in lay.lines)
    if len(lay.marks) != 1:
        raise AssertionError(f"expected one marked form, got {lay.marks} for chain {chain}")
    if shebang:
        # a file may start with a shebang line, which the reader discards (skip_shebang, as the
        # importer and `hy FILE` read): it is still line 1 of the file
        sb = rng.choice(["#!/usr/bin/env hy", "#!/usr/bin/hy", "#!", "#! hy ; (not code"])
        text = sb + ("\r\n" if eol == "crlf" else "\n") + text
        m0 = lay.marks[0]
        lay.marks[0] = [m0[0] + 1, m0[1] + 1] + list(m0[2:])
    return {"text": text, "shebang": bool(shebang), "span": lay.marks[0][:2], "span_cols": lay.marks[0][2:], "span_flat": span_flat, "exc": rexc, "token": token,
            "raiser": rk, "chain": list(chain), "mode": mode, "template": in_template, "tags": tags, "eol": eol}


def _unmark(t):
    if isinstance(t, str):
        return t
    if t[0] == "mark":
        return _unmark(t[1])
    if t[0] == "seq":
        return ["seq", t[1], [_unmark(c) for c in t[2]]]
    if t[0] == "pre":
        return ["pre", t[1], _unmark(t[2])]
    if t[0] == "f":
        return ["f", [_unmark(x) if _is_tree(x) else x for x in t[1]]]
    return t


def _chain_ok(chain, raiser_kind=None):
    """Inside a macro template only template-free hosts may appear; at most one template host;
    statement raisers stay out of the EXPR_ONLY slots (innermost host)."""
    if raiser_kind in STATEMENT_RAISERS and chain[-1] in EXPR_ONLY:
        return False
    if any(name in EXPR_ONLY for name in chain[:-1]):
        return False            # an inner host may itself produce statements
    seen_tmpl = False
    for name in chain:          # outermost first
        h = HOST_BY_NAME[name]
        if seen_tmpl and h["pre"]:
            return False
        if h["hole_in"] == "pre":
            if seen_tmpl:
                return False
            seen_tmpl = True
    return True


def cases(seed, tier, shard, nshards):
    names = [h["name"] for h in H]
    # part 1: every host x every raiser at depth 1, in an order shuffled per seed (the quick budget
    # covers part of the product; the thorough one all of it), interleaved with
    # part 2: sampled chains of 1-3 hosts
    pairs = [(hi, ri) for hi in range(len(names)) for ri in range(len(RAISERS))]
    rng_for(seed, ID, "enum-order").shuffle(pairs)
    pairs = [p for k, p in enumerate(pairs) if k % nshards == shard]
    pi = 0
    i = 0
    while True:
        if pi < len(pairs) and i % 2 == 0:
            hi, ri = pairs[pi]
            pi += 1
            i += 1
            if not _chain_ok([names[hi]], RAISERS[ri][0]):
                continue
            rng = rng_for(seed, ID, "enum", hi * 1000 + ri)
            mode = "module" if (hi + ri) % 2 else "fn"
            yield build_program(rng, [names[hi]], RAISERS[ri], mode, noise=0.25, eol=EOLS[(hi + 2 * ri) % 3],
                                shebang=(hi + 3 * ri) % 6 == 0)
            continue
        rng = rng_for(seed, ID, shard, i)
        i += 1
        depth = rng.choice([1, 2, 2, 3, 3])
        chain = [rng.choice(names) for _ in range(depth)]
        raiser = rng.choice(RAISERS)
        if not _chain_ok(chain, raiser[0]):
            continue
        mode = rng.choice(["module", "fn"])
        yield build_program(rng, chain, raiser, mode, noise=rng.choice([0.0, 0.2, 0.4]),
                            eol=rng.choice(["lf", "lf", "crlf", "mixed"]), shebang=rng.random() < 0.15)


# ---------------------------------------------------------------------------
# harness objects visible to the generated programs

class EX(Exception):
    pass


class EOther(Exception):
    pass


class CM:
    def __enter__(self):
        return self

    def __exit__(self, *a):
        return False


class PT:
    __match_args__ = ("x", "y")

    def __init__(self, x, y):
        self.x, self.y = x, y


def _env():
    def BOOM(n):
        raise EX(f"boom{n}")

    ticks = [0]

    def TICK():
        # loop guard: true twice, then false (no generated program can loop for ever)
        ticks[0] += 1
        return ticks[0] <= 2

    return {"TICK": TICK, "F": lambda *a, **k: 1, "IDENT": lambda x: x, "DECO": lambda x: (lambda f: f), "CM": CM,
            "EX": EX, "EOther": EOther, "BOOM": BOOM, "V": 1, "LST": [0], "PT": PT, "BADSPEC": "zz"}


_serial = itertools.count()


def _walk_models(m):
    import hy.models as M
    yield m
    if isinstance(m, M.Sequence):
        for c in m:
            yield from _walk_models(c)


def _find_span(forms, target):
    found = []
    for f in forms:
        for m in _walk_models(f):
            if type(m) is type(target) and m == target:
                found.append(m)
    return found


def _hoisted(tree):
    import ast
    for node in ast.walk(tree):
        if isinstance(node, ast.Name) and node.id.startswith("_hy_"):
            return True
        if isinstance(node, ast.FunctionDef) and node.name.startswith("_hy_"):
            return True
    return False


def observe(text, fn, shebang=False):
    """Compile + run.  -> dict(phase, exc, frames=[(lineno, funcname)] of module frames, hoisted)"""
    import hy  # noqa: F401
    from hy.compiler import hy_compile
    from hy.reader import read_many
    name = "hvc17_mod_%d" % next(_serial)
    m = types.ModuleType(name)
    m.__file__ = fn
    m.__dict__.update(_env())
    sys.modules[name] = m
    out = {"phase": None, "exc": None, "frames": [], "hoisted": False, "nframes": 0}
    try:
        try:
            tree = hy_compile(read_many(text, filename=fn, skip_shebang=shebang), m, filename=fn, source=text)
            out["hoisted"] = _hoisted(tree)
            code = compile(tree, fn, "exec", optimize=0)    # keep `assert` whatever PYTHONOPTIMIZE says
        except BaseException as e:
            if type(e).__name__ == "CaseTimeout":
                raise
            out.update(phase="compile", exc=e)
            return out
        try:
            exec(code, m.__dict__)
        except BaseException as e:
            if type(e).__name__ == "CaseTimeout":
                raise
            out.update(phase="run", exc=e)
            tb = e.__traceback__
            while tb is not None:
                out["nframes"] += 1
                if tb.tb_frame.f_code.co_filename == fn:
                    out["frames"].append((tb.tb_lineno, tb.tb_frame.f_code.co_name))
                tb = tb.tb_next
            return out
        return out
    finally:
        sys.modules.pop(name, None)


def run_case(case):
    import warnings
    with warnings.catch_warnings():
        # an inherited -W error / PYTHONWARNINGS must not turn CPython's SyntaxWarnings
        # ("'int' object is not callable") into compile errors
        warnings.simplefilter("ignore")
        return _run_case(case)


def _run_case(case):
    import hy
    from hy.reader import read_many
    text = case["text"]
    fn = "<hvc17-%d>" % next(_serial)
    classes = ["raiser:" + case["raiser"], "mode:" + case["mode"], "depth:%d" % len(case["chain"]),
               "eol:" + case.get("eol", "lf")] + (["shebang"] if case.get("shebang") else [])
    classes += ["host:" + h for h in case["chain"]] + ["tag:" + t for t in sorted(set(case["tags"]))]
    if case["template"]:
        classes.append("span:macro-call")
    res = {"ok": True, "nontrivial": False, "classes": classes, "events": 0}

    # The span: the generator's layout recorded where the form starts and ends; that region is cut
    # out of the text and read on its own - it must be the form (this validates the layout without
    # relying on reader positions).  The positions the reader reports for the form inside the whole
    # program are the cross-check: a disagreement is recorded (C21's subject) but the source span
    # is what the statement is about.
    try:
        forms = list(read_many(text, filename=fn, skip_shebang=bool(case.get("shebang"))))
        target = hy.read(case["span_flat"])
        lines = text.split("\n")
        s0, e0 = case["span"]
        c0, c1 = case["span_cols"]
        region = lines[s0 - 1:e0]
        region[-1] = region[-1][:c1]
        region[0] = region[0][c0:]
        region_ok = list(read_many("\n".join(region))) == [target]
    except Exception as e:
        _bump("skip:unreadable")
        res.update(ok=None, classes=classes + ["skip:unreadable"])
        res["why"] = f"generated text unreadable: {e!r}"
        return res
    if not region_ok:
        _bump("skip:layout-unvalidated")
        res.update(ok=None, classes=classes + ["skip:layout-unvalidated"])
        return res
    span = list(case["span"])
    found = _find_span(forms, target)
    rspan = [found[0].start_line, found[0].end_line] if len(found) == 1 else None
    if rspan != span:
        _bump("reader-span-differs")
        classes.append("reader-span-differs")
    else:
        _bump("reader-span-agrees")
    if span[1] > span[0]:
        classes.append("raiser-multiline")

    ob = observe(text, fn, bool(case.get("shebang")))
    exc = ob["exc"]
    if ob["phase"] != "run":
        k = "skip:compile-error" if ob["phase"] == "compile" else "skip:no-exception"
        _bump(k)
        _bump(k + ":" + "+".join(case["chain"]) + "/" + case["raiser"])
        res.update(ok=None, classes=classes + [k] + ([k + ":" + type(exc).__name__] if exc is not None else []))
        res["why"] = f"{k}: {exc!r}"
        return res
    tname = type(exc).__name__
    if tname == "UnboundLocalError" and case["exc"] == "NameError":
        tname = "NameError"         # the same failure inside a function (a subclass of NameError)
    if tname != case["exc"] or (case["token"] and case["token"] not in str(exc)):
        _bump("skip:other-exception")
        _bump("skip:other-exception:" + "+".join(case["chain"]) + "/" + case["raiser"])
        res.update(ok=None, classes=classes + ["skip:other-exception", "skip:other-exception:" + tname])
        res["why"] = f"expected {case['exc']}({case['token']}), got {tname}: {exc}"
        return res
    res["events"] = ob["nframes"]
    _bump("tracebacks")
    if not ob["frames"]:
        res.update(ok=False, why=f"no traceback frame has the generated module's filename ({tname})")
        return res
    line, func = ob["frames"][-1]
    res["nontrivial"] = bool(ob["hoisted"] or (set(case["tags"]) & NONTRIVIAL_TAGS))
    if ob["hoisted"]:
        classes.append("hoisted-statement")
    if len(ob["frames"]) > 1:
        classes.append("nested-module-frames")
    res["sample"] = {"text": text, "span": span, "reported_line": line, "raiser": case["raiser"],
                     "chain": case["chain"]}
    if not (span[0] <= line <= span[1]):
        lines = text.split("\n")
        shown = lines[line - 1].strip() if 0 < line <= len(lines) else "<no such line>"
        res.update(ok=False,
                   why=(f"innermost module frame ({func}) reports line {line} ({shown!r}) but the "
                        f"{'macro call' if case['template'] else 'raiser'} {case['span_flat']!r} spans lines "
                        f"{span[0]}-{span[1]}; chain {case['chain']} raiser {case['raiser']} mode {case['mode']}"))
    return res


def case_key(case):
    return case["text"]


def finish_worker():
    return {"c17": dict(_counts)}


def gate(tot, classes, extra, tier):
    c = extra.get("c17", {})
    seen = c.get("tracebacks", 0)
    skipped = sum(v for k, v in c.items() if k.startswith("skip:") and k.count(":") == 1)
    if c.get("skip:layout-unvalidated"):
        return f"layout-span-not-validated-on-{c['skip:layout-unvalidated']}-programs"
    if seen and skipped > 0.05 * (seen + skipped):
        return f"premise-failed-on-{skipped}-of-{seen + skipped}-programs"
    for need in ("tag:comp-native", "tag:comp-fn", "tag:macro-arg", "tag:macro-tmpl", "tag:fstr", "tag:match",
                 "tag:kwarg", "tag:class", "tag:fn", "tag:core", "raiser-multiline", "eol:lf", "eol:crlf",
                 "eol:mixed", "shebang"):
        if not classes.get(need):
            return f"no-{need}-case-observed"
    return None
