"""C21 — reader positions delimit each form's text.

Observation: start_line/start_column/end_line/end_column of every model the
tree's reader returns.  Oracle, walking the model tree:

  * node with source text of its own (everything try_parse_one_form produced,
    incl. the form inside an f-string field): the inclusive region is cut out
    of the source, read again, and must give exactly one form deep-equal to
    the node;
  * every node: its region lies inside its parent's;
  * siblings: start positions non-decreasing.

Carve-outs (DESIGN C21): nodes the reader synthesises without text of their
own — sugar heads, the `.`/`None`/part symbols of a dotted identifier, the
f-string debug-`=` text — and the parts of an f-string (String / FComponent
children: not forms) get containment and order only; `#^ T x` is exempt from
the order check.  For generated texts the own-text flags come from the syntax
IR and are cross-checked against the structural classification used for the
repository corpus.
"""
from hv.common import rng_for, same_model
from hv import syntax_ir as S

ID = "C21"
LEVEL = "exploration"
RULE = ("multi-line texts from the syntax IR (all form kinds, sugar with whitespace, strings with embedded "
        "LF/CR/CRLF, bracket strings, f-strings with several literal parts and nested specs, indentation, "
        "comments, tabs, FF/VT) and top-level forms of the repository's .hy files; every model node is "
        "checked (region read-back for nodes with own text, containment, sibling order). One evaluation = "
        "one text. Non-trivial = text spanning >= 2 lines with a node at depth >= 2; distinct by text.")
FLOOR = {"quick": 2000, "thorough": 2000}
BUDGET = {"quick": 25, "thorough": 480}
CASE_TIMEOUT = 30
NEEDS_EVENTS = True
ANCHORS = ["hy.reader.reader:Reader.getc", "hy.reader.hy_reader:HyReader.fill_pos",
           "hy.reader.hy_reader:HyReader.read_fcomponents_until",
           "hy.reader.hy_reader:HyReader.read_fcomponent", "hy.models:Sequence.replace"]
ASSUMPTIONS = [
    "lines end at LF only (the reader's own convention); a column counts characters",
    "sugar heads, dotted-identifier parts, f-string debug text and f-string parts have no source text of "
    "their own: containment and order only; '#^' forms are exempt from the order check",
    "positions are not required to be the tightest region, only one that reads back equal (tightness is "
    "counted in the evidence as span_exact / span_not_exact)",
]
MANIFEST = {
    "text": "Each generated multi-line text and each top-level form of the repository's .hy files is read; "
            "for every model with source text of its own the reported inclusive region is cut out, read "
            "again and compared (deep typed equality); every node's region must lie inside its parent's and "
            "siblings' start positions must be in source order. Held on the texts read, no more.",
    "note": "Trusted: hv/syntax_ir.py own-text flags (cross-checked against a structural classification). "
            "Bounds: nesting <= 5, texts <= ~500 characters generated, <= 1500 (quick) / 8000 corpus.",
    "technique": "runtime monitoring: region read-back, containment and order checks on reported positions",
}
ATTRS = ("brackets", "conversion", "is_tstring")
SUGAR_PREFIXES = ("'", "`", "~", "#*", "#^")

_counts = {}


def _bump(k, n=1):
    _counts[k] = _counts.get(k, 0) + n


_CFGS = [dict(size=10, depth=4), dict(size=18, depth=5), dict(size=26, depth=5),
         dict(size=14, depth=4, fstring=3.0), dict(size=8, depth=3, fstring=2.0)]


def cases(seed, tier, shard, nshards):
    corpus = [c for i, c in enumerate(S.load_corpus(max_len=1500 if tier == "quick" else 8000))
              if i % nshards == shard]
    rng_for(seed, ID, "corpus").shuffle(corpus)
    ci = 0
    i = 0
    while True:
        rng = rng_for(seed, ID, shard, i)
        i += 1
        if i % 5 == 0 and ci < len(corpus):
            c = corpus[ci]
            ci += 1
            try:
                sc = S.scan(c["text"])
            except S.ScanError:
                continue
            yield {"kind": "corpus", "src": f"{c['file']}#{c['index']}", "text": c["text"],
                   "fparts": sc.fparts, "fdebug": sc.fdebug}
            continue
        cfg = S.GenConfig(multiline=rng.choice([0.4, 0.7, 0.9]), noise=rng.choice([0.15, 0.3]),
                          top=(1, 4), **_CFGS[rng.randrange(len(_CFGS))])
        r = S.render(S.gen_program(rng, cfg), cuts=False)
        yield {"kind": "ir", "text": r.text, "models": r.models, "fparts": r.fparts,
               "fdebug": r.fdebug, "tags": r.tags}


# ---------------------------------------------------------------------------
# the oracle
# ---------------------------------------------------------------------------

def _pos(m):
    return (m.start_line, m.start_column), (m.end_line, m.end_column)


class Walk:
    """One pass over the models of a text.  viol: list of dicts
    {kind: region|contain|order, path, why, part: bool (offender is an
    f-string String part), later: bool (it follows an FComponent sibling),
    inherited: bool (its region equals the parent's)}."""

    def __init__(self, text):
        import hy.models as M
        self.M = M
        self.text = text
        self.L = S.LineIndex(text)
        self.viol = []
        self.reads = 0
        self.nodes = 0
        self.own = 0
        self.maxdepth = 0
        self.flag_mismatch = 0
        self.exact = self.inexact = 0

    def region_text(self, m):
        (sl, sc), (el, ec) = _pos(m)
        return self.L.region(sl, sc, el, ec)

    def check_own(self, m, path):
        self.own += 1
        reg = self.region_text(m)
        if reg is None:
            self.viol.append(dict(kind="region", path=path,
                                  why=f"{path}: region {_pos(m)} is not inside the text"))
            return
        out, val = S.read_outcome(reg)
        self.reads += 1
        if out != "ok":
            why = f"region {_pos(m)} = {reg!r} does not read: {S.describe_exc(val)}"
        elif len(val) != 1:
            why = f"region {_pos(m)} = {reg!r} reads as {len(val)} forms"
        else:
            d = same_model(val[0], m, "", ATTRS)
            if not d:
                return
            why = f"region {_pos(m)} = {reg!r} reads back differently: {d}"
        self.viol.append(dict(kind="region", path=path, why=f"{path} ({type(m).__name__}): {why}"))

    def structural_roles(self, m):
        """(roles of children, order_exempt) from the shape of the model and its source text."""
        M = self.M
        n = len(m)
        if isinstance(m, M.FString):
            return ["part"] * n, False
        if isinstance(m, M.FComponent):
            return ["own"] + ["part"] * (n - 1), False
        if isinstance(m, M.Expression):
            reg = self.region_text(m) or "("
            if not reg.startswith("("):
                if reg.startswith(SUGAR_PREFIXES):
                    return ["synth"] + ["own"] * (n - 1), reg.startswith("#^")
                return ["synth"] * n, False
        return ["own"] * n, False

    def visit(self, m, path, role, spec, depth, parent=None):
        M = self.M
        self.nodes += 1
        self.maxdepth = max(self.maxdepth, depth)
        if role == "own":
            self.check_own(m, path)
            if spec is not None and spec.get("span"):
                a, b = spec["span"]
                if (self.L.pos(a), self.L.pos(b)) == _pos(m):
                    self.exact += 1
                else:
                    self.inexact += 1
        if not isinstance(m, M.Sequence):
            return
        roles, exempt = self.structural_roles(m)
        if spec is not None:
            kids = spec.get("c", [])
            is_f = isinstance(m, (M.FString, M.FComponent))
            ir_roles = []
            for j, k in enumerate(kids):
                if is_f:
                    ir_roles.append("own" if (isinstance(m, M.FComponent) and j == 0) else "part")
                else:
                    ir_roles.append("own" if k.get("own") else "synth")
            ir_exempt = bool(spec.get("noorder"))
            if ir_roles != roles or ir_exempt != exempt:
                self.flag_mismatch += 1
            roles, exempt = ir_roles, ir_exempt
        ps, pe = _pos(m)
        prev = None
        field_seen = False
        for j, c in enumerate(m):
            cpath = f"{path}[{j}]"
            cs, ce = _pos(c)
            is_part_string = roles[j] == "part" and isinstance(c, M.String)
            info = dict(path=cpath, part=is_part_string, later=is_part_string and field_seen,
                        inherited=(cs, ce) == (ps, pe))
            if isinstance(c, M.FComponent):
                field_seen = True
            if cs < ps or ce > pe:
                self.viol.append(dict(kind="contain", why=f"{cpath} ({type(c).__name__}) region {cs}..{ce} "
                                      f"is not inside its parent's {ps}..{pe}", **info))
            if prev is not None and cs < prev and not exempt:
                self.viol.append(dict(kind="order", why=f"{cpath} ({type(c).__name__} {_short(c)}) starts at "
                                      f"{cs}, before its preceding sibling at {prev}", **info))
            prev = cs
            self.visit(c, cpath, "own" if roles[j] == "own" else roles[j],
                       spec["c"][j] if spec is not None else None, depth + 1, m)


def _short(m):
    r = str(m) if not hasattr(m, "__len__") or isinstance(m, str) else type(m).__name__
    return repr(r[:20])


def check_text(text, specs=None):
    """Run the oracle over a text.  Returns (Walk, models) or (None, reason)."""
    out, models = S.read_outcome(text)
    if out != "ok":
        return None, f"does not read: {S.describe_exc(models)}"
    if specs is not None and S.specs_diff(models, specs, attrs=ATTRS):
        return None, "models differ from the IR's expectation (C20's business): " + \
            S.specs_diff(models, specs, attrs=ATTRS)
    w = Walk(text)
    w.reads += 1
    prev = None
    for i, m in enumerate(models):
        s = _pos(m)[0]
        if prev is not None and s < prev:
            w.viol.append(dict(kind="order", path=f"[{i}]", part=False, later=False, inherited=False,
                               why=f"top-level form [{i}] starts at {s}, before its predecessor at {prev}"))
        prev = s
        w.visit(m, f"[{i}]", "own", specs[i] if specs is not None else None, 0)
    return w, models


def _remove(text, spans):
    for a, b in sorted(spans, reverse=True):
        text = text[:a] + text[b + 1:]
    return text


def _normalise(case, what):
    """what == "parts": the text with every f-string literal part that follows a
    replacement field (in the same f-string / format spec) removed;
    what == "debug": the text with the '=' of every debug field removed."""
    if what == "parts":
        return _remove(case["text"], [(p[0], p[1]) for p in case["fparts"] if p[3]])
    return _remove(case["text"], [(o, o) for o in case.get("fdebug", [])])


def run_case(case):
    text = case["text"]
    res = {"ok": True, "nontrivial": False, "events": 0,
           "classes": [case["kind"]] + ["has:" + t for t in case.get("tags", [])]}
    w, models = check_text(text, case.get("models"))
    if w is None:
        _bump("skipped:" + ("unreadable" if models.startswith("does not") else "spec-mismatch"))
        res["ok"] = None
        res["classes"].append("premise-failed")
        return res
    res["events"] = w.nodes
    _bump("nodes", w.nodes)
    _bump("own_regions_read_back", w.own)
    _bump("span_exact", w.exact)
    _bump("span_not_exact", w.inexact)
    if w.flag_mismatch:
        _bump("own_flag_mismatch", w.flag_mismatch)
    lines = text.count("\n") + 1
    res["nontrivial"] = lines >= 2 and w.maxdepth >= 2
    res["nt_keys"] = [text]
    if lines >= 2:
        res["classes"].append("multi-line")
    if "\r" in text:
        res["classes"].append("has-CR")
    res["sample"] = {"kind": case["kind"], "text": text[:500], "nodes": w.nodes, "src": case.get("src")}
    if not w.viol:
        return res
    res["ok"] = False
    res["why"] = "; ".join(v["why"] for v in w.viol[:3]) + f" ({len(w.viol)} violations, text {text[:300]!r})"
    _bump("violating_nodes", len(w.viol))
    # attribution: every violation is an order violation whose offender is a String
    # part of an f-string that follows a replacement field.  Two mechanisms, each
    # accepted only if the violation disappears when that feature alone is removed:
    #  - the part was joined with a debug-'=' text and so inherited the f-string's
    #    own region (normaliser: drop the '=' signs);
    #  - the part reports the start of the first part (normaliser: drop the literal
    #    parts that follow a field).
    if all(v["kind"] == "order" and v["part"] and v["later"] for v in w.viol):
        tries = [("fstring-part-start", "parts")]
        if any(v["inherited"] for v in w.viol):
            tries.insert(0, ("fstring-joined-part-position", "debug"))
        for key, what in tries:
            norm = _normalise(case, what)
            if norm == text:
                continue
            w2, _ = check_text(norm)
            if w2 is not None and not w2.viol:
                res["finding"] = key
                res["why"] = f"<{key}> " + res["why"]
                break
    return res


def finish_worker():
    return {"positions": dict(_counts)}


def gate(tot, classes, extra, tier):
    p = extra.get("positions", {})
    if p.get("own_flag_mismatch"):
        return f"ir-and-structural-own-text-flags-disagree-{p['own_flag_mismatch']}"
    if not p.get("own_regions_read_back"):
        return "no-region-read-back"
    for need in ("multi-line", "has-CR", "has:fstr:multi-literal", "has:sugar-ws", "has:str:newline",
                 "has:dotted", "has:sugar:#^", "corpus"):
        if not classes.get(need):
            return f"class-{need}-never-generated"
    if 100 * p.get("skipped:spec-mismatch", 0) > tot["evaluations"]:
        return f"spec-mismatch-{p['skipped:spec-mismatch']}"
    return None
