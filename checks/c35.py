"""C35 — macro lookup and `require` follow the documented namespaces.

History observed per generated module: for every call site the value the call
produced (every macro body returns a unique tag; a name that is not a macro
compiles to an ordinary function call, which the harness pre-binds to a
function returning "FN" — the same observation as the NameError the docs show,
without aborting the module), compile-time snapshots of the module's
`_hy_macros` after each module-level `require`, and the core-shadow
RuntimeWarnings recorded with `warnings.catch_warnings(record=True)`.

Oracle: `Resolver` below — a small replay of the history in compile order
with explicit dictionaries (hy.eval extra -> local scopes innermost..outermost
-> module -> core), following docs/macros.rst "Macro namespaces" and the
`require` / `pragma` entries of docs/api.rst.

Carve-outs (beyond DESIGN §7):
* `(require m)` / `(require m :as P)`: api.rst says "every macro", the code
  transfers the exported ones; only exported macros are promised, a non-exported
  one may or may not be bound ("maybe" bindings: either outcome is accepted, in
  call results and in snapshots).  `(require pkg [sub :as Z])` promises only the
  submodule's public, exported macros.
* `hy.eval` looks macros up in the module at *run time*: such sites are only
  generated for names that have no module-level (re)definition later in the
  file, so the answer does not depend on how compile time and run time
  interleave (source import vs. byte-code import).
* `(hy.eval ... :macros (local-macros))` sites only sit at the end of defn/fn
  scopes whose ancestors are defn/fn (the dictionary is read through Python
  variables, so class bodies/comprehensions/later rebinding would test Python's
  scoping, not the macro namespaces).
* (`(require pkg [submodule ...])` inside a function is generated since hy commit b67c060 repaired it.)
* the number of warnings is compared per shadowing name (multiset), not their order.
"""
import importlib
import os
import shutil
import sys
import tempfile
import warnings

from hv import macrogen as G
from hv.common import rng_for

ID = "C35"
LEVEL = "exploration"
RULE = ("histories of 3-25 events (defmacro / require in the shapes {bare, :as, [names :as], *, :macros, pkg [sub]} / "
        "pragma :warn-on-core-shadow) at module level and in nested defn, fn, defclass, lfor scopes and for/do blocks "
        "(not scopes), interleaved with and followed by calls of every name in play (direct, mangled spelling, through "
        "an indirecting module macro), hy.eval calls with a :macros dict / (local-macros) / nothing, definitions named "
        "like core macros; two fixture macro modules and a package with a submodule (export lists via setv/export, "
        "private names), in memory or on disk. Non-trivial = history in which some name is bound in >= 2 namespaces "
        "(extra, a local scope, another local scope, module, core); distinct by module text + fixtures.")
FLOOR = {"quick": 120, "thorough": 800}
BUDGET = {"quick": 35, "thorough": 480}
CASE_TIMEOUT = 30
NEEDS_EVENTS = True
ANCHORS = ["hy.macros:macroexpand", "hy.macros:require", "hy.core.result_macros:compile_macro_def",
           "hy.core.result_macros:compile_require", "hy.core.result_macros:compile_pragma",
           "hy.compiler:HyASTCompiler.local_state", "hy.compiler:HyASTCompiler.warn_on_core_shadow"]
ASSUMPTIONS = [
    "the reference resolver encodes docs/macros.rst (lookup order, scope of local macros) and docs/api.rst (require shapes, "
    "_hy_export_macros, pragma scoping)",
    "the set of core macros is builtins._hy_macros (docs/macros.rst)",
    "CPython executes the compiled module as documented (call sites inside functions/classes/comprehensions run once)",
]
MANIFEST = {
    "text": "Generated modules replay histories of defmacro/require/pragma at module level and inside nested "
            "function, class and comprehension scopes (and for/do blocks), with calls of every name in play at every "
            "scope, hy.eval calls with :macros, and core-shadowing definitions; every macro returns a unique tag. "
            "The tag observed at each call site, the module's _hy_macros after each require and the core-shadow "
            "warnings are compared with a small reference resolver over explicit namespace dictionaries. "
            "Exploration: held on the histories run.",
    "note": "Trusted: the resolver's reading of docs/macros.rst and docs/api.rst. Bounds: <= 25 events, nesting <= 4, "
            "two fixture modules + one package, macros take #* args and return a constant.",
    "technique": "runtime monitoring: unique-tag call-site history + _hy_macros snapshots + recorded warnings vs reference namespace resolver",
}

NAMES = ["a", "b", "c", "foo-bar", "zap!", "_p", "_q-r", "λ"]
CORE_LIKE = {"when": 2, "cond": 2, "assert": None, "and": 2, "-": -1}   # value of (NAME 1 2) with the core macro
PREFIXES = ["P1", "Q2", "my-p"]
FIX_MODS = ["hvfa", "hvfb", "hvpk.sub"]
SCOPE_KINDS = ["defn", "fn", "defclass", "lfor", "for", "do"]
REAL_SCOPES = ("defn", "fn", "defclass", "lfor")


def mangle(s):
    import hy
    return ".".join(hy.mangle(p) for p in s.split("."))


# ---------------------------------------------------------------------------
# the reference resolver (the oracle)

def exported(fx):
    names = [mangle(n) for n, _ in fx["macros"]]
    if fx["export"]:
        return {mangle(n) for n in fx["export"][1]}
    return {n for n in names if not n.startswith("_")}


def require_bindings(entry, fixtures):
    """[(new key, tag, sure, name shown in a warning)] for one require entry, per docs/api.rst."""
    fx = fixtures[entry["mod"]]
    exp = exported(fx)
    out = []
    shape = entry["shape"]
    if shape in ("bare", "as"):
        prefix = mangle(entry["prefix"] if shape == "as" else entry["mod"])
        for n, t in fx["macros"]:
            out.append((prefix + "." + mangle(n), t, mangle(n) in exp, None))
    elif shape == "names":
        tags = {mangle(n): t for n, t in fx["macros"]}
        for n, alias in entry["names"]:
            out.append((mangle(alias or n), tags[mangle(n)], True, alias or n))
    elif shape == "star":
        for n, t in fx["macros"]:
            if mangle(n) in exp:
                out.append((mangle(n), t, True, n))
    elif shape == "sub":
        # (require pkg [sub :as Z]): pkg has no macros of its own, sub is a submodule
        prefix = mangle(entry["prefix"] or entry["mod"].split(".")[-1])
        for n, t in fx["macros"]:
            sure = mangle(n) in exp and not mangle(n).startswith("_")
            out.append((prefix + "." + mangle(n), t, sure, None))
    return out


class Resolver:
    def __init__(self, fixtures):
        self.fx = fixtures
        self.core = {mangle(n) for n in CORE_LIKE}
        self.module = {}
        self.stack = [{"m": {}, "id": 0}]   # stack[0]: module-level settings; its "m" is unused
        self.nscope = 0
        self.sites, self.snaps, self.warns = {}, {}, []
        self.spaces_per_key = {}            # key -> set of namespaces that ever bound it (for "non-trivial")
        self.mod_binds, self.eval_sites = [], []
        self.n = 0

    def warn_on(self):
        return next((s["w"] for s in reversed(self.stack) if "w" in s), True)

    def bind(self, key, tag, sure, shown):
        local = len(self.stack) > 1
        d = self.stack[-1]["m"] if local else self.module
        if sure or key not in d:
            d[key] = ({tag}, not sure)
        else:
            d[key] = (d[key][0] | {tag}, d[key][1])
        self.spaces_per_key.setdefault(key, set()).add(self.stack[-1]["id"] if local else "module")
        if not local:
            self.mod_binds.append((self.n, key))
        if shown is not None and mangle(shown) in self.core and self.warn_on():
            self.warns.append(mangle(shown))

    def lookup(self, key, extra=None, use_locals=True, inner=None):
        acc = set()
        spaces = [extra] if extra is not None else []
        if inner is not None:
            spaces.append(inner)        # a local scope opened by the code that hy.eval evaluates
        if use_locals:
            spaces += [s["m"] for s in reversed(self.stack[1:])]
        for d in spaces + [self.module]:
            if key in d:
                acc |= d[key][0]
                if not d[key][1]:
                    return acc
        acc.add("CORE" if key in self.core else "FN")
        return acc

    def run(self, items):
        for it in items:
            self.n += 1
            k = it[0]
            if k == "defmacro":
                self.bind(mangle(it[1]), it[2], True, it[1])
            elif k == "require":
                for entry in it[1]:
                    for key, tag, sure, shown in require_bindings(entry, self.fx):
                        self.bind(key, tag, sure, shown)
            elif k == "pragma":
                self.stack[-1]["w"] = it[1]
            elif k in ("call", "ind"):
                self.sites[it[1]] = self.lookup(mangle(it[2]))
            elif k == "hyeval":
                _, site, name, variant, extra = it[:5]
                ex = ({mangle(n): ({t}, False) for n, t in extra.items()}
                      if variant in ("dict", "nested") else None)
                inner = None
                if variant == "nested":
                    # the evaluated code opens its own scope with a local macro L and calls `name` there;
                    # hy.eval compiles it with a fresh compiler (pragma default: warn)
                    nl = it[5]
                    inner = {mangle(nl["L"]): ({nl["ltag"]}, False)}
                    self.spaces_per_key.setdefault(mangle(nl["L"]), set()).add("eval-local")
                    if mangle(nl["L"]) in self.core:
                        self.warns.append(mangle(nl["L"]))
                self.sites[site] = self.lookup(mangle(name), ex, use_locals=(variant == "local"), inner=inner)
                if ex:
                    for key in ex:
                        self.spaces_per_key.setdefault(key, set()).add("extra")
                if not (ex and mangle(name) in ex) and not (inner and mangle(name) in inner):
                    self.eval_sites.append((self.n, site, mangle(name)))
            elif k == "snap":
                self.snaps[it[1]] = {key: (sorted(v[0]), v[1]) for key, v in self.module.items()}
            elif k == "scope":
                if it[1] in REAL_SCOPES:
                    self.nscope += 1
                    self.stack.append({"m": {}, "id": self.nscope})
                    self.run(it[3])
                    self.stack.pop()
                else:
                    self.run(it[3])

    def nontrivial(self):
        return any(len(v) + (key in self.core) >= 2 for key, v in self.spaces_per_key.items())


# ---------------------------------------------------------------------------
# generator

class Gen:
    def __init__(self, rng, tier):
        self.rng = rng
        self.tag = 0
        self.site = 0
        self.sid = 0
        self.events = 0
        self.budget = rng.randint(3, 25)
        self.names = rng.sample(NAMES, rng.randint(2, 4)) + rng.sample(sorted(CORE_LIKE), rng.randint(0, 2))
        self.inplay = []        # names as called, incl. prefixed ones
        self.fixtures = {}
        self.prefix_roots = set()

    def newtag(self):
        self.tag += 1
        return f"T{self.tag}"

    def newsite(self):
        self.site += 1
        return f"k{self.site}"

    def gen_fixtures(self):
        rng = self.rng
        for mod in FIX_MODS:
            pool = list(dict.fromkeys(self.names + rng.sample(NAMES, 3) + rng.sample(sorted(CORE_LIKE), 1)))
            picks = rng.sample(pool, rng.randint(2, min(5, len(pool))))
            macros = [[n, self.newtag()] for n in picks]
            ev = rng.choice(["none", "none", "setv", "export"])
            export = None
            if ev != "none":
                export = [ev, [n for n in picks if rng.random() < 0.6] or [picks[0]]]
                if rng.random() < 0.3:
                    export = [ev, []]       # the module exports no macros at all
            self.fixtures[mod] = {"mod": mod, "macros": macros, "export": export}

    def gen_require(self, depth):
        rng = self.rng
        entries = []
        for _ in range(1 if rng.random() < 0.8 else 2):
            mod = rng.choice(FIX_MODS)
            fx = self.fixtures[mod]
            shapes = ["bare", "as", "names", "names", "star"]
            if mod == "hvpk.sub":
                shapes += ["sub", "sub"]
            shape = rng.choice(shapes)
            e = {"mod": mod, "shape": shape, "prefix": None, "names": None, "kw": rng.random() < 0.2}
            if shape == "as":
                e["prefix"] = rng.choice(PREFIXES)
            elif shape == "sub":
                e["prefix"] = rng.choice([None, "Z"])
            elif shape == "names":
                picks = rng.sample(fx["macros"], rng.randint(1, min(3, len(fx["macros"]))))
                e["names"] = [[n, (rng.choice(self.names) if rng.random() < 0.4 else None)] for n, _ in picks]
            entries.append(e)
            for key, _, sure, _ in require_bindings(e, self.fixtures):
                shown = self.show_key(e, key)
                if shown not in self.inplay and (sure or rng.random() < 0.3):
                    self.inplay.append(shown)
        return ["require", entries]

    def show_key(self, e, key):
        """A source spelling for a bound key (keys are mangled; spell the prefix as written)."""
        if "." in key:
            root = key.split(".")[0]
            self.prefix_roots.add(root)
        return key

    def call_item(self, name=None):
        rng = self.rng
        name = name or self.pick_name()
        r = rng.random()
        if r < 0.8 or "." in name:
            spell = name
            if rng.random() < 0.12:
                spell = mangle(name)
            return ["call", self.newsite(), name, spell]
        return ["ind", self.newsite(), name]

    def pick_name(self):
        rng = self.rng
        if self.inplay and rng.random() < 0.85:
            return rng.choice(self.inplay)
        return rng.choice(self.names + ["never-bound"])

    def hyeval_item(self, variant=None):
        rng = self.rng
        name = self.pick_name()
        variant = variant or rng.choice(["dict", "dict", "none", "nested", "nested"])
        extra = {}
        if variant == "nested":
            # hy.eval of code that itself defines/requires a local macro L in a nested scope and calls
            # it there, with (usually) the same name in the :macros dict: the dict comes first
            L = rng.choice(self.names)
            for n in rng.sample(self.names, rng.randint(1, 2)):
                extra[n] = self.newtag()
            if rng.random() < 0.75:
                extra.setdefault(L, self.newtag())
            nl = {"L": L, "kind": rng.choice(["fn", "defn", "defclass", "lfor"]), "req": None}
            if rng.random() < 0.3:
                mod = rng.choice(FIX_MODS)
                src, tag = rng.choice(self.fixtures[mod]["macros"])
                nl["req"], nl["ltag"] = [mod, src], tag
            else:
                nl["ltag"] = self.newtag()
            name = L if rng.random() < 0.8 else name
            return ["hyeval", self.newsite(), name, variant, extra, nl]
        if variant == "dict":
            for n in rng.sample(self.names, rng.randint(1, 2)):
                extra[n] = self.newtag()
            if rng.random() < 0.6:
                name = rng.choice(sorted(extra))
        return ["hyeval", self.newsite(), name, variant, extra]

    def items(self, depth, kind, chain_fn_only):
        rng = self.rng
        out = []
        n_here = rng.randint(1, 6) if depth else rng.randint(3, 9)
        for _ in range(n_here):
            if self.events >= self.budget:
                break
            r = rng.random()
            if r < 0.3:
                name = rng.choice(self.names)
                out.append(["defmacro", name, self.newtag()])
                if name not in self.inplay:
                    self.inplay.append(name)
                self.events += 1
            elif r < 0.48:
                out.append(self.gen_require(depth))
                self.events += 1
                if depth == 0:
                    out.append(["snap", self.newsite()])
            elif r < 0.54:
                out.append(["pragma", rng.random() < 0.35])
                self.events += 1
            elif r < 0.72:
                out.append(self.call_item())
            elif r < 0.79:
                out.append(self.hyeval_item())
            elif depth < 4:
                k = rng.choice(SCOPE_KINDS)
                self.sid += 1
                self.events += 1
                sid = self.sid
                if k in ("for", "do"):
                    sub_chain = chain_fn_only
                elif k in ("defn", "fn") and chain_fn_only in ("module", "fn"):
                    sub_chain = "fn"
                else:
                    sub_chain = "no"
                body = self.items(depth + (k in REAL_SCOPES), k, sub_chain)
                out.append(["scope", k, sid, body, rng.choice(["a", "b"])])
            else:
                out.append(self.call_item())
        # closing calls: every name in play (capped), at this scope
        names = list(dict.fromkeys(self.inplay + self.names))
        rng.shuffle(names)
        for nm in names[: (12 if depth == 0 else rng.randint(2, 5))]:
            out.append(self.call_item(nm))
        if kind in ("defn", "fn") and chain_fn_only == "fn" and rng.random() < 0.6:
            out.append(self.hyeval_item("local"))
        return out


def iter_items(items):
    for it in items:
        yield it
        if it[0] == "scope":
            yield from iter_items(it[3])


def fix_eval_sites(hist, fixtures):
    """hy.eval consults the module's table at run time; keep only sites whose name has no later
    module-level (re)binding (see the carve-out in the module docstring). Others become plain calls."""
    r = Resolver(fixtures)
    r.run(hist)
    bad = set()
    for n, site, key in r.eval_sites:
        if any(m > n and k == key for m, k in r.mod_binds):
            bad.add(site)
    if bad:
        for it in iter_items(hist):
            if it[0] == "hyeval" and it[1] in bad:
                name = it[2]
                it[:] = ["call", it[1], name, name]
    return hist


# --- rendering ---------------------------------------------------------------

def render_fixture(fx):
    lines = [f'(defmacro {n} [#* args] "{t}")' for n, t in fx["macros"]]
    if fx["export"]:
        how, names = fx["export"]
        if how == "export":
            lines.insert(len(lines) // 2, f"(export :macros [{' '.join(names)}])")
        else:
            lst = " ".join('"' + mangle(n) + '"' for n in names)
            lines.append(f"(setv _hy_export_macros [{lst}])")
    return "\n".join(lines) + "\n"


def render_entry(e):
    kw = ":macros " if e["kw"] else ""
    if e["shape"] == "bare":
        return e["mod"]
    if e["shape"] == "as":
        return f"{e['mod']} :as {e['prefix']}"
    if e["shape"] == "star":
        return f"{e['mod']} {kw}*"
    if e["shape"] == "names":
        parts = " ".join(n if a is None else f"{n} :as {a}" for n, a in e["names"])
        return f"{e['mod']} {kw}[{parts}]"
    if e["shape"] == "sub":
        pkg, sub = e["mod"].rsplit(".", 1)
        return f"{pkg} [{sub}" + (f" :as {e['prefix']}" if e["prefix"] else "") + "]"
    raise ValueError(e)


def render_item(it, ind):
    k = it[0]
    pad = "  " * ind
    if k == "defmacro":
        return [f'{pad}(defmacro {it[1]} [#* args] "{it[2]}")']
    if k == "require":
        return [f"{pad}(require {' '.join(render_entry(e) for e in it[1])})"]
    if k == "pragma":
        return [f"{pad}(pragma :warn-on-core-shadow {'True' if it[1] else 'False'})"]
    if k == "call":
        return [f'{pad}(HVREC "{it[1]}" ({it[3]} 1 2))']
    if k == "ind":
        return [f'{pad}(HVREC "{it[1]}" (ind_{mangle(it[2])}))']
    if k == "snap":
        return [f'{pad}(eval-when-compile (HVSNAP "{it[1]}" _hy_macros))']
    if k == "hyeval":
        _, site, name, variant, extra = it[:5]
        if variant == "nested":
            nl = it[5]
            d = " ".join(f'"{mangle(n)}" (fn [#* args] "{t}")' for n, t in extra.items())
            bind = (f"(require {nl['req'][0]} [{nl['req'][1]} :as {nl['L']}])" if nl["req"]
                    else f'(defmacro {nl["L"]} [#* args] "{nl["ltag"]}")')
            call = f"({name} 1 2)"
            code = {
                "fn": f"((fn [] {bind} {call}))",
                "defn": f"(do (defn hv-inner{site} [] {bind} {call}) (hv-inner{site}))",
                "defclass": f"(do (defclass HvInner{site} [] {bind} (setv v {call})) (. HvInner{site} v))",
                "lfor": f"(get (lfor _ [0] :do {bind} {call}) 0)",
            }[nl["kind"]]
            return [f'{pad}(HVREC "{site}" (hy.eval \'{code} :macros {{{d}}}))']
        if variant == "dict":
            d = " ".join(f'"{mangle(n)}" (fn [#* args] "{t}")' for n, t in extra.items())
            m = f" :macros {{{d}}}"
        elif variant == "local":
            m = " :macros (local-macros)"
        else:
            m = ""
        return [f'{pad}(HVREC "{site}" (hy.eval \'({name} 1 2){m}))']
    if k == "scope":
        _, kind, sid, body, style = it
        inner = [l for b in body for l in render_item(b, ind + 1)]
        if kind == "defn":
            return [f"{pad}(defn S{sid} []"] + inner + [f"{pad}  None)", f"{pad}(S{sid})"]
        if kind == "fn":
            return [f"{pad}((fn []"] + inner + [f"{pad}  None))"]
        if kind == "defclass":
            return [f"{pad}(defclass S{sid} []"] + inner + [f"{pad}  (setv done True))"]
        if kind == "for":
            return [f"{pad}(for [_i{sid} [0]]"] + inner + [f"{pad}  None)"]
        if kind == "do":
            return [f"{pad}(do"] + inner + [f"{pad}  None)"]
        if kind == "lfor":
            if style == "a":
                # every body form is a :do clause of the comprehension
                forms = render_forms(body, ind + 1)
                return [f"{pad}(lfor _v{sid} [0]"] + [f"{'  ' * (ind + 1)}:do {f.strip()}" for f in forms] + [f"{pad}  None)"]
            return [f"{pad}(lfor _v{sid} [0] (do"] + inner + [f"{pad}  None))"]
    raise ValueError(it)


def render_forms(body, ind):
    """Each top-level form of a body as one string (a scope may render to two forms)."""
    out = []
    for b in body:
        lines = render_item(b, ind)
        if b[0] == "scope" and b[1] == "defn":
            out.append("\n".join(lines[:-1]))
            out.append(lines[-1])
        else:
            out.append("\n".join(lines))
    return out


def render_main(hist, names, roots):
    plain = [n for n in dict.fromkeys(names + ["never-bound"]) if n not in CORE_LIKE]
    head = ["(setv " + " ".join(f"{n} HVFN" for n in plain) + ")"]
    if roots:
        head.append("(setv " + " ".join(f"{r} (HVNS)" for r in sorted(roots)) + ")")
    used = {mangle(it[2]) for it in iter_items(hist) if it[0] == "ind"}
    for n in {mangle(n): n for n in names + ["never-bound"] if mangle(n) in used}.values():
        head.append(f"(defmacro ind_{mangle(n)} [] '({n} 1 2))")
    return "\n".join(head + [l for it in hist for l in render_item(it, 0)]) + "\n"


def gen_case(rng, tier):
    g = Gen(rng, tier)
    g.gen_fixtures()
    hist = g.items(0, "module", "module")
    hist.append(["snap", g.newsite()])
    hist = fix_eval_sites(hist, g.fixtures)
    roots = set()
    for it in iter_items(hist):
        if it[0] in ("call", "hyeval") and "." in it[2]:
            roots.add(it[2].split(".")[0])
    names = list(dict.fromkeys(
        g.names + [it[2] for it in iter_items(hist) if it[0] in ("call", "ind", "hyeval") and "." not in it[2]]))
    return {
        "mode": "disk" if rng.random() < 0.15 else "mem",
        "fixtures": g.fixtures,
        "fixture_text": {m: render_fixture(fx) for m, fx in g.fixtures.items()},
        "hist": hist,
        "main": render_main(hist, names, roots),
        "names": names, "roots": sorted(roots),
        "events": g.events,
    }


def cases(seed, tier, shard, nshards):
    i = 0
    while True:
        rng = rng_for(seed, ID, shard, i)
        i += 1
        yield gen_case(rng, tier)


def case_key(case):
    return [case["main"], case["fixture_text"], case["mode"]]


# ---------------------------------------------------------------------------
# running

class Harness:
    """The builtins-installed observers: HVREC (call-site values), HVSNAP (compile-time
    _hy_macros snapshots), HVFN / HVNS (what a non-macro call reaches)."""

    def __init__(self):
        self.sites = {}
        self.snaps = {}

    def rec(self, k, v):
        self.sites.setdefault(k, []).append(v)
        return v

    def snap(self, k, macros):
        d = {}
        for key, f in list(macros.items()):
            try:
                v = f()
            except BaseException as e:      # a macro we cannot call without arguments
                v = "ERR:" + type(e).__name__
            d[key] = v if isinstance(v, str) else "MODEL"
        self.snaps[k] = d

    @staticmethod
    def fn(*a, **kw):
        return "FN"

    class NS:
        def __getattr__(self, name):
            if name.startswith("__"):
                raise AttributeError(name)
            return Harness.NS()

        def __call__(self, *a, **kw):
            return "FN"

    def __enter__(self):
        import builtins
        self._b = builtins
        for name, v in (("HVREC", self.rec), ("HVSNAP", self.snap), ("HVFN", Harness.fn), ("HVNS", Harness.NS)):
            setattr(builtins, name, v)
        return self

    def __exit__(self, *exc):
        for name in ("HVREC", "HVSNAP", "HVFN", "HVNS"):
            if hasattr(self._b, name):
                delattr(self._b, name)
        return False


_compilers = []


def setup_worker(tier, seed):
    # secondary monitor: remember every compiler object so that the depth of its
    # local_state_stack can be inspected at quiescent points
    try:
        from hy.compiler import HyASTCompiler
        orig = HyASTCompiler.__init__

        def init(self, *a, **kw):
            orig(self, *a, **kw)
            _compilers.append(self)
        HyASTCompiler.__init__ = init
    except Exception:
        pass


MODNAMES = ["hvfa", "hvfb", "hvpk", "hvpk.sub", "hvmain"]


def execute(case, hz):
    """Run the case; returns (exception or None, phase, recorded warnings)."""
    rec = None
    for m in MODNAMES:
        sys.modules.pop(m, None)
    if case["mode"] == "mem":
        with G.Registered(MODNAMES) as mods:
            mods["hvpk"].__path__ = []
            with warnings.catch_warnings():
                warnings.simplefilter("ignore")     # the fixtures' own core-shadow warnings are not observed
                for m, text in case["fixture_text"].items():
                    exc, phase = G.run_hy(text, mods[m])
                    if exc is not None:
                        return exc, "fixture-" + phase, []
            with warnings.catch_warnings(record=True) as rec:
                warnings.simplefilter("always")
                exc, phase = G.run_hy(case["main"], mods["hvmain"])
            return exc, phase, list(rec)
    root = os.environ.get("VERIF_SCRATCH")
    d = os.path.realpath(tempfile.mkdtemp(prefix="c35-", dir=root if root and os.path.isdir(root) else None))
    try:
        os.mkdir(os.path.join(d, "hvpk"))
        open(os.path.join(d, "hvpk", "__init__.py"), "w").close()
        for m, text in case["fixture_text"].items():
            with open(os.path.join(d, *m.split(".")) + ".hy", "w", encoding="utf-8") as f:
                f.write(text)
        with open(os.path.join(d, "hvmain.hy"), "w", encoding="utf-8") as f:
            f.write(case["main"])
        sys.path.insert(0, d)
        importlib.invalidate_caches()
        try:
            with warnings.catch_warnings():
                warnings.simplefilter("ignore")
                for m in case["fixture_text"]:
                    importlib.import_module(m)
        except BaseException as e:
            if type(e).__name__ == "CaseTimeout":
                raise
            return e, "fixture-import", []
        exc = None
        with warnings.catch_warnings(record=True) as rec:
            warnings.simplefilter("always")
            try:
                importlib.import_module("hvmain")
            except BaseException as e:
                if type(e).__name__ == "CaseTimeout":
                    raise
                exc = e
        return exc, ("import" if exc else None), list(rec)
    finally:
        if d in sys.path:
            sys.path.remove(d)
        sys.path_importer_cache.pop(d, None)
        for m in MODNAMES:
            sys.modules.pop(m, None)
        shutil.rmtree(d, ignore_errors=True)


def describe(case, site):
    for it in iter_items(case["hist"]):
        if it[0] in ("call", "ind", "hyeval") and it[1] == site:
            return f"{it[0]} of `{it[2]}`" + (f" ({it[3]})" if it[0] == "hyeval" else "")
    return site


FINDING_MIRROR = "local-macros-variable-mirror"


def run_case(case):
    G.reset_state(MODNAMES, path_markers=("/c35-",))
    res = judge(case)
    if res["ok"] is False and res.get("mirror"):
        # attribution of the local-macros finding (local macros are mirrored in Python variables
        # _hy_local_macro__NAME whose Python scoping differs from the compile-time macro scoping):
        # every violating site is a (hy.eval ... :macros (local-macros)) site, or the module died with a
        # NameError on such a variable, and the violation disappears when only those sites are turned
        # into plain calls (same expectation: locals -> module -> core)
        import copy
        c2 = copy.deepcopy(case)
        for i in iter_items(c2["hist"]):
            if i[0] == "hyeval" and i[3] == "local":
                i[:] = ["call", i[1], i[2], i[2]]
        c2["main"] = render_main(c2["hist"], c2["names"], set(c2["roots"]))
        if judge(c2)["ok"] is True:
            res["finding"] = FINDING_MIRROR
            res["classes"].append("finding:" + FINDING_MIRROR)
    res.pop("mirror", None)
    return res


def judge(case):
    import builtins
    import re
    r = Resolver(case["fixtures"])
    r.run(case["hist"])
    kinds = set()
    for it in iter_items(case["hist"]):
        kinds.add(it[0] if it[0] != "scope" else "scope:" + it[1])
        if it[0] == "require":
            kinds.update("require:" + e["shape"] for e in it[1])
        if it[0] == "hyeval":
            kinds.add("hyeval:" + it[3])
            if it[3] == "nested":
                nl = it[5]
                kinds.add("hyeval:nested:" + nl["kind"] + (":require" if nl["req"] else ":defmacro")
                          + (":same-name-in-dict" if nl["L"] in it[4] and mangle(it[2]) == mangle(nl["L"]) else ""))
    for mod, fx in case["fixtures"].items():
        if fx["export"] and not fx["export"][1]:
            kinds.add("fixture:empty-export")
            for it in iter_items(case["hist"]):
                if it[0] == "require":
                    kinds.update("require-from-empty-export:" + e["shape"] for e in it[1] if e["mod"] == mod)
    classes = sorted(kinds) + ["mode:" + case["mode"], "events:%d" % (case["events"] // 5 * 5)]
    res = {"ok": True, "nontrivial": r.nontrivial(), "classes": classes, "events": 0,
           "sample": {"main": case["main"], "fixtures": case["fixture_text"]}}
    core_ok = all(mangle(n) in getattr(builtins, "_hy_macros", {}) for n in CORE_LIKE)
    if not core_ok:
        res.update(ok=None, classes=classes + ["skip:core-macro-set-changed"])
        return res
    del _compilers[:]
    with Harness() as hz:
        exc, phase, rec = execute(case, hz)
    res["events"] = len(hz.sites) + len(hz.snaps) + len(rec)
    local_sites = {it[1] for it in iter_items(case["hist"]) if it[0] == "hyeval" and it[3] == "local"}
    if exc is not None:
        res.update(ok=False, why=f"module failed at {phase}: {type(exc).__name__}: {str(exc)[:400]}")
        if local_sites and isinstance(exc, NameError) and "_hy_local_macro__" in str(exc):
            res["mirror"] = True
        return res
    # 1. call sites
    bad = []
    for site, want in r.sites.items():
        got = hz.sites.get(site)
        if got is None or len(got) != 1:
            bad.append((site, f"call site {site} ({describe(case, site)}) recorded {got!r}, expected one value"))
            continue
        v = got[0]
        acceptable = set()
        for w in want:
            if w == "CORE":
                acceptable.add(("core", repr(CORE_LIKE[_unmangled_core(case, site)])))
            else:
                acceptable.add(("v", w))
        obs = ("v", v) if isinstance(v, str) else ("core", repr(v))
        if obs not in acceptable:
            bad.append((site, (
                f"{describe(case, site)} at site {site} produced {v!r}; the reference resolver "
                f"(extra -> local innermost..outermost -> module -> core) expects one of {sorted(want)}")))
    if bad:
        # report a site that is not a local-macros site first, if there is one
        bad.sort(key=lambda b: b[0] in local_sites)
        res.update(ok=False, why=bad[0][1])
        if all(b[0] in local_sites for b in bad):
            res["mirror"] = True
        return res
    # 2. _hy_macros snapshots
    for k, want in r.snaps.items():
        got = hz.snaps.get(k)
        if got is None:
            res.update(ok=False, why=f"snapshot {k} was not taken at compile time")
            return res
        got = {key: v for key, v in got.items() if not key.startswith("ind_")}
        for key, (tags, maybe) in want.items():
            if key not in got:
                if not maybe:
                    res.update(ok=False, why=f"_hy_macros lacks {key!r} (macro {tags}) at snapshot {k} although a "
                                             f"require/defmacro before it must have bound it")
                    return res
            elif got[key] not in tags:
                res.update(ok=False, why=f"_hy_macros[{key!r}] is the macro tagged {got[key]!r} at snapshot {k}, expected {tags}")
                return res
        for key in got:
            if key not in want:
                res.update(ok=False, why=f"_hy_macros has {key!r} (macro tagged {got[key]!r}) at snapshot {k}; no "
                                         f"defmacro/require shape before it brings that name in")
                return res
    # 3. warnings: decided on the category (RuntimeWarning) and on the macro's name appearing in the
    # message, not on the wording
    shadow = []
    for w in rec:
        if issubclass(w.category, RuntimeWarning):
            shadow.append(str(w.message))
        else:
            res["classes"].append("other-warning:" + w.category.__name__)
    why = match_warnings(shadow, r.warns)
    if why:
        res.update(ok=False, why=why + " (one RuntimeWarning naming the macro per defmacro/require that binds a core "
                                       "macro's name while the pragma is on)")
        return res
    res["classes"].append("warnings:%d" % min(len(shadow), 5))
    # secondary: local_state_stack back to depth 1 on every compiler used
    try:
        deep = [c for c in _compilers if len(c.local_state_stack) != 1]
        res["classes"].append("secondary:local-state-depth-" + ("LEAK" if deep else "ok"))
    except Exception:
        res["classes"].append("secondary:local-state-skipped")
    return res


def match_warnings(messages, expected):
    """messages: texts of the recorded RuntimeWarnings; expected: mangled names, one per shadowing event.
    Accept iff there are as many warnings as events and they can be paired so that each warning's
    text contains its macro's name (as written or mangled) as a token."""
    import re

    def names(m):
        return {m} | {n for n in CORE_LIKE if mangle(n) == m}

    def mentions(msg, m):
        return any(re.search(r"(?<![\w\-])" + re.escape(n) + r"(?![\w\-])", msg) for n in names(m))

    if len(messages) != len(expected):
        return f"{len(messages)} core-shadow RuntimeWarning(s) {messages}, expected {len(expected)} for {sorted(expected)}"

    def pair(i, free):
        if i == len(expected):
            return True
        return any(mentions(messages[j], expected[i]) and pair(i + 1, free - {j}) for j in free)

    expected = sorted(expected)
    if not pair(0, frozenset(range(len(messages)))):
        return f"RuntimeWarnings {messages} do not name the shadowing macros {expected}"
    return None


def _unmangled_core(case, site):
    for it in iter_items(case["hist"]):
        if it[0] in ("call", "ind", "hyeval") and it[1] == site:
            for n in CORE_LIKE:
                if mangle(n) == mangle(it[2]):
                    return n
    raise KeyError(site)
