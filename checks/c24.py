"""C24 — Hy f-strings evaluate like the equivalent Python f-string.

History observed: the string (or exception) produced by evaluating a Hy f-string
and by CPython evaluating the Python f-string rendered from the same structure,
in the same namespace. Malformed fields/conversions: the error Hy raises.
"""
import datetime
import re

from hv.common import exec_hy, exec_py, rng_for
from hv.gen_models import attribute

ID = "C24"
LEVEL = "exploration"
RULE = ("f-string structures (literal text with {{ }} escapes, backslash and \\N{...} escapes, raw "
        "newlines; fields over names, numbers, strings, calls, arithmetic, attribute access, "
        "subscripts, conditionals, collection displays and nested f-strings; !s !r !a; = debugging "
        "with surrounding whitespace; format specs of literal text and nested fields to depth 2) "
        "rendered as Hy (f\"...\", rf\"...\", #[f[...]f], #[f-x[...]f-x]) and as Python source; plus "
        "malformed fields. Non-trivial = a field with >= 2 of {conversion, debug, spec, layout "
        "whitespace/comment} or a nested spec field; distinct by rendered Hy text.")
FLOOR = {"quick": 2000, "thorough": 2000}
BUDGET = {"quick": 25, "thorough": 480}
CASE_TIMEOUT = 20
NEEDS_EVENTS = True
ANCHORS = ["hy.reader.hy_reader:HyReader.read_fcomponent", "hy.reader.hy_reader:HyReader.read_fcomponents_until",
           "hy.reader.hy_reader:HyReader.read_chars_until", "hy.compiler:HyASTCompiler.compile_fcomponent",
           "hy.compiler:HyASTCompiler.compile_fstring", "hy.models:FString.__new__"]
ASSUMPTIONS = [
    "CPython 3.12.1 evaluates the rendered Python f-string as documented (PEP 701 grammar)",
    "field expressions are effect-free and exist in both languages with the same value",
    "= debugging is only generated for expressions whose source text is identical in both languages",
    "when both sides raise at run time only the exception type is compared",
]
MANIFEST = {
    "text": "Generated f-string structures are rendered as Hy source (plain, raw and bracket f-strings) "
            "and independently as a Python f-string; both are evaluated in the same namespace and "
            "the resulting strings (or run-time exception types) compared, CPython being the "
            "reference. Malformed fields (unknown/missing conversion, empty field, junk after the "
            "form or conversion, single '}', unterminated field) must raise a Hy syntax error. "
            "Exploration: held on the structures run, nothing beyond.",
    "note": "Trusted: CPython 3.12.1 f-string evaluation; the two renderers in checks/c24.py. "
            "Bounds: <= 4 fields, spec nesting <= 2, literal runs <= 6 atoms.",
    "technique": "runtime monitoring: differential evaluation of generated f-strings against CPython "
                 "executing an independently rendered Python f-string",
}


# ------------------------------------------------------------------ namespace

class Obj:
    pass


class Cfmt:
    def __format__(self, spec):
        return "C[" + spec + "]"

    def __repr__(self):
        return "<C r>"

    def __str__(self):
        return "C-str"


def make_env():
    obj, inner = Obj(), Obj()
    obj.val, obj.name, obj.inner = 5, "nm", inner
    inner.val = 2.5
    return dict(a=42, b=-7, x=3.14159, big=1234567.891, s="hi", t="wörld", z=1 + 2j, n=None,
                d=datetime.datetime(2024, 1, 2, 3, 4, 5), cobj=Cfmt(), lst=[1, "two"], dct={"k": "v"},
                w=8, p=3, fill="*", al="^", obj=obj, my_var="mv", fn1=lambda *xs: sum(xs),
                zero=0)


# (hy text, python text, value type, text identical in both languages, symbol-like end)
EXPRS = [
    ("a", "a", "int", True), ("b", "b", "int", True), ("x", "x", "float", True),
    ("big", "big", "float", True), ("s", "s", "str", True), ("t", "t", "str", True),
    ("z", "z", "complex", True), ("d", "d", "dt", True), ("cobj", "cobj", "C", True),
    ("n", "n", "obj", True), ("lst", "lst", "obj", True), ("w", "w", "int", True),
    ("obj.val", "obj.val", "int", True), ("obj.name", "obj.name", "str", True),
    ("obj.inner.val", "obj.inner.val", "float", True), ("my-var", "my_var", "str", False),
    ("42", "42", "int", True), ("-3", "-3", "int", True), ("2.5", "2.5", "float", True),
    ('"q"', '"q"', "str", True), ('"it\'s"', '"it\'s"', "str", True),
    ("(fn1 a 2)", "fn1(a, 2)", "int", False), ("(len s)", "len(s)", "int", False),
    ("(.upper s)", "s.upper()", "str", False), ("(str a)", "str(a)", "str", False),
    ("(abs b)", "abs(b)", "int", False), ("(round x 2)", "round(x, 2)", "float", False),
    ("(+ a 1)", "a + 1", "int", False), ("(* x 2)", "x * 2", "float", False),
    ("(- a b)", "a - b", "int", False), ("(/ a 4)", "a / 4", "float", False),
    ("(% a 5)", "a % 5", "int", False), ("(get lst 0)", "lst[0]", "int", False),
    ('(get dct "k")', 'dct["k"]', "str", False), ("(if zero s t)", "(s if zero else t)", "str", False),
    ("[a b]", "[a, b]", "obj", False), ("#(a 1)", "(a, 1)", "obj", False),
    ('{"k" a}', '{"k": a}', "obj", False), ("#{a}", "{a}", "obj", False),
    ('(+ s "!")', 's + "!"', "str", False), ('f"<{a}>"', 'f"<{a}>"', "str", True),
    ("(+ a ; add\n 1)", "a + 1", "int", False), ("(fn1\n  a\n  b)", "fn1(a, b)", "int", False),
    ("(cobj.__format__ \"u\")", 'cobj.__format__("u")', "str", False),
    ("True", "True", "int", True), ("None", "None", "obj", True),
]


def py_lit(s):
    out = []
    for ch in s:
        o = ord(ch)
        if ch in "{}":
            out.append(ch * 2)
        elif ch == "\\":
            out.append("\\\\")
        elif ch == '"':
            out.append('\\"')
        elif ch == "\n":
            out.append("\\n")
        elif 32 <= o < 127:
            out.append(ch)
        elif o < 0x10000:
            out.append("\\u%04x" % o)
        else:
            out.append("\\U%08x" % o)
    return "".join(out)


PLAIN = list("abc XYZ019.,;:!?=()[]#~`'-_%<>^+*/|&@$N")
ESC_ATOMS = [("{{", "{"), ("}}", "}"), ("\\n", "\n"), ("\n", "\n"), ("\\t", "\t"), ("\\\\", "\\"),
             ('\\"', '"'), ("\\x41", "A"), ("\\u00e9", "é"), ("\\N{BULLET}", "•"),
             ("\\N{LATIN SMALL LETTER A}", "a"), ("é", "é"), ("☃", "☃"),
             ("\\'", "'"), ("\\101", "A"), ("\\U0001d518", "\U0001d518"), ("N", "N"), ("{{", "{")]
RAW_ATOMS = [("{{", "{"), ("}}", "}"), ("\n", "\n"), ("\\", "\\"), ("\\n", "\\n"), ("é", "é"),
             ("N", "N"), ("\\N", "\\N"), ("{{", "{"), ("'", "'")]


def gen_literal(rng, mode, maxn=6):
    """[(hy spelling, value)]"""
    out = []
    for _ in range(rng.choice([0, 1, 1, 2, 3, maxn])):
        if rng.random() < 0.5:
            ch = rng.choice(PLAIN)
            out.append((ch, ch))
        elif mode == "f":
            if rng.random() < 0.12:       # an escaped backslash directly before N and a brace / field
                out += [("\\\\", "\\")] * rng.choice([1, 1, 2]) + [("N", "N")]
                if rng.random() < 0.5:
                    out.append(("{{", "{"))
                else:
                    break                 # the literal ends here, a field follows
            else:
                out.append(rng.choice(ESC_ATOMS))
        else:
            atom = rng.choice(RAW_ATOMS + ([('"', '"'), ("]", "]")] if mode == "br" else []))
            out.append(atom)
    return out


SPEC_LIT = {
    "int": ["d", "x", "X", "o", "b", "c", "n", "e", ".2f", ",", "_", "+", "-", " ", "#", "0", "%"],
    "float": ["f", "F", "e", "E", "g", "G", "%", "n", ",", "_", "+", " ", "0", ".3", ".0"],
    "str": ["s", ".2", ".0", ".10"],
    "complex": ["f", "e", "g", ".2", "+"],
}
ALIGN = ["<", ">", "^", "="]
FILLS = ["*", "_", " ", "x", "0", "é", "~", "!", ":", "."]


def gen_spec(rng, ty, depth, mode="f"):
    """Parts: ("lit", hy, py) | ("field", field)."""
    parts = []

    def lit(s):
        parts.append(["lit", s, s])

    def nested(name, conv=None, spec=None):
        parts.append(["field", {"e": [name, name, "int", True], "conv": conv, "debug": None,
                                "spec": spec, "ws": ["", "", ""]}])

    def maybe_nested(literal, name, p=0.4):
        if rng.random() < p:
            sub = None
            if depth < 2 and rng.random() < 0.25:
                sub = [["lit", "", ""]]       # an empty nested spec: {w :}
                if rng.random() < 0.5:
                    sub = [["field", {"e": ["zero", "zero", "int", True], "conv": None, "debug": None,
                                      "spec": None, "ws": ["", "", ""]}]]
            nested(name, rng.choice([None, None, None, "s", "r"]), sub)
        else:
            lit(literal)
    if ty == "dt":
        lit(rng.choice(["%Y-%m-%d", "%H:%M:%S", "%j %a", "%Y", "%d/%m/%y %H:%M", "%%", "%B"]))
        if rng.random() < 0.2:
            maybe_nested("", "w", 1.0)
        return parts
    if ty == "C":
        for _ in range(rng.choice([1, 2, 3])):
            if rng.random() < 0.5:
                lit("".join(rng.choice(list("ab <>^!:=.,%#x9")) for _ in range(rng.randint(1, 4))))
            else:
                maybe_nested("", rng.choice(["w", "p", "fill", "al"]), 1.0)
        return parts
    if ty == "obj":
        ty = "str" if rng.random() < 0.7 else "none"
    if ty == "none":
        return [["lit", "", ""]] if rng.random() < 0.5 else []
    if rng.random() < 0.5:
        if rng.random() < 0.7:
            maybe_nested(rng.choice(FILLS), "fill", 0.3)
        maybe_nested(rng.choice(ALIGN[:3] if ty == "str" or rng.random() < 0.8 else ALIGN), "al", 0.25)
    if ty in ("int", "float", "complex") and rng.random() < 0.3:
        lit(rng.choice(["+", "-", " "]))
    if ty in ("int", "float") and rng.random() < 0.15:
        lit(rng.choice(["#", "0"]))
    if rng.random() < 0.7:
        maybe_nested(str(rng.choice([1, 5, 8, 12, 20])), "w", 0.45)
    if ty in ("int", "float") and rng.random() < 0.2:
        lit(rng.choice([",", "_"]))
    if ty in ("float", "complex", "str") and rng.random() < 0.5:
        lit(".")
        maybe_nested(str(rng.choice([0, 1, 3, 6])), "p", 0.45)
    if rng.random() < 0.6:
        lit(rng.choice(SPEC_LIT[ty]) if rng.random() < 0.3 else
            {"int": rng.choice("dxXob"), "float": rng.choice("feEgG%"), "str": "s",
             "complex": rng.choice("feg")}[ty])
    if mode == "f" and rng.random() < 0.12:
        al = rng.choice("<>^")                                       # named escape as fill character
        parts[:0] = [["lit", "\\N{BULLET}", "\\N{BULLET}"], ["lit", al, al]]
    return parts


def gen_field(rng, depth=0, mode="f"):
    e = list(rng.choice(EXPRS))
    conv = rng.choice([None, None, None, "r", "s", "a"])
    ty = e[2] if conv is None else "str"
    debug = None
    if e[3] and rng.random() < 0.3:
        symlike = not e[0].endswith('"')
        debug = [rng.choice(["", " ", "  ", "\t"]), rng.choice([" ", "  ", "\t"] if symlike else ["", " "]),
                 rng.choice(["", " ", "  "])]
    spec = gen_spec(rng, ty, depth + 1, mode) if rng.random() < 0.55 else None
    if debug is not None and conv is None and spec is None:
        pass        # implicit !r
    ws = [rng.choice(["", "", " ", "  ", "\n"]), rng.choice(["", " ", "  "]), rng.choice(["", "", " "])]
    return {"e": e, "conv": conv, "debug": debug, "spec": spec, "ws": ws}


def render_field(f, lang):
    hy_e, py_e = f["e"][0], f["e"][1]
    symlike = not hy_e.endswith(('"', ")", "]", "}"))
    spec = ""
    if f["spec"] is not None:
        spec = ":" + "".join(p[1 if lang == "hy" else 2] if p[0] == "lit" else render_field(p[1], lang)
                             for p in f["spec"])
    conv = "!" + f["conv"] if f["conv"] else ""
    if f["debug"] is not None:
        ws1, ws2, ws3 = f["debug"]
        head = "{" + ws1 + (hy_e if lang == "hy" else py_e) + ws2 + "=" + ws3
        gap = f["ws"][2] if lang == "hy" and conv and spec else ""
        return head + conv + gap + spec + "}"
    if lang == "py":
        lead = " " if py_e.startswith("{") else ""
        return "{" + lead + py_e + conv + spec + "}"
    a, b, c = f["ws"]
    if hy_e.startswith("{") and not a:
        a = " "
    if symlike and (conv or spec) and not b:
        b = " "
    return "{" + a + hy_e + b + conv + (c if conv and spec else "") + spec + "}"


def render(struct, lang):
    mode, delim = struct["mode"], struct.get("delim")
    body = []
    for part in struct["parts"]:
        if part[0] == "lit":
            if lang == "hy":
                body.append("".join(a[0] for a in part[1]))
            else:
                body.append(py_lit("".join(a[1] for a in part[1])))
        else:
            body.append(render_field(part[1], lang))
    body = "".join(body)
    if lang == "py":
        return 'f"' + body + '"'
    if mode == "f":
        return 'f"' + body + '"'
    if mode == "rf":
        return struct.get("prefix", "rf") + '"' + body + '"'
    lead = "\n" if body.startswith("\n") or struct.get("lead") else ""
    return "#[" + delim + "[" + lead + body + "]" + delim + "]"


def field_features(f, nested=False):
    feats = set()
    if f["conv"]:
        feats.add("conv")
    if f["debug"] is not None:
        feats.add("debug")
    if f["spec"] is not None:
        feats.add("spec")
        for p in f["spec"]:
            if p[0] == "field":
                feats.add("nested-spec")
                if p[1]["spec"] is not None:
                    feats.add("nested-spec-2")
                if p[1]["conv"]:
                    feats.add("nested-conv")
            elif "\\N{" in p[1]:
                feats.add("spec-named-escape")
    if "\n" in f["e"][0] or ";" in f["e"][0] or any(w for w in f["ws"]):
        feats.add("layout")
    return feats


MALFORMED = [
    ("unknown-conversion", ["{a !z}", "{a !R}", "{a !1}", "{s !x :>5}", "{a !é}"]),
    ("empty-field", ["{}", "{ }", "{\n}", "x{}y"]),
    ("junk-after-conversion", ["{a !rr}", "{a !r x}", "{a !r!s}", "{a !sa :>5}"]),
    ("single-close-brace", ["ab}cd", "}", "{a}}", "{{a}", "x}}}"]),
    ("missing-conversion", ["{a !}", "{a !:>5}", "{a ! r}"]),
    ("junk-after-form", ["{a b}", "{a = b}", "{a =x}", "{(+ a 1) 2}", "{a =! r}"]),
    ("unterminated-field", ["{a", "{a :>5", "abc{", "{a !r", "{a :{w}"]),
]


# Deterministic regression inputs: the witnesses of the repaired reader mechanisms (known_findings.json,
# status fixed) with variations of neighbours, position and field features.
def _fld(hy, py=None, ty="int", conv=None, debug=None, spec=None):
    return ["field", {"e": [hy, py or hy, ty, py is None], "conv": conv, "debug": debug, "spec": spec,
                      "ws": ["", "", ""]}]


def _lit(*atoms):
    return ["lit", [list(a) if isinstance(a, tuple) else [a, a] for a in atoms]]


BS, LB, RB, BUL = ("\\\\", "\\"), ("{{", "{"), ("}}", "}"), ("\\N{BULLET}", "\u2022")
_NB = ["lit", "\\N{BULLET}", "\\N{BULLET}"]


def _sl(text):
    return ["lit", text, text]


REGRESS = {
    "fstring-escaped-backslash-before-N-brace": [
        [_lit(BS, "N", LB, "x", RB)],                               # f"\\N{{x}}"
        [_lit(BS, "N"), _fld("a")],                                 # f"\\N{a}"
        [_lit(BS, BS, "N", LB)],
        [_lit("a", BS, "N"), _fld("s", ty="str", conv="r"), _lit("z")],
        [_lit(BS, "N"), _fld("x", ty="float", spec=[_sl(">"), _sl("9"), _sl(".2f")])],
        [_lit(BUL, BS, "N", LB, RB)],
        [_lit(BS, BS, BS, "N"), _fld("a", debug=["", " ", ""])],
        [_fld("a"), _lit(BS, "N", LB), _fld("b")],
        [_lit(BS, BUL)],                                            # escaped backslash, then a real \N{...}
        [_lit(("\\n", "\n"), BS, "N"), _fld("(+ a 1)", "a + 1")],
        [_lit(BS, "N", LB, "BULLET", RB)],
        [_lit(BS, "N"), _fld("s", ty="str", spec=[["field", _fld("fill")[1]], _sl("^"), ["field", _fld("w")[1]]])],
    ],
    "fspec-named-escape": [
        [_fld("1", spec=[_NB, _sl(">5")])],                         # f"{1 :\N{BULLET}>5}"
        [_fld("a", spec=[_NB, _sl(">"), ["field", _fld("w")[1]]])],
        [_fld("s", ty="str", conv="r", spec=[_NB, _sl("^9")])],
        [_fld("x", ty="float", spec=[_NB, _sl("<"), ["field", _fld("w")[1]], _sl("."), ["field", _fld("p")[1]], _sl("f")])],
        [_lit("a"), _fld("a", spec=[_NB, _sl(">5")]), _lit("z", RB)],
        [_fld("a", spec=[_NB, _sl(">5")]), _fld("b", spec=[_NB, _sl("<4")])],
        [_fld("a", debug=["", " ", " "], spec=[_NB, _sl("^7")])],
        [_fld("cobj", ty="C", spec=[_sl("a"), _NB, _sl("b"), _NB])],
        [_fld("s", ty="str", spec=[["lit", "\\N{LATIN SMALL LETTER X}", "\\N{LATIN SMALL LETTER X}"], _sl(">4")])],
        [_lit(BUL), _fld("a", spec=[_NB, _sl(">3")]), _lit(BUL)],
        [_fld("t", ty="str", conv="a", spec=[_NB, _sl(">"), ["field", dict(_fld("w")[1], conv="s")]])],
        [_lit(BS, "N"), _fld("a", spec=[_NB, _sl("=6")])],
    ],
}
REGRESS_TOTAL = {k: len(v) for k, v in REGRESS.items()}


def gate(tot, classes, extra, tier):
    missing = [k for k, n in REGRESS_TOTAL.items() if classes.get("regress:" + k, 0) < n]
    if missing:
        return "regression-inputs-did-not-all-run:" + ",".join(missing)


def cases(seed, tier, shard, nshards):
    n = 0
    for key, structs in REGRESS.items():
        for parts in structs:
            n += 1
            if n % nshards == shard:
                struct = {"mode": "f", "parts": parts}
                yield {"kind": "pair", "regress": key, "struct": struct,
                       "hy": render(struct, "hy"), "py": render(struct, "py")}
    for cls, bodies in MALFORMED:
        for body in bodies:
            for wrap in ('f"%s"', "#[f[%s]f]", 'rf"%s"', 'f"ok {b} %s"'):
                n += 1
                if n % nshards == shard:
                    yield {"kind": "malformed", "cls": cls, "hy": wrap % body}
    i = 0
    while True:
        rng = rng_for(seed, ID, shard, i)
        i += 1
        mode = rng.choice(["f", "f", "f", "rf", "br", "br"])
        struct = {"mode": mode, "parts": []}
        if mode == "br":
            struct["delim"] = rng.choice(["f", "f", "f-x", "f-", "f-f f"])
            struct["lead"] = rng.random() < 0.2
        if mode == "rf":
            struct["prefix"] = rng.choice(["rf", "fr"])
        nf = rng.choice([1, 1, 1, 2, 2, 3, 4])
        for k in range(nf):
            lit = gen_literal(rng, mode)
            if lit:
                struct["parts"].append(["lit", lit])
            struct["parts"].append(["field", gen_field(rng, 0, mode)])
        lit = gen_literal(rng, mode)
        if mode == "rf":
            while lit and lit[-1][1].endswith("\\"):
                lit.pop()
        if lit:
            struct["parts"].append(["lit", lit])
        hy_text = render(struct, "hy")
        if mode == "br":
            closer = "]" + struct["delim"] + "]"
            inner = hy_text[len(struct["delim"]) + 3:-len(closer)]
            if (inner + closer).index(closer) != len(inner):
                continue        # the content would close the bracket string early
        yield {"kind": "pair", "struct": struct, "hy": hy_text, "py": render(struct, "py")}


_state = {"events": 0, "patched": False}


def setup_worker(tier, seed):
    """Secondary monitor: count fields the reader parses (skipped if the internal moved)."""
    try:
        from hy.reader.hy_reader import HyReader
        orig = HyReader.read_fcomponent

        def counting(self, *a, **k):
            _state["events"] += 1
            return orig(self, *a, **k)
        HyReader.read_fcomponent = counting
        _state["patched"] = True
    except Exception:
        _state["patched"] = False


def compare(hy_text, py_text):
    """Returns (status, why): True agree, False violation, None twin unusable."""
    env = make_env()
    pm, pexc, pphase = exec_py("RESULT = " + py_text, dict(env))
    if pphase == "compile":
        return None, f"python twin does not compile: {pexc}"
    hm, hexc, _, hphase = exec_hy("(setv RESULT " + hy_text + ")", dict(env))
    if not _state["patched"]:
        _state["events"] += 1
    if pexc is not None:
        if hexc is None:
            return False, (f"python raises {type(pexc).__name__}: {pexc}; hy gives "
                           f"{hm.__dict__.get('RESULT')!r}")
        if hphase == "compile" or type(hexc).__name__ != type(pexc).__name__:
            return False, (f"python raises {type(pexc).__name__}: {pexc}; hy raises at {hphase} "
                           f"{type(hexc).__name__}: {str(hexc)[:300]}")
        return True, None
    exp = pm.__dict__.get("RESULT")
    if hexc is not None:
        return False, (f"hy raises at {hphase} {type(hexc).__name__}: {str(hexc).strip()[-300:]}; "
                       f"python gives {exp!r}")
    got = hm.__dict__.get("RESULT", "<unset>")
    if type(got) is not str or got != exp:
        return False, f"hy gives {got!r}, python gives {exp!r}"
    return True, None


# --- mechanism attribution over the structure ---------------------------------

def _lits(struct):
    return [p[1] for p in struct["parts"] if p[0] == "lit"]


def _has_bs_n_brace(struct):
    """An escaped backslash directly followed by N{ in a non-raw f-string."""
    return struct["mode"] == "f" and bool(re.search(r"(?<!\\)(\\\\)+N\{", render(struct, "hy")))


def _n_bs_n_brace(struct):
    parts = [["lit", [("M", "M") if tuple(a) == ("N", "N") else tuple(a) for a in p[1]]] if p[0] == "lit" else p
             for p in struct["parts"]]
    return dict(struct, parts=parts)


def _map_fields(struct, f):
    def fld(x):
        x = dict(x)
        if x["spec"] is not None:
            x["spec"] = [[p[0], fld(p[1])] if p[0] == "field" else list(p) for p in x["spec"]]
        return f(x)
    return dict(struct, parts=[[p[0], fld(p[1])] if p[0] == "field" else p for p in struct["parts"]])


def _has_spec_named(struct):
    found = []

    def f(x):
        if x["spec"] and any(p[0] == "lit" and "\\N{" in p[1] for p in x["spec"]):
            found.append(1)
        return x
    _map_fields(struct, f)
    return bool(found) and struct["mode"] == "f"


def _n_spec_named(struct):
    def f(x):
        if x["spec"]:
            x["spec"] = [["lit", p[1].replace("\\N{BULLET}", "*"), p[2].replace("\\N{BULLET}", "*")]
                         if p[0] == "lit" else p for p in x["spec"]]
        return x
    return _map_fields(struct, f)


NORMALISERS = [
    ("fstring-escaped-backslash-before-N-brace", _has_bs_n_brace, _n_bs_n_brace),
    ("fspec-named-escape", _has_spec_named, _n_spec_named),
]


def run_case(case):
    from hy.errors import HyLanguageError
    ev0 = _state["events"]
    if case["kind"] == "malformed":
        m, exc, _, phase = exec_hy("(setv RESULT " + case["hy"] + ")", make_env())
        if not _state["patched"]:
            _state["events"] += 1
        res = {"ok": True, "nontrivial": False, "classes": ["malformed", "malformed:" + case["cls"]],
               "events": _state["events"] - ev0 + 1}
        if exc is None:
            res.update(ok=False, why=f"malformed f-string accepted; value {m.__dict__.get('RESULT')!r}")
        elif phase != "compile" or not isinstance(exc, HyLanguageError):
            res.update(ok=False, why=f"malformed f-string raised {type(exc).__name__} at {phase}, "
                                     f"not a Hy syntax error: {str(exc)[:300]}")
        else:
            res["classes"].append("malformed-error:" + type(exc).__name__)
        return res
    struct = case["struct"]
    feats, nontrivial = set(), False
    for p in struct["parts"]:
        if p[0] == "field":
            ff = field_features(p[1])
            feats |= ff
            if len(ff & {"conv", "debug", "spec", "layout"}) >= 2 or "nested-spec" in ff:
                nontrivial = True
        else:
            hy_lit = "".join(a[0] for a in p[1])
            for tag, pat in (("lit-brace-escape", "{{"), ("lit-brace-escape", "}}"), ("lit-named-escape", "\\N{"),
                             ("lit-backslash", "\\"), ("lit-newline", "\n")):
                if pat in hy_lit:
                    feats.add(tag)
    classes = ["mode:" + struct["mode"]] + (["regress:" + case["regress"]] if "regress" in case else []) \
        + sorted(feats)
    status, why = compare(case["hy"], case["py"])
    if status is None:
        return {"ok": None, "classes": ["skip:python-twin-does-not-compile"]}
    res = {"ok": status, "nontrivial": nontrivial, "classes": classes,
           "sample": {"hy": case["hy"], "py": case["py"]}}
    if status is False:
        res["why"] = f"{why} | hy: {case['hy']!r} | py: {case['py']!r}"[:1500]
        key, causes = attribute(
            struct, lambda s: compare(render(s, "hy"), render(s, "py"))[0] is False, NORMALISERS, ID)
        if key:
            res["finding"] = key
            res["why"] += f" [mechanisms: {', '.join(causes)}]"
            classes.append("finding:" + key)
    res["events"] = _state["events"] - ev0
    return res


def case_key(case):
    return case["hy"]


def finish_worker():
    return {"read_fcomponent_counter_attached": bool(_state["patched"])}
