"""C15 — loading a Hy module from cached byte-code behaves like compiling it.

History observed per generated package: process 1 imports the client modules
from source (byte-code writing enabled, own scratch PYTHONPYCACHEPREFIX),
process 2 (and, for a third of the quick cases and all thorough ones, process 3)
imports them again.  HY_MESSAGE_WHEN_COMPILING=1 makes hy say
which files it compiled, so the byte-code path is *positively detected*:
process 1 must report every client file, processes 2/3 none of the package's
files — otherwise the case is skipped (inconclusive), never "held".

Oracle: (differential) the dump of process 2 and 3 — module values, the
macros in `_hy_macros` with the identity (module, name) of the function behind
each alias, reader macros, the result of evaluating one macro call per alias
through `hy.eval … :module`, local macros seen through `(local-macros)` — equals
process 1's; (absolute, from docs/api.rst `require`) process 1 imported the
package and every alias the documented require shapes promise is present and
expands to the macro it names.

Extension clause: the same Hy-only / Python-only programs saved under many
file names and run through `hy FILE`, `python -m hy FILE`,
`hy.importer.runhy.run_path` and `import`; ran-as-Hy <=> os.path.splitext(name)[1]
is not one of importlib.machinery.SOURCE_SUFFIXES other than ".hy".

Carve-outs (beyond DESIGN §7):
* bare / `:as` requires only promise the *exported* macros (api.rst says "every
  macro", the code uses the export list; either reading satisfies the oracle);
* `(require pkg [submodule])` only promises the submodule's public macros;
* a relative require inside a function is never generated (hy cannot compile it;
  a module that does not compile is outside the property);
* `.pyc`-named text files are not part of the extension pool (byte-code suffix,
  not a source suffix — grey zone).
Finding key: `local-require-submodule` (see RISKY).
"""
import importlib.machinery
import json
import os

from hv.common import rng_for
from hv.proc import CaseDir, child_problem, compiled_paths, hy_script, python, skip_gate

ID = "C15"
LEVEL = "exploration"
RULE = ("generated packages: one macro module (3-7 macros; private, dashed, Unicode, ?/! names; optional "
        "_hy_export_macros via export/setv; reader macros) and two client modules that `require` it in the "
        "documented shapes {bare, :as, [names/:as] incl. the same macro named 2-3 times in one list, *, :macros, :readers, relative, pkg [submodule], several entries "
        "in one form, nested in do/when, inside a function (require_vals path)}, client B also requiring from client A; "
        "imported from source then once or twice more from the byte-code cache (positively detected via HY_MESSAGE_WHEN_COMPILING). "
        "Three packages share one trio of child processes (each package is one evaluation). "
        "Non-trivial = package whose clients use >= 2 distinct require shapes and whose byte-code path was detected; "
        "distinct by rendered files. Plus extension-clause cases (file names x {hy FILE, python -m hy FILE, "
        "runhy.run_path, import}).")
FLOOR = {"quick": 15, "thorough": 150}
BUDGET = {"quick": 40, "thorough": 480}
CASE_TIMEOUT = 400      # > 3 x 40 (trio) + 3 x 2 x 40 (attribution re-runs); ext: 8 x 30 + 2 x 40
NEEDS_EVENTS = True      # events = positive byte-code-path detections + extension-clause observations
ANCHORS = []   # the mechanisms run in child processes; in-process line probes cannot see them.
               # Reach is shown instead by what the children report (Compiling <path>, sys.argv, STAGE log).
ASSUMPTIONS = [
    "CPython's own .pyc machinery (marshal, mtime/size validation) behaves as documented",
    "HY_MESSAGE_WHEN_COMPILING=1 reports exactly the files compiled from source (DESIGN §2 spike)",
    "generated modules have no compile-time side effects (the property's premise)",
]
MANIFEST = {
    "text": "Generated packages (a macro module plus two client modules using every documented `require` shape, at module level and inside functions) are imported in a fresh process from source, then twice from the .pyc written to a per-case scratch PYTHONPYCACHEPREFIX; module values, the macros behind every alias in _hy_macros, reader macros, local macros and one evaluated macro call per alias must be identical, and match what docs/api.rst promises for each shape. The byte-code path is positively detected (Compiling <path> printed by process 1 only) or the case does not count. The extension clause is checked by running Hy-only and Python-only programs under many file names through hy FILE, python -m hy, runhy.run_path and import. Exploration: held on the packages run, nothing beyond.",
    "note": "Trusted: CPython's pyc validation/marshal; HY_MESSAGE_WHEN_COMPILING as the source/byte-code detector. Bounds: <=7 macros, 2 clients, <=7 require entries per client; suffix pool of ~25 names.",
    "technique": "runtime monitoring: differential history (source import vs cached import in fresh processes) with positive byte-code-path detection, plus docs-derived alias oracle",
}

PY_SUFFIXES = [s for s in importlib.machinery.SOURCE_SUFFIXES if s != ".hy"]

MACRO_NAMES = ["foo", "bar-baz", "qux?", "zap!", "αβγ", "CamelCase", "with-num-2", "*star*",
               "a->b", "naïve", "x_y", "up-", "<lt"]
PRIVATE_NAMES = ["_priv", "_hid-den", "__dunder", "_Ünder"]
MODULE_NAMES = ["macs", "mac-mod", "mαcros", "m-2-x", "Macros_"]
PKG_NAMES = ["pk", "my-pkg", "pkg2"]
PREFIXES = ["P", "M-x", "π", "Q2", "long-prefix-name", "pre_fix"]
ALIASES = ["al", "my-alias", "Al2", "zz?", "δelta", "ali_as", "set-it!"]
READER_NAMES = ["spiff", "r-2", "Rdr"]

BATCH = 3        # packages per trio of child processes (each package is one evaluation)
SHAPES = ["bare", "as", "names", "star", "mkw", "readers", "mkw+readers", "rel", "sub", "multi"]


def _mangle(s):
    import hy
    return hy.mangle(s)


def _pyname(hyname):
    return ".".join(_mangle(p) for p in hyname.split("."))


# ---------------------------------------------------------------------------
# generator

class Client:
    def __init__(self, hyname):
        self.hyname = hyname            # dotted Hy-level name
        self.lines = []
        self.aliases = {}               # module-level alias text -> source tag
        self.values = {}                # variable -> expected JSON value
        self.readers = set()
        self.shapes = set()
        self.nv = 0
        self.nalias = 0
        self.nfn = 0
        self.dups = set()               # aliases bound by a name list that repeats a source macro
        self.local_expect = {}          # variable -> {"prefix": [...], "locals": [mangled], "evals": [...]}

    def fresh_alias(self, rng):
        # unique per client *and* distinct from the other client's aliases (client B requires
        # client A's aliases by name)
        self.nalias += 1
        return f"{rng.choice(ALIASES)}{self.nalias}{self.hyname[-1]}"

    def fresh_prefix(self, rng):
        self.nalias += 1
        return f"{rng.choice(PREFIXES)}{self.nalias}{self.hyname[-1]}"


def gen_entry(rng, shape, src, cl, in_pkg):
    """One require entry for source description `src`:
    {"hy": dotted Hy name, "rel": relative spelling or None, "pkg": pkg hy name or None,
     "leaf": leaf hy name, "all": {macro text: tag}, "exports": [macro text], "readers": [names]}.
    Returns (entry text, {alias text: tag}, [reader names]) or None if the shape is not applicable."""
    S = src["hy"]
    allm, exp = src["all"], src["exports"]
    bare_names = [m for m in allm if "." not in m]
    if shape == "bare":
        return S, {f"{S}.{m}": allm[m] for m in exp}, [], None
    if shape == "as":
        p = cl.fresh_prefix(rng)
        return f"{S} :as {p}", {f"{p}.{m}": allm[m] for m in exp}, [], None
    if shape in ("names", "mkw", "mkw+readers", "rel"):
        if not bare_names or (shape == "mkw+readers" and not src["readers"]):
            return None
        if shape == "rel":
            if not src.get("rel"):
                return None
            S = src["rel"]
            if rng.random() < 0.3:
                p = cl.fresh_prefix(rng)
                return (f"{S} :as {p}", {f"{p}.{m}": allm[m] for m in exp}, [],
                        f"{src['hy']} :as {p}")
        picks = rng.sample(bare_names, min(len(bare_names), rng.randint(1, 3)))
        # a third module prefers an alias that the source module got from a repeated name
        pref = [d for d in src.get("dups", ()) if d in bare_names]
        if pref and rng.random() < 0.7:
            d = rng.choice(pref)
            if d not in picks:
                picks[rng.randrange(len(picks))] = d
        entries = []                      # (source macro, alias) in textual order
        for m in picks:
            if rng.random() < 0.55:
                a = cl.fresh_alias(rng)
                # sometimes alias to the name of *another* macro of the source module
                if rng.random() < 0.25:
                    others = [o for o in bare_names if o not in picks and o not in cl.aliases
                              and not o.startswith("_")]
                    if others:
                        a = rng.choice(others)
                entries.append((m, a))
            else:
                entries.append((m, m))
        if rng.random() < 0.4:
            # the same source macro named more than once in one list: plain + aliased, two or
            # three different aliases; every alias must be bound, at compile time and at run time
            m = rng.choice(picks)
            for _ in range(rng.choice([1, 1, 2])):
                plain_ok = (m, m) not in entries and m not in cl.aliases and \
                    all(a != m for _, a in entries)
                e = (m, m) if (plain_ok and rng.random() < 0.25) else (m, cl.fresh_alias(rng))
                entries.insert(rng.randrange(len(entries) + 1), e)
            cl.dups |= {a for m_, a in entries if m_ == m}
            cl.shapes.add("dup-names")
        parts = [m if a == m else f"{m} :as {a}" for m, a in entries]
        al = {}
        for m, a in entries:              # later entries rebind, as in Python's import lists
            al[a] = allm[m]
        kw = ":macros " if shape in ("mkw", "mkw+readers") or rng.random() < 0.15 else ""
        text = f"{S} {kw}[{' '.join(parts)}]"
        rd = []
        if shape == "mkw+readers":
            if not src["readers"]:
                return None
            rd = rng.sample(src["readers"], rng.randint(1, len(src["readers"])))
            text += f" :readers [{' '.join(rd)}]"
        return text, al, rd, (text.replace(S, src["hy"], 1) if shape == "rel" else None)
    if shape == "star":
        kw = ":macros " if rng.random() < 0.2 else ""
        return f"{S} {kw}*", {m: allm[m] for m in exp}, [], None
    if shape == "readers":
        if not src["readers"]:
            return None
        if rng.random() < 0.4:
            return f"{S} :readers *", {}, list(src["readers"]), None
        rd = rng.sample(src["readers"], rng.randint(1, len(src["readers"])))
        return f"{S} :readers [{' '.join(rd)}]", {}, rd, None
    if shape == "sub":
        if not src.get("pkg") or src.get("nosub"):
            return None
        leaf = src["leaf"]
        if rng.random() < 0.5:
            z = cl.fresh_prefix(rng)
            return (f"{src['pkg']} [{leaf} :as {z}]",
                    {f"{z}.{m}": allm[m] for m in exp if not _mangle(m).startswith("_")}, [],
                    f"{S} :as {z}")
        return (f"{src['pkg']} [{leaf}]",
                {f"{leaf}.{m}": allm[m] for m in exp if not _mangle(m).startswith("_")}, [],
                f"{S} :as {leaf}")
    raise ValueError(shape)


PLAIN_VALUES = [
    ("1", 1), ("-7", -7), ("3.5", 3.5), ('"plain"', "plain"), ('"ünï ✓"', "ünï ✓"),
    ("[1 2 [3]]", [1, 2, [3]]), ("(+ 1 2)", 3), ('(.upper "abc")', "ABC"),
    ('{"a" 1 "b" [2]}', {"a": 1, "b": [2]}), ("None", None), ("True", True),
    ('(lfor x (range 4) (* x x))', [0, 1, 4, 9]), ('f"{(+ 1 1)}-{2 :03}"', "2-002"),
    ('(len (str (quote (a b))))', None), ("(. :kw name)", "kw"),
    ('((fn [a [b 2]] (* a b)) 4)', 8), ('(hy.I.math.floor 2.5)', 2),
]


def emit_uses(rng, cl, aliases, limit):
    names = list(aliases)
    rng.shuffle(names)
    names.sort(key=lambda a: a not in cl.dups)      # aliases from repeated names are always used
    for a in names[:max(limit, len([a for a in names if a in cl.dups]))]:
        cl.nv += 1
        n = rng.randint(0, 99)
        cl.lines.append(f"(setv v{cl.nv} ({a} {n}))")
        cl.values[f"v{cl.nv}"] = [aliases[a], n]


# Shapes hy is known to mishandle inside a function.  `(require pkg [submodule])` compiles but the
# emitted run-time require_vals call does not mirror it (finding, generated rarely, with its own
# normaliser).  Carve-out: a *relative* require inside a function is never generated — hy cannot
# compile it at all (no package is passed to importlib on the local-macro path), and a module that
# does not compile is outside this property.
RISKY = {"sub": "local-require-submodule"}
NEVER_LOCAL = ("readers", "mkw+readers", "rel")


def gen_client(rng, cl, sources, in_pkg, want_shapes, state):
    """Fill client `cl` with require forms over `sources` and uses of the macros.
    state["risky"]: at most one require per package is a shape hy is known to
    mishandle inside a function (see RISKY); it carries its own normaliser."""
    # an own macro and some plain values
    own = f"own-{cl.hyname.split('.')[-1]}"
    cl.lines.append(f'(defmacro {own} [x] `["{own}" ~x])')
    cl.aliases[own] = own
    for _ in range(rng.randint(1, 3)):
        text, val = rng.choice(PLAIN_VALUES)
        cl.nv += 1
        cl.lines.append(f"(setv p{cl.nv} {text})")
        if val is not None or text == "None":
            cl.values[f"p{cl.nv}"] = val
    shapes = list(want_shapes)
    rng.shuffle(shapes)
    for shape in shapes:
        src = rng.choice(sources)
        local = rng.random() < 0.3 and shape not in NEVER_LOCAL
        if local and shape in RISKY and (state.get("risky") or rng.random() > 0.12):
            local = False
        if shape == "multi":
            subs = []
            for sh in rng.sample(["bare", "as", "names", "star", "mkw"] + (["rel"] if not local else []), 2):
                e = gen_entry(rng, sh, rng.choice(sources), cl, in_pkg)
                if e:
                    subs.append(e)
            if not subs:
                continue
            text = "\n         ".join(e[0] for e in subs)
            al = {}
            for e in subs:
                al.update(e[1])
            rd, norm = [], None
        else:
            e = gen_entry(rng, shape, src, cl, in_pkg)
            if e is None:
                continue
            text, al, rd, norm = e
        if local and shape in RISKY:
            state["risky"] = {"key": RISKY[shape], "file": cl.hyname,
                              "old": f"(require {text})", "new": f"(require {norm})"}
            cl.shapes.add("local-" + shape)
        cl.shapes.add(shape)
        if local:
            cl.shapes.add("local")
            cl.nfn += 1
            fn = f"fn{cl.nfn}"
            names = list(al)
            rng.shuffle(names)
            names = names[:4]
            calls, exp = [], []
            for a in names:
                n = rng.randint(100, 199)
                calls.append(f"({a} {n})")
                exp.append([al[a], n])
            evals, eexp = [], []
            for a in names[:2]:
                n = rng.randint(200, 299)
                evals.append(f"(hy.eval '({a} {n}) :macros (local-macros))")
                eexp.append([al[a], n])
            cl.lines.append(
                f"(defn {fn} []\n  (require {text})\n  [[{' '.join(calls)}]\n"
                f"   (dfor [k v] (.items (local-macros)) k [v.__module__ v.__name__])\n"
                f"   [{' '.join(evals)}]])")
            cl.nv += 1
            cl.lines.append(f"(setv w{cl.nv} ({fn}))")
            cl.local_expect[f"w{cl.nv}"] = {
                "calls": exp, "evals": eexp,
                "locals": {_mangle(a): _mangle(al[a]) for a in al}}
            continue
        wrap = rng.random()
        form = f"(require {text})"
        if wrap < 0.12:
            form = f"(do {form})"
            cl.shapes.add("in-do")
        elif wrap < 0.22:
            form = f"(when True {form})"
            cl.shapes.add("in-when")
        cl.lines.append(form)
        cl.aliases.update(al)
        for r in rd:
            cl.readers.add(r)
            cl.nv += 1
            n = rng.randint(300, 399)
            cl.lines.append(f"(setv v{cl.nv} #{r} {n})")
            cl.values[f"v{cl.nv}"] = [f"reader:{r}", n]
        emit_uses(rng, cl, al, 3)
    emit_uses(rng, cl, cl.aliases, 4)


def gen_pkg(rng, tier, slot=0):
    # packages of one batch share the child processes, so their top-level names differ by slot;
    # only slot 0 may be a flat (package-less) layout
    pkg = PKG_NAMES[slot] if (slot or rng.random() < 0.75) else None
    leaf = rng.choice(MODULE_NAMES)
    mac_hy = f"{pkg}.{leaf}" if pkg else leaf
    nm = rng.randint(3, 7)
    names = rng.sample(MACRO_NAMES, nm - 1) + [rng.choice(PRIVATE_NAMES)]
    if rng.random() < 0.4:
        names.append(rng.choice([p for p in PRIVATE_NAMES if p not in names]))
    rng.shuffle(names)
    readers = rng.sample(READER_NAMES, rng.choice([0, 1, 1, 2]))
    lines = []
    for n in names:
        lines.append(f'(defmacro {n} [x] `["{n}" ~x])')
    for r in readers:
        lines.append(f'(defreader {r} (setv form (.parse-one-form &reader)) `["reader:{r}" ~form])')
    lines.append('(defn helper [x] (+ x 1))')
    ev = rng.choice(["none", "none", "export", "setv"])
    if ev == "none":
        exports = [n for n in names if not _mangle(n).startswith("_")]
    else:
        exports = [n for n in names if rng.random() < 0.6] or [names[0]]
        if ev == "export":
            lines.insert(rng.randrange(len(lines) + 1), f"(export :macros [{' '.join(exports)}])")
        else:
            lst = " ".join(json.dumps(_mangle(n), ensure_ascii=False) for n in exports)
            lines.append(f"(setv _hy_export_macros [{lst}])")
    files = {}
    pdir = (_mangle(pkg) + "/") if pkg else ""
    if pkg:
        files[pdir + rng.choice(["__init__.py", "__init__.hy"])] = ""
    files[pdir + _mangle(leaf) + ".hy"] = "\n".join(lines) + "\n"
    src_mac = {"hy": mac_hy, "rel": ("." + leaf) if pkg else None, "pkg": pkg, "leaf": leaf,
               "all": {n: n for n in names}, "exports": exports, "readers": readers}

    # which shapes each client gets (stratified so that >= 2 shapes are present)
    applicable = [s for s in SHAPES if pkg or s not in ("rel", "sub")]
    ka = rng.randint(2, 5)
    shapes_a = rng.sample(applicable, ka)
    a_leaf, b_leaf = "cl-a", rng.choice(["cl-b", "clientB", "cl_β"])
    a_hy = f"{pkg}.{a_leaf}" if pkg else a_leaf
    b_hy = f"{pkg}.{b_leaf}" if pkg else b_leaf
    A = Client(a_hy)
    state = {"risky": None}
    gen_client(rng, A, [src_mac], bool(pkg), shapes_a, state)
    a_exports = [a for a in A.aliases if not _mangle(a).startswith("_")]
    src_a = {"hy": a_hy, "rel": ("." + a_leaf) if pkg else None, "pkg": pkg, "leaf": a_leaf,
             "all": dict(A.aliases), "exports": a_exports, "readers": sorted(A.readers),
             "nosub": False, "dups": sorted(d for d in A.dups if d in A.aliases)}
    B = Client(b_hy)
    kb = rng.randint(1, 4)
    shapes_b = rng.sample(applicable, kb)
    gen_client(rng, B, [src_mac, src_a], bool(pkg), shapes_b, state)
    files[pdir + _mangle(a_leaf) + ".hy"] = "\n".join(A.lines) + "\n"
    files[pdir + _mangle(b_leaf) + ".hy"] = "\n".join(B.lines) + "\n"
    order = [b_hy, a_hy] if rng.random() < 0.6 else [a_hy, b_hy]
    expect = {}
    for cl in (A, B):
        expect[_pyname(cl.hyname)] = {
            "values": cl.values,
            "macros": {_pyname(a) if "." in a else _mangle(a): _mangle(t) for a, t in cl.aliases.items()},
            "readers": sorted(cl.readers),
            "probes": {a: t for a, t in cl.aliases.items()},
            "locals": cl.local_expect,
        }
    shapes = sorted(A.shapes | B.shapes)
    risky = state["risky"]
    if risky:
        leafname = risky["file"].split(".")[-1]
        risky["file"] = pdir + _mangle(leafname) + ".hy"
    return {
        "nproc": 3 if (tier == "thorough" or rng.random() < 0.34) else 2,
        "risky": risky,
        "kind": "pkg", "files": files,
        "imports": [_pyname(m) for m in order],
        "clients": [_pyname(a_hy), _pyname(b_hy)],
        "client_files": [pdir + _mangle(a_leaf) + ".hy", pdir + _mangle(b_leaf) + ".hy"],
        "mac_file": pdir + _mangle(leaf) + ".hy",
        "expect": expect, "shapes": shapes,
    }


HY_PROG = '(setv x 20)\n(print "RAN-HY" (+ x 1))\n'
PY_PROG = 'x = 20\nprint("RAN-PY", x + 1)\n'

EXT_NAMES_HY = ["p.hy", "p", "p.txt", "p.hyx", "p.pyw", "p.HY", "p.PY", "p.Py", "p.py3", "p.py.hy",
                "p.hy.bak", "p.", "p.pyx", "p.lisp", "p.pyi", "p.py~", "p.ipy", ".hidden",
                "dir.py/p", "dir.py/q.hy", "a.b.c", "p.pY", "p.hy ", "p.py.txt", "p.python"]
EXT_NAMES_PY = ["p.py", "p.hy.py", "a.b.py", "dir.hy/q.py", ".x.py", "p.txt.py"]
ROUTES = ["hy", "pymhy", "runhy"]


def gen_ext(rng, tier):
    names = rng.sample(EXT_NAMES_HY, 2) + rng.sample(EXT_NAMES_PY, 1)
    if rng.random() < 0.3:
        # a random suffix drawn from letters; classified by the same rule
        suf = "." + "".join(rng.choice("hypHYPx3w") for _ in range(rng.randint(1, 3)))
        names.append("r" + suf)
    route = rng.choice(ROUTES)
    return {"kind": "ext", "names": names, "route": route, "with_import": rng.random() < 0.5}


def cases(seed, tier, shard, nshards):
    i = k = 0
    while True:
        k += 1
        # the gate-bearing class (extension clause) comes first in every shard, then every 5th case
        if k % 5 == 1:
            rng = rng_for(seed, ID, shard, i)
            i += 1
            yield gen_ext(rng, tier)
            continue
        pkgs = []
        for slot in range(BATCH):
            rng = rng_for(seed, ID, shard, i)
            i += 1
            pkgs.append(gen_pkg(rng, tier, slot))
        yield {"kind": "batch", "pkgs": pkgs, "nproc": pkgs[0]["nproc"]}


def case_key(case):
    if case["kind"] == "batch":
        return [p["files"] for p in case["pkgs"]]
    return case


# ---------------------------------------------------------------------------
# child driver (runs in a fresh interpreter)

DRIVER = r'''
import json, sys, os
specs = json.load(open(sys.argv[1], encoding="utf-8"))
outs = []

def tok(v, depth=0):
    import types
    if isinstance(v, float) and v != v:
        return ["float", "nan"]
    if isinstance(v, (bool, int, float, str, bytes, type(None), complex)):
        return [type(v).__name__, repr(v)]
    if isinstance(v, (list, tuple)):
        return [type(v).__name__, [tok(x, depth + 1) for x in v]]
    if isinstance(v, dict):
        return ["dict", [[tok(k), tok(x, depth + 1)] for k, x in v.items()]]
    if isinstance(v, (set, frozenset)):
        return [type(v).__name__, sorted(repr(x) for x in v)]
    if isinstance(v, types.FunctionType):
        return ["function", v.__module__, v.__name__]
    if isinstance(v, type):
        return ["class", v.__module__, v.__name__]
    if isinstance(v, types.ModuleType):
        return ["module", v.__name__]
    try:
        import hy
        if isinstance(v, hy.models.Object):
            return ["model", hy.repr(v)]
    except Exception:
        pass
    return ["object", type(v).__name__]

def plain(v):
    """JSON view of plain data (for the docs-derived expectations)."""
    if isinstance(v, (list, tuple)):
        return [plain(x) for x in v]
    if isinstance(v, dict):
        return {str(k): plain(x) for k, x in v.items()}
    if isinstance(v, (bool, int, float, str, type(None))):
        return v
    return "<" + type(v).__name__ + ">"

import importlib
import hy

def one(spec):
    out = {"ok": True, "mods": {}}
    sys.path.insert(0, spec["root"])
    for name in spec["imports"]:
        importlib.import_module(name)
    for name in spec["clients"]:
        m = sys.modules[name]
        d = {"values": {}, "plain": {}, "macros": {}, "readers": {}, "probes": {}}
        for k, v in vars(m).items():
            if k.startswith("_") or k == "hy":
                continue
            d["values"][k] = tok(v)
            d["plain"][k] = plain(v)
        for k, f in getattr(m, "_hy_macros", {}).items():
            d["macros"][k] = [getattr(f, "__module__", None), getattr(f, "__name__", None)]
        for k, f in getattr(m, "_hy_reader_macros", {}).items():
            d["readers"][k] = [getattr(f, "__module__", None), getattr(f, "__name__", None)]
        for alias in spec["probes"].get(name, []):
            try:
                r = hy.eval(hy.read("(" + alias + " 7)"), module=m)
                d["probes"][alias] = ["value", plain(r)]
            except BaseException as e:
                d["probes"][alias] = ["error", type(e).__name__, str(e)[:200]]
            try:
                r = hy.macroexpand(hy.read("(" + alias + " 7)"), m)
                d["probes"][alias].append(hy.repr(r))
            except BaseException as e:
                d["probes"][alias].append("error " + type(e).__name__)
        out["mods"][name] = d
    return out

for spec in specs:
    try:
        outs.append(one(spec))
    except BaseException as e:
        import traceback
        outs.append({"ok": False, "error": [type(e).__name__, str(e)[:400]],
                     "tb": traceback.format_exc()[-1200:]})
sys.stdout.write("@@DUMP@@" + json.dumps(outs) + "\n")
'''

EXT_DRIVER = r'''
import json, sys, os, io, contextlib
spec = json.load(open(sys.argv[1], encoding="utf-8"))
import hy, hy.importer
res = {}
if spec["mode"] == "runhy":
    for label, path in spec["paths"]:
        buf = io.StringIO()
        try:
            with contextlib.redirect_stdout(buf):
                hy.importer.runhy.run_path(path, run_name="__main__")
            res[label] = [0, buf.getvalue()]
        except BaseException as e:
            res[label] = [1, buf.getvalue(), type(e).__name__]
else:
    sys.path.insert(0, spec["root"])
    import importlib
    for label, modname in spec["mods"]:
        buf = io.StringIO()
        try:
            with contextlib.redirect_stdout(buf):
                importlib.import_module(modname)
            res[label] = [0, buf.getvalue()]
        except BaseException as e:
            res[label] = [1, buf.getvalue(), type(e).__name__]
sys.stdout.write("@@DUMP@@" + json.dumps(res) + "\n")
'''


def parse_dump(out):
    for line in out.splitlines():
        if line.startswith("@@DUMP@@"):
            try:
                return json.loads(line[len("@@DUMP@@"):])
            except ValueError:
                return None
    return None


# ---------------------------------------------------------------------------
# oracles

def first_diff(a, b, path=""):
    if type(a) is not type(b):
        return f"{path}: {a!r} != {b!r}"
    if isinstance(a, dict):
        for k in sorted(set(a) | set(b)):
            if k not in a:
                return f"{path}.{k}: missing in source-import run, cached run has {b[k]!r}"
            if k not in b:
                return f"{path}.{k}: present after source import ({a[k]!r}), missing after cached import"
            d = first_diff(a[k], b[k], f"{path}.{k}")
            if d:
                return d
        return None
    if isinstance(a, list):
        if len(a) != len(b):
            return f"{path}: {a!r} != {b!r}"
        for i, (x, y) in enumerate(zip(a, b)):
            d = first_diff(x, y, f"{path}[{i}]")
            if d:
                return d
        return None
    return None if a == b else f"{path}: {a!r} != {b!r}"


def check_absolute(case, dump):
    """docs/api.rst `require`: every alias promised by the shape is in
    _hy_macros, names the right macro, and its calls expanded to it."""
    for mod, exp in case["expect"].items():
        got = dump["mods"].get(mod)
        if got is None:
            return f"{mod}: not dumped"
        for k, v in exp["values"].items():
            if k not in got["plain"]:
                return f"{mod}.{k}: not defined after import from source"
            if got["plain"][k] != v:
                return f"{mod}.{k} = {got['plain'][k]!r}, expected {v!r}"
        for alias, tag in exp["macros"].items():
            if alias not in got["macros"]:
                return f"{mod}._hy_macros lacks {alias!r} promised by the require shapes used"
            if got["macros"][alias][1] != tag:
                return f"{mod}._hy_macros[{alias!r}] is {got['macros'][alias]} expected macro {tag!r}"
        for r in exp["readers"]:
            if r not in got["readers"]:
                return f"{mod}._hy_reader_macros lacks {r!r}"
        for alias, tag in exp["probes"].items():
            p = got["probes"].get(alias)
            if not p or p[0] != "value" or p[1] != [tag, 7]:
                return f"{mod}: evaluating ({alias} 7) with :module gave {p!r}, expected {[tag, 7]!r}"
        for var, le in exp["locals"].items():
            w = got["plain"].get(var)
            if not isinstance(w, list) or len(w) != 3:
                return f"{mod}.{var}: {w!r}"
            if w[0] != le["calls"]:
                return f"{mod}.{var}: local macro calls gave {w[0]!r}, expected {le['calls']!r}"
            if w[2] != le["evals"]:
                return f"{mod}.{var}: hy.eval with (local-macros) gave {w[2]!r}, expected {le['evals']!r}"
            for a, t in le["locals"].items():
                if a not in w[1] or w[1][a][1] != t:
                    return f"{mod}.{var}: (local-macros) has {w[1].get(a)!r} for {a!r}, expected macro {t!r}"
    return None


def observe(pkgs, files_list, nproc):
    """Write the packages (each under its own root), import them all in `nproc` fresh
    processes; returns one (verdict, why, events) per package: verdict True / False /
    None (inconclusive)."""
    with CaseDir("c15") as cd:
        roots, specs = [], []
        for j, (case, files) in enumerate(zip(pkgs, files_list)):
            root = os.path.join(cd.path, f"src{j}")
            roots.append(root)
            for rel, text in files.items():
                cd.write(os.path.join(f"src{j}", rel), text)
            specs.append({"root": root, "imports": case["imports"], "clients": case["clients"],
                          "probes": {m: sorted(e["probes"]) for m, e in case["expect"].items()}})
        drv = cd.write("_drv.py", DRIVER)
        spec = cd.write("_spec.json", json.dumps(specs))
        env = cd.env()
        runs = []
        for k in range(nproc):
            r = cd.run([python(), drv, spec], env=env, timeout=40)
            if child_problem(r):
                return [(None, child_problem(r), 0)] * len(pkgs)
            runs.append(r)
    dumps = [parse_dump(r["out"]) for r in runs]
    if any(d is None or len(d) != len(pkgs) for d in dumps):
        # the driver catches every exception, so a missing dump means the interpreter itself
        # died (killed, out of memory, ...): nothing was observed about hy -> skip
        return [(None, "child-no-dump", 0)] * len(pkgs)
    comp = [set(compiled_paths(r["err"])) for r in runs]
    out = []
    for j, case in enumerate(pkgs):
        out.append(judge_pkg(case, roots[j], [d[j] for d in dumps], comp))
    return out


def judge_pkg(case, root, dumps, comp):
    nproc = len(dumps)
    client_paths = [os.path.join(root, f) for f in case["client_files"]]
    mine = lambda s: {p for p in s if p.startswith(root + os.sep)}
    if not dumps[0]["ok"]:
        later = dumps[1] if nproc > 1 else None
        return False, (f"importing the package from source failed: {dumps[0]['error']}" + (
            "" if later is None else
            f" (cached import: {later.get('error') if not later['ok'] else 'succeeded'})")), 0
    # positive detection of the byte-code path
    if not all(p in comp[0] for p in client_paths) or any(mine(c) for c in comp[1:]):
        return None, "inconclusive:bytecode-path-not-detected", 0
    for k in range(1, nproc):
        if not dumps[k]["ok"]:
            return False, (f"import from cached byte-code (process {k + 1}) failed with "
                           f"{dumps[k]['error']} although the import from source succeeded"), 1
        d = first_diff(dumps[0]["mods"], dumps[k]["mods"], "")
        if d:
            return False, f"process {k + 1} (cached) differs from process 1 (source) at {d}", 1
    why = check_absolute(case, dumps[0])
    if why:
        return False, "source import does not give what docs/api.rst `require` promises: " + why, 1
    return True, None, 1


def run_batch(batch):
    pkgs = batch["pkgs"]
    res = {"ok": True, "nontrivial": False, "classes": [], "events": 0, "n": 0, "nt_keys": [],
           "sample": {"files": pkgs[0]["files"], "imports": pkgs[0]["imports"]}}
    verdicts = observe(pkgs, [p["files"] for p in pkgs], batch.get("nproc", 3))
    bad = []
    for case, (ok, why, ev) in zip(pkgs, verdicts):
        classes = ["pkg"] + ["shape:" + s for s in case["shapes"]]
        res["events"] += ev
        if ok is None:
            res["classes"] += classes + [why]
            continue
        res["n"] += 1
        if ev:
            classes.append("bytecode-path-detected")
            if len([s for s in case["shapes"] if s not in ("in-do", "in-when", "local", "local-sub", "dup-names")]) >= 2:
                res["nt_keys"].append(case["files"])
        if ok is False:
            finding = None
            risky = case.get("risky")
            if risky and risky["old"] in case["files"][risky["file"]]:
                # attribution: the package has the feature; does the violation disappear when
                # only that feature is normalised away (same require spelled absolutely)?
                files = dict(case["files"])
                files[risky["file"]] = files[risky["file"]].replace(risky["old"], risky["new"])
                (ok2, why2, _), = observe([case], [files], 2)
                if ok2 is True:
                    finding = risky["key"]
                    classes.append("finding:" + finding)
            bad.append((why, finding))
        res["classes"] += classes
    if res["n"] == 0:
        res["ok"] = None
        return res
    res["nontrivial"] = bool(res["nt_keys"])
    if bad:
        # an unattributed violation takes precedence over an attributed one
        bad.sort(key=lambda x: x[1] is not None)
        res.update(ok=False, why=bad[0][0])
        if bad[0][1]:
            res["finding"] = bad[0][1]
    return res


def ran(result):
    """classify one observation [rc, stdout] -> 'hy' | 'py' | 'neither'"""
    rc, out = result[0], result[1]
    if rc == 0 and out.strip() == "RAN-HY 21":
        return "hy"
    if rc == 0 and out.strip() == "RAN-PY 21":
        return "py"
    if "RAN-HY" in out or "RAN-PY" in out:
        return "both?" + repr(out)
    return "neither"


def run_ext(case):
    classes = ["ext", "route:" + case["route"]]
    res = {"ok": True, "nontrivial": False, "classes": classes, "events": 0}
    obs = []      # (file name, language of the content, route, [rc, stdout, ...])
    with CaseDir("c15x") as cd:
        env = cd.env()
        paths = []
        for name in case["names"]:
            for lang, text in (("hy", HY_PROG), ("py", PY_PROG)):
                p = cd.write(os.path.join("x", lang, name), text)
                paths.append((f"{name}|{lang}", p))
        if case["route"] in ("hy", "pymhy"):
            launcher = [hy_script()] if case["route"] == "hy" else [python(), "-m", "hy"]
            for label, p in paths:
                r = cd.run(launcher + [p], env=env, timeout=30)
                if child_problem(r):
                    res.update(ok=None, classes=classes + [child_problem(r)])
                    return res
                name, lang = label.rsplit("|", 1)
                obs.append((name, lang, case["route"], [r["rc"], r["out"], r["err"][-300:]]))
        else:
            drv = cd.write("_xdrv.py", EXT_DRIVER)
            spec = cd.write("_xspec.json", json.dumps({"mode": "runhy", "paths": paths}))
            r = cd.run([python(), drv, spec], env=env, timeout=40)
            d = parse_dump(r["out"])
            if d is None:
                res.update(ok=None, classes=classes + [child_problem(r) or "child-no-dump"], why=r["err"][-300:])
                return res
            for label, o in d.items():
                name, lang = label.rsplit("|", 1)
                obs.append((name, lang, "runhy.run_path", o))
        if case.get("with_import"):
            mods = [("hm.hy", "hy", HY_PROG), ("hq.hy", "py", PY_PROG),
                    ("pm.py", "py", PY_PROG), ("pq.py", "hy", HY_PROG)]
            for fn, lang, text in mods:
                cd.write(os.path.join("imp", fn), text)
            drv = cd.write("_xdrv.py", EXT_DRIVER)
            spec = cd.write("_ispec.json", json.dumps({
                "mode": "import", "root": os.path.join(cd.path, "imp"),
                "mods": [[fn, fn.split(".")[0]] for fn, _, _ in mods]}))
            r = cd.run([python(), drv, spec], env=env, timeout=40)
            d = parse_dump(r["out"])
            if d is None:
                res.update(ok=None, classes=classes + [child_problem(r) or "child-no-dump"], why=r["err"][-300:])
                return res
            classes.append("route:import")
            for fn, lang, _ in mods:
                obs.append((fn, lang, "import", d[fn]))
    for name, lang, route, o in obs:
        suffix = os.path.splitext(name)[1]
        as_hy = suffix not in PY_SUFFIXES
        classes.append("suffix:" + (suffix or "<none>"))
        res["events"] += 1
        got = ran(o)
        want = ("hy" if as_hy else "neither") if lang == "hy" else ("neither" if as_hy else "py")
        if got != want:
            res.update(ok=False, classes=sorted(set(classes)), why=(
                f"file {name!r} (suffix {suffix!r}; Python's source suffixes {PY_SUFFIXES}) holding a "
                f"{'Hy' if lang == 'hy' else 'Python'}-only program, via {route}: observed {got} "
                f"({str(o)[:300]}), expected {want} (the file must be compiled as "
                f"{'Hy' if as_hy else 'Python'})"))
            return res
    res["classes"] = sorted(set(classes))
    return res


def run_case(case):
    if case["kind"] == "batch":
        return run_batch(case)
    if case["kind"] == "pkg":
        return run_batch({"pkgs": [case], "nproc": case.get("nproc", 3)})
    return run_ext(case)


def gate(tot, classes, extra, tier):
    # `classes` is the histogram of the whole run (all shards)
    lost = skip_gate(tot, classes)
    if lost:
        return lost
    if not classes.get("bytecode-path-detected"):
        return "bytecode-path-never-detected"
    if classes.get("inconclusive:bytecode-path-not-detected", 0) > 0.2 * classes.get("pkg", 1):
        return "bytecode-path-not-detected-in-%d-of-%d-packages" % (
            classes["inconclusive:bytecode-path-not-detected"], classes.get("pkg", 0))
    if not classes.get("ext"):
        return "extension-clause-never-exercised"
    return None
