"""C26 — model constructors accept exactly what syntax can express.

History observed: whether `Symbol(s)` / `Keyword(s)` / `String(s, brackets=d)`
returns or raises, and what the real reader yields for the canonical spelling
(`s`, `":" + s`, `#[d[` + s + `]d]`).
Oracle: differential against the real reader — constructor succeeds <=> the
spelling reads back as exactly that one model.
"""
from hv.common import rng_for
from hv import textgen as tg

ID = "C26"
LEVEL = "exploration"
RULE = ("(kind, s[, d]) with kind in {Symbol, Keyword, String+brackets}; s: random strings of length "
        "0-12 over identifier characters, the delimiters ()[]{};\"'`~, `# : . , _ -`, digits, ASCII and "
        "non-ASCII whitespace, NUL, plus numeric look-alikes and dotted shapes; d: bracket delimiters "
        "without square brackets (empty, f, f-x, punctuation, Unicode) with contents biased to the "
        "closer, near-closers, leading newlines and CR. Non-trivial = s (or d) contains a delimiter, "
        "dot, colon, `#`, `]` or whitespace; distinct by (kind, s, d).")
FLOOR = {"quick": 5000, "thorough": 5000}
BUDGET = {"quick": 18, "thorough": 480}
CASE_TIMEOUT = 20
NEEDS_EVENTS = True
ANCHORS = ["hy.models:Symbol.__new__", "hy.models:Keyword.__init__", "hy.models:String.__new__",
           "hy.reader.hy_reader:as_identifier", "hy.reader.hy_reader:HyReader.keyword",
           "hy.reader.hy_reader:HyReader.bracketed_string"]
ASSUMPTIONS = ["the canonical bracket-string spelling of s with delimiter d is #[d[ + (newline if s starts "
               "with a newline) + s + ]d]", "a constructor 'succeeds' iff it returns without raising"]
MANIFEST = {
    "text": "For random strings s (and bracket delimiters d) the constructors Symbol(s), Keyword(s) and "
            "String(s, brackets=d) are called and the canonical spelling is read with the real reader; the "
            "constructor must succeed exactly when the spelling reads back as that one model. Exploration: "
            "held on the strings tried, nothing beyond.",
    "note": "Trusted: nothing but the reader itself (differential). Bounds: len(s) <= 12 for names, short "
            "bracket contents; d never contains square brackets (the statement's premise).",
    "technique": "runtime monitoring: differential of constructor acceptance against the real reader's "
                 "round trip of the canonical spelling",
}

NT_CHARS = set(tg.DELIMS) | set(".:#]") | set(tg.ASCII_WS) | set(tg.UNI_SPACES)

KEY_F = "f-delimiter"
KEY_CR = "cr-in-content"
KEY_TAIL = "content-ends-with-closer-prefix"


def known_feature_keys(s, d):
    """Input features of the recorded findings of the String clause."""
    keys = []
    if d == "f" or d.startswith("f-"):
        keys.append(KEY_F)
    if "\r" in s:
        keys.append(KEY_CR)
    if s.endswith("]" + d):
        keys.append(KEY_TAIL)
    return keys


def cases(seed, tier, shard, nshards):
    i = 0
    quota = tg.Quota(40)
    while True:
        rng = rng_for(seed, ID, shard, i)
        i += 1
        r = rng.random()
        if r < 0.36:
            yield {"kind": "symbol", "s": tg.name_candidate(rng)}
        elif r < 0.66:
            yield {"kind": "keyword", "s": tg.name_candidate(rng)}
        else:
            d = tg.bracket_delim(rng, allow_f=True)
            if rng.random() < 0.25:
                s = tg.name_candidate(rng)
            else:
                s = tg.bracket_content(rng, d)
            if quota.admit(known_feature_keys(s, d)):
                yield {"kind": "string", "s": s, "d": d}


def case_key(case):
    return [case["kind"], case["s"], case.get("d")]


def _ctor(kind, s, d=None):
    """-> (succeeded, model or exception)"""
    import hy.models as M
    try:
        if kind == "symbol":
            m = M.Symbol(s)
        elif kind == "keyword":
            m = M.Keyword(s)
        else:
            m = M.String(s, brackets=d)
    except Exception as e:
        return False, e
    return True, m


def spelling(kind, s, d=None):
    if kind == "symbol":
        return s
    if kind == "keyword":
        return ":" + s
    return "#[" + d + "[" + ("\n" if s.startswith("\n") else "") + s + "]" + d + "]"


def _roundtrip(kind, s, d=None):
    """-> (reads back as exactly that one model, description of what was read)"""
    import hy.models as M
    ms, exc = tg.read_all(spelling(kind, s, d))
    if exc is not None:
        return False, "raises " + type(exc).__name__
    if len(ms) != 1:
        return False, f"{len(ms)} models " + ",".join(type(m).__name__ for m in ms[:4])
    m = ms[0]
    if kind == "symbol":
        ok = type(m) is M.Symbol and str(m) == s
    elif kind == "keyword":
        ok = type(m) is M.Keyword and m.name == s
    else:
        ok = type(m) is M.String and str(m) == s
    what = type(m).__name__
    if isinstance(m, (M.String, M.Symbol)):
        what += " " + repr(str(m))[:60]
    elif isinstance(m, M.Keyword):
        what += " " + repr(m.name)[:60]
    return ok, what


def _judge(kind, s, d=None):
    """-> (why or None, ctor_ok, read_ok, ctor result)"""
    c_ok, c_res = _ctor(kind, s, d)
    r_ok, r_what = _roundtrip(kind, s, d)
    if c_ok == r_ok:
        why = None
        if c_ok:
            # the constructed model must be the model that was read
            if kind == "keyword":
                same = c_res.name == s
            else:
                same = str(c_res) == s and (kind != "string" or c_res.brackets == d)
            if not same:
                why = f"{kind} constructor returned {c_res!r} for {s!r}"
        return why, c_ok, r_ok, c_res
    sp = spelling(kind, s, d)
    if c_ok:
        why = (f"{_call(kind, s, d)} succeeds but reading {sp!r} does not give that one model "
               f"(reader: {r_what})")
    else:
        why = (f"{_call(kind, s, d)} raises {type(c_res).__name__} but reading {sp!r} gives exactly "
               f"that model ({r_what})")
    return why, c_ok, r_ok, c_res


def _call(kind, s, d):
    if kind == "string":
        return f"String({s!r}, brackets={d!r})"
    return f"{kind.capitalize()}({s!r})"


# --- known mechanisms of the String clause: (key, normaliser of (s, d)) -------

def _n_f(s, d):
    if d == "f" or d.startswith("f-"):
        d = "g" + d[1:]
    return s, d


def _n_cr(s, d):
    return s.replace("\r", "\n"), d


def _n_tail(s, d):
    if s.endswith("]" + d):
        s = s + "x"
    return s, d


_MECHANISMS = [(KEY_F, _n_f), (KEY_CR, _n_cr), (KEY_TAIL, _n_tail)]


def _attribute(s, d):
    """Feature present (normaliser changes the case) and, with the other known
    features normalised away, the case still violates but stops violating when
    this feature alone is normalised away too."""
    present = [(k, n) for k, n in _MECHANISMS if n(s, d) != (s, d)]
    for key, norm in present:
        s1, d1 = s, d
        for k2, n2 in present:
            if k2 != key:
                s1, d1 = n2(s1, d1)
        if norm(s1, d1) == (s1, d1) or _judge("string", s1, d1)[0] is None:
            continue
        if _judge("string", *norm(s1, d1))[0] is None:
            return key
    return None


def run_case(case):
    kind, s, d = case["kind"], case["s"], case.get("d")
    if kind == "string" and ("[" in d or "]" in d):
        return {"ok": None}
    why, c_ok, r_ok, c_res = _judge(kind, s, d)
    classes = ["kind:" + kind, f"ctor:{'ok' if c_ok else type(c_res).__name__}",
               f"read:{'ok' if r_ok else 'no'}", f"{kind}:{'accept' if c_ok else 'reject'}"]
    probe = s + (d or "")
    for name, chars in (("delim", tg.DELIMS), ("dot", "."), ("colon", ":"), ("hash", "#"),
                        ("ws", tg.ASCII_WS), ("uspace", "".join(tg.UNI_SPACES)), ("nul", "\x00"),
                        ("rbracket", "]"), ("cr", "\r")):
        if any(c in chars for c in probe):
            classes.append("has:" + name)
    if kind == "string":
        classes.append("d:" + ("empty" if d == "" else "f" if (d == "f" or d.startswith("f-")) else "other"))
        if s.startswith("\n"):
            classes.append("leading-nl")
        if ("]" + d + "]") in s:
            classes.append("contains-closer")
    res = {"ok": True, "events": 2, "classes": classes,
           "nontrivial": any(c in NT_CHARS for c in probe),
           "sample": {"call": _call(kind, s, d), "spelling": spelling(kind, s, d)[:80]}}
    if not c_ok and not isinstance(c_res, ValueError):
        classes.append("ctor-raises-non-ValueError")
    if why:
        res.update(ok=False, why=why)
        if kind == "string":
            key = _attribute(s, d)
            if key:
                res["finding"] = key
    return res


def gate(tot, classes, extra, tier):
    need = ["symbol:accept", "symbol:reject", "keyword:accept", "keyword:reject", "string:accept",
            "string:reject", "d:empty", "d:other", "has:delim", "has:dot", "has:colon", "has:hash",
            "has:ws", "has:uspace", "contains-closer", "leading-nl"]
    missing = [c for c in need if not classes.get(c)]
    if missing:
        return "classes-not-reached:" + ",".join(missing)
    return None
