"""C04 — comprehension forms produce the reference nested-loop result.

Each case is one clause list (for / :if / :setv / :do clauses and a final
form) for one of lfor / sfor / dfor / gfor / for in module, function or class
scope, rendered (a) as Hy, once *pure* (hy can emit a native comprehension) and
once per sub-expression slot with that slot wrapped as `(do (L k 0) e)` (forces
the generator-function strategy), and (b) as a CPython twin: explicit nested
`for` / `if` / assignment statements with the comprehension's own variables
renamed apart, run under the same logger.  Compared: result collection, effect
trace, names visible in the enclosing scope afterwards (leak rules), `gfor`
laziness (events per element taken), `for`/`else`.
"""
import ast

from hv.common import Trace, exec_hy, exec_py, rng_for, token, same_value

ID = "C04"
LEVEL = "exploration"
RULE = ("clause lists of length 0-5 over iteration clauses (dependent iterables, destructuring "
        "targets), :if, :setv, :do (incl. value-dependent break/continue) with final forms value / "
        "#* / dfor key-value / dfor #**, for lfor sfor dfor gfor and for (with else), in module, "
        "function and class scope with the comprehension's variable names pre-bound to sentinels; "
        "every clause list runs pure and with each sub-expression slot wrapped in (do (L k 0) e). "
        "One evaluation = one (clause list, variant). Non-trivial = >= 2 clauses, or the "
        "generator-function strategy, or a leak expectation exercised (setx / pre-bound same name / "
        "for); distinct by Hy text.")
FLOOR = {"quick": 800, "thorough": 800}
BUDGET = {"quick": 22, "thorough": 480}
CASE_TIMEOUT = 20
NEEDS_EVENTS = True
# (ScopeGen.assign / .access are wrapped by NodeRef.wrap, whose closure hides the code
# object from hv/reach.py; they are reached through compile_comprehension anyway)
ANCHORS = ["hy.core.result_macros:compile_comprehension", "hy.scoping:ScopeGen.finalize",
           "hy.scoping:ScopeGen.iterator", "hy.scoping:ScopeGen.__enter__"]
ASSUMPTIONS = [
    "CPython 3.12.1 executes the explicit nested-loop twin as documented",
    "nested-loop reading of docs/api.rst lfor: :setv = assignment, :if = guard, :do = statement, "
    "iteration and :setv variables are new variables of the form, its first iterable (or leading "
    ":setv value) is evaluated in the enclosing scope (Python rule; what the native strategy does)",
]
MANIFEST = {
    "text": "Generated clause lists for lfor/sfor/dfor/gfor/for are executed pure (native comprehension) and "
            "with a statement forced into each sub-expression slot (generator-function strategy) in module, "
            "function and class scope and compared with a CPython twin of explicit nested loops under the "
            "same logger: result collection, effect trace, names visible afterwards (iteration/:setv "
            "variables must not leak or clobber, setx targets and all for variables must leak), gfor "
            "laziness per element taken, for/else. Exploration: held on the programs run, nothing beyond.",
    "note": "Trusted: CPython's loops (twin), the renderer. Bounds: <= 5 clauses, <= 3 iteration clauses, "
            "iterables <= 3 elements, one nested pure comprehension. Not constrained: when the first iterable "
            "is evaluated (creation vs first next); setx in a class-body comprehension (only no crash other "
            "than SyntaxError); zero-clause forms (only type and no leak); :if / break / continue before the "
            "first iteration clause, setx in an iterable expression (PEP 572 forbids), references to a "
            "variable of the form before its clause other than in the first iterable.",
    "technique": "runtime monitoring: differential execution against a CPython nested-loop twin under a "
                 "trace logger, namespace snapshots, strategy detection from the emitted AST",
}

# Mechanisms found on the unchanged tree (attribution in run_case).
#
# KEY_FIRST  compile_comprehension, generator-function strategy: the first iterable
#   (or a leading :setv value) is evaluated inside the generated function, where a
#   same-named iteration / :setv variable is already local and class-body variables
#   are invisible; the native strategy (and Python) evaluate it in the enclosing scope:
#     (setv x [1 2]) (lfor x x (* x 10)) -> [10 20] but (lfor x x :do None (* x 10)) -> UnboundLocalError
#     (defclass C [] (setv k [1 2]) (setv r (lfor x k :do None x)))          -> NameError: k
#   Repair: compile the first iterable's Result outside, give the generated function one
#   parameter and pass the value in (as CPython does for real comprehensions).
# KEY_UNPACK  compile_comprehension `f()`, `ends_with_unpack` arm: `to_loop` is built from
#   `elt.expr.value` / `key.force_expr` only, so the *statements* of a `#* FORM` / `#** FORM`
#   final form are dropped:  (lfor x [1 2] #* (do (print x) [x x]))  never prints.
#   Repair: `to_loop = Result(stmts=list((key if dict_unpack else elt).stmts), expr=...)`.
KEY_FIRST = "genfn-first-iterable-evaluated-inside-function"
KEY_UNPACK = "unpack-final-statements-dropped"

FORMS = ["lfor", "sfor", "dfor", "gfor", "for"]
SCOPES = ["module", "function", "class"]
VARS = ["x", "y", "z", "a"]
SETX = ["p", "q"]


# ------------------------------------------------------------------ generator

class Slot:
    """An expression slot of the clause list (may be wrapped)."""
    def __init__(self, e):
        self.e = e


class G:
    def __init__(self, rng, scope, form):
        self.r = rng
        self.scope = scope
        self.form = form
        self.k = 0
        self.nb = 0
        self.pre = {}           # pre-bound names of the enclosing scope: name -> (type, literal)
        self.bound_names = {}   # comprehension binders: bid -> name
        self.binder_scope = {}  # bid -> comprehension scope number (0 = the form itself)
        self.setx_targets = []
        self.uses_setx = False
        self.inner_comp = False
        self.maxd = 2           # expression depth (3 in the thorough tier)

    def site(self):
        self.k += 1
        return self.k

    # env: dict name -> (type, bid|None)
    def pick_var(self, env, typ):
        c = [n for n, (t, b) in env.items() if t == typ]
        return self.r.choice(sorted(c)) if c else None

    def gint(self, env, d=0, eff=True, setx_ok=False):
        r = self.r
        x = r.random()
        v = self.pick_var(env, "int")
        if d >= self.maxd or x < 0.25:
            if v and r.random() < 0.7:
                return ("var", v, env[v][1])
            return ("int", r.randint(0, 3))
        if x < 0.45 and v:
            return ("var", v, env[v][1])
        if x < 0.62:
            i = r.randrange(2)
            a = self.gint(env, d + 1, eff and i == 0, setx_ok)
            b = self.gint(env, d + 1, eff and i == 1, setx_ok)
            return ("bin", r.choice(["+", "*", "-"]), a, b)
        if x < 0.80 and eff:
            return ("L", self.site(), self.gint(env, d + 1, True, setx_ok))
        if x < 0.90 and eff and setx_ok and self.setx_targets:
            self.uses_setx = True
            t = r.choice(self.setx_targets)
            style = "setvdo" if r.random() < 0.25 else "setx"
            return ("setx", t, self.gint(env, d + 1, False, False), style)
        if x < 0.95:
            return ("call", "len", [self.gilist(env, d + 1, eff)])
        if v:
            return ("var", v, env[v][1])
        return ("int", r.randint(0, 3))

    def gilist(self, env, d=0, eff=True):
        r = self.r
        x = r.random()
        v = self.pick_var(env, "ilist")
        if x < 0.30:
            return ("range", self.gint(env, d + 1, eff))
        if x < 0.55 or d >= self.maxd:
            n = r.randint(0, 3)
            i = r.randrange(n) if n else -1
            return ("list", [self.gint(env, d + 1, eff and j == i) for j in range(n)])
        if x < 0.75 and v:
            return ("var", v, env[v][1])
        if x < 0.87 and eff:
            return ("L", self.site(), self.gilist(env, d + 1, True))
        if x < 0.95 and not self.inner_comp and self.scope != "class" and d == 0:
            return self.ginner(env)
        return ("range", self.gint(env, d + 1, eff))

    def ginner(self, env):
        """a nested pure comprehension (rendered as a Python comprehension in the twin)"""
        self.inner_comp = True
        r = self.r
        name = r.choice(VARS)
        self.nb += 1
        bid = self.nb
        self.bound_names[bid] = name
        self.binder_scope[bid] = bid
        it = ("range", self.gint(env, 2, False))
        env2 = dict(env)
        env2[name] = ("int", bid)
        cond = ("cmp", r.choice(["<", "!="]), self.gint(env2, 2, False), ("int", r.randint(0, 2))) \
            if r.random() < 0.5 else None
        elt = self.gint(env2, 1, False)
        return ("comp", name, bid, it, cond, elt)

    def gplist(self, env, d=0, eff=True):
        r = self.r
        if r.random() < 0.4:
            return ("call", "enumerate", [self.gilist(env, d + 1, eff)])
        n = r.randint(1, 3)
        return ("list", [("list", [("int", r.randint(0, 3)), ("int", r.randint(0, 3))]) for _ in range(n)])

    def gcond(self, env, eff=True, setx_ok=False):
        r = self.r
        x = r.random()
        if eff and setx_ok and self.setx_targets and r.random() < 0.15:
            self.uses_setx = True
            return ("cmp", r.choice(["<", ">", "!="]),
                    ("setx", r.choice(self.setx_targets), self.gint(env, 1, False, False), "setx"),
                    ("int", r.randint(0, 3)))
        if x < 0.55:
            i = r.randrange(2)
            return ("cmp", r.choice(["<", ">", "!=", "="]), self.gint(env, 1, eff and i == 0, setx_ok),
                    self.gint(env, 1, eff and i == 1, setx_ok))
        if x < 0.8:
            return ("mod", self.gint(env, 1, eff, setx_ok), 2)
        if eff:
            return ("L", self.site(), self.gcond(env, True, setx_ok))
        return ("mod", self.gint(env, 1, False), 2)

    def gvalue(self, env, hashable, setx_ok=True):
        r = self.r
        x = r.random()
        if setx_ok and self.setx_targets and r.random() < 0.22:
            self.uses_setx = True
            style = "setvdo" if r.random() < 0.25 else "setx"
            return ("setx", r.choice(self.setx_targets), self.gint(env, 1, False, False), style)
        if x < 0.5:
            return self.gint(env, 0, True, setx_ok)
        n = r.randint(1, 3)
        i = r.randrange(n)
        items = [self.gint(env, 1, j == i, setx_ok) for j in range(n)]
        if hashable or x < 0.75:
            return ("tuple", items)
        return ("list", items)

    def new_binder(self, name):
        self.nb += 1
        self.bound_names[self.nb] = name
        return self.nb

    def gtarget(self, names):
        """names: iterator of fresh variable names -> (target, itertype, {name: type})"""
        r = self.r
        x = r.random()
        if x < 0.78:
            n = next(names)
            return ("tn", n, self.new_binder(n)), "ilist", {n: "int"}
        n1, n2 = next(names), next(names)
        if n1 == n2:
            return ("tn", n1, self.new_binder(n1)), "ilist", {n1: "int"}
        if x < 0.93:
            return ("tl", [("tn", n1, self.new_binder(n1)), ("tn", n2, self.new_binder(n2))]), "plist", \
                {n1: "int", n2: "int"}
        return ("tl", [("tn", n1, self.new_binder(n1)), ("tstar", ("tn", n2, self.new_binder(n2)))]), "plist", \
            {n1: "int", n2: "ilist"}


def target_binders(t):
    if t[0] == "tn":
        yield t
    elif t[0] == "tl":
        for x in t[1]:
            yield from target_binders(x)
    else:
        yield from target_binders(t[1])


def refs_in(e, out):
    """names read (by name, with binder) in an expression"""
    if isinstance(e, tuple):
        if e and e[0] == "var":
            out.append((e[1], e[2]))
        for x in e:
            refs_in(x, out)
    elif isinstance(e, list):
        for x in e:
            refs_in(x, out)


def build(rng, scope, form, tier="quick"):
    g = G(rng, scope, form)
    if tier == "thorough":
        g.maxd = 3
    r = rng
    is_for = form == "for"
    # pre-bound names of the enclosing scope
    for n in VARS:
        x = r.random()
        if x < 0.35:
            g.pre[n] = ("int", str(r.randint(4, 9)))
        elif x < 0.65:
            g.pre[n] = ("ilist", "[" + " ".join(str(r.randint(0, 3)) for _ in range(r.randint(1, 3))) + "]")
    allow_setx = not is_for and (scope != "class" or r.random() < 0.08)
    if allow_setx:
        g.setx_targets = list(SETX)
    # module-level globals available everywhere
    glob = {"G1": ("int", None), "G2": ("ilist", None)}
    outer = dict(glob)
    for n, (t, _) in g.pre.items():
        outer[n] = (t, None)
    nclauses = r.choices([0, 1, 2, 3, 4, 5], [1, 6, 8, 6, 3, 2])[0]
    # plan clause kinds: :if / jumping :do only after an iteration clause
    kinds = []
    nfor = 0
    for i in range(nclauses):
        opts = [("for", 5 if nfor < 3 else 0), ("setv", 1.5), ("do", 1.2)]
        if nfor:
            opts += [("if", 2.5), ("jump", 0.8)]
        if i == 0:
            opts = [("for", 8), ("setv", 1), ("do", 0.6)]
        k = r.choices([o[0] for o in opts], [o[1] for o in opts])[0]
        if k == "for":
            nfor += 1
        kinds.append(k)
    # names bound by the form (so that nothing reads them before their clause,
    # except the first source expression which belongs to the enclosing scope)
    def fresh_names():
        while True:
            yield r.choice(VARS)
    names = fresh_names()
    targets = {}
    all_bound = set()
    bound_type = {}
    for i, k in enumerate(kinds):
        if k in ("for", "setv"):
            # a name may be bound by several clauses, but always with one type
            for _ in range(20):
                save = (g.nb, dict(g.bound_names))
                if k == "for":
                    tg, ityp, vt = g.gtarget(names)
                else:
                    n = next(names)
                    tg, ityp, vt = ("tn", n, g.new_binder(n)), None, \
                        {n: bound_type.get(n) or r.choice(["int", "int", "ilist"])}
                if all(bound_type.get(n, t) == t for n, t in vt.items()):
                    break
                g.nb, g.bound_names = save[0], save[1]
            else:
                n = next(m for m in VARS if bound_type.get(m, "int") == "int")
                tg, ityp, vt = ("tn", n, g.new_binder(n)), ("ilist" if k == "for" else None), {n: "int"}
            bound_type.update(vt)
            targets[i] = (tg, ityp, vt)
            all_bound |= set(vt)
    if not is_for:
        g.setx_targets = [t for t in g.setx_targets if t not in all_bound]
        # a pre-bound int of the enclosing scope may also be a setx target; it is then
        # never *read* inside the form (sibling evaluation order is unspecified)
        if allow_setx and scope != "class":
            cand = sorted(n for n, (t, _) in g.pre.items() if t == "int" and n not in all_bound)
            if cand and r.random() < 0.6:
                n = r.choice(cand)
                g.setx_targets.append(n)
                outer.pop(n, None)
    clauses = []
    slots = []
    env = {n: v for n, v in outer.items() if n not in all_bound} if not is_for else dict(outer)
    if scope == "class" and not is_for:
        env = dict(glob)       # class-body variables are not visible inside a comprehension (Python)
    first_src = None
    for i, k in enumerate(kinds):
        if k in ("for", "setv"):
            tg, ityp, vt = targets[i]
            if i == 0 and not is_for:
                src_env = dict(outer)          # enclosing scope: may read names the form binds
            else:
                src_env = env
            if k == "for":
                e = g.gilist(src_env) if ityp == "ilist" else g.gplist(src_env)
            else:
                typ = list(vt.values())[0]
                e = g.gint(src_env) if typ == "int" else g.gilist(src_env)
            s = Slot(e)
            if i == 0:
                first_src = s
            clauses.append({"t": k, "tg": tg, "s": s})
            slots.append(s)
            for n, t in vt.items():
                bid = [b for b in target_binders(tg) if b[1] == n][-1][2]
                env[n] = (t, bid if not is_for else None)
        elif k == "if":
            s = Slot(g.gcond(env, True, True))
            clauses.append({"t": "if", "s": s})
            slots.append(s)
        elif k == "do":
            s = Slot(("L", g.site(), g.gvalue(env, False)))
            clauses.append({"t": "do", "s": s})
            slots.append(s)
        else:
            s = Slot(g.gcond(env, True, False))
            clauses.append({"t": "jump", "s": s, "jump": r.choice(["break", "continue"])})
            slots.append(s)
    spec = {"form": form, "scope": scope, "clauses": clauses, "g": g, "first_src": first_src,
            "is_for": is_for, "all_bound": all_bound}
    if is_for:
        body = []
        for _ in range(r.randint(1, 2)):
            body.append(("log", Slot(("L", g.site(), g.gvalue(env, False, False)))))
        if nfor and r.random() < 0.55:
            body.insert(r.randrange(len(body) + 1),
                        ("jump", Slot(g.gcond(env, True, False)), r.choice(["break", "break", "continue"])))
        if r.random() < 0.3:
            n = r.choice(VARS + ["w"])
            body.append(("set", n, Slot(g.gint(env, 1))))
        spec["body"] = body
        lead_ok = all(k in ("setv", "do") for k in kinds[:kinds.index("for")]) if "for" in kinds else False
        spec["else"] = ("L", g.site(), ("int", 0)) if lead_ok and r.random() < 0.6 else None
        for b in body:
            slots.append(b[1] if b[0] != "set" else b[2])
    else:
        if form == "dfor":
            if nclauses and r.random() < 0.2:
                kv = [(g.gint(env, 1, False), g.gint(env, 1, j == 0)) for j in range(r.randint(1, 2))]
                s = Slot(("dict", kv))
                spec["final"] = ("dstar", s)
                slots.append(s)
            else:
                ke = r.random() < 0.5
                ks = Slot(g.gvalue(env, True, True) if ke else strip_eff(g.gvalue(env, True, False)))
                vs = Slot(strip_eff(g.gvalue(env, False, False)) if ke else g.gvalue(env, False, True))
                spec["final"] = ("kv", ks, vs)
                slots += [ks, vs]
        elif nclauses and r.random() < 0.18:
            s = Slot(g.gilist(env))
            spec["final"] = ("star", s)
            slots.append(s)
        else:
            s = Slot(g.gvalue(env, form == "sfor", True))
            spec["final"] = ("value", s)
            slots.append(s)
    spec["slots"] = slots
    spec["take"] = r.choice([0, 1, 2, 2, 5]) if form == "gfor" else None
    return spec


def strip_eff(e):
    """remove logging / assignment from an expression (keeps its value)"""
    if isinstance(e, tuple):
        if e[0] == "L":
            return strip_eff(e[2])
        if e[0] == "setx":
            return strip_eff(e[2])
        return tuple(strip_eff(x) for x in e)
    if isinstance(e, list):
        return [strip_eff(x) for x in e]
    return e


# ------------------------------------------------------------------ renderers

PYOP = {"=": "=="}


class Ren:
    def __init__(self, spec, wrap=None, norm=()):
        self.spec = spec
        self.g = spec["g"]
        self.wrap = wrap            # Slot to wrap as (do (L k 0) e), or None
        self.norm = set(norm)       # normalisers applied: "first", "unpack"
        self.wrapk = 900
        # hy names of the form's own variables
        self.hyname = dict(self.g.bound_names)
        if "first" in self.norm and spec.get("hazard_names"):
            for bid, n in self.hyname.items():
                if n in spec["hazard_names"]:
                    self.hyname[bid] = n + "_r"
        # dfor key / value: their relative evaluation order is not specified, so
        # when one of them is wrapped the other is rendered without effects
        self.stripped = set()
        f = spec.get("final")
        if f and f[0] == "kv" and wrap in (f[1], f[2]):
            self.stripped.add(f[2] if wrap is f[1] else f[1])
        # normaliser "unpack": statements of a `#*` / `#**` final form are moved
        # into a preceding :do clause (same meaning)
        self.unpack_slot = f[1] if f and f[0] in ("star", "dstar") and "unpack" in self.norm else None

    def slot_e(self, s):
        return strip_eff(s.e) if s in self.stripped else s.e

    # ---- Hy
    def hy(self, e):
        k = e[0]
        if k == "int":
            return str(e[1])
        if k == "var":
            return self.hyname[e[2]] if e[2] is not None else e[1]
        if k == "bin":
            return f"({e[1]} {self.hy(e[2])} {self.hy(e[3])})"
        if k == "cmp":
            return f"({e[1]} {self.hy(e[2])} {self.hy(e[3])})"
        if k == "mod":
            return f"(% {self.hy(e[1])} {e[2]})"
        if k == "list":
            return "[" + " ".join(self.hy(x) for x in e[1]) + "]"
        if k == "tuple":
            return "#(" + " ".join(self.hy(x) for x in e[1]) + ")"
        if k == "dict":
            return "{" + "  ".join(f"{self.hy(a)} {self.hy(b)}" for a, b in e[1]) + "}"
        if k == "range":
            return f"(range (min {self.hy(e[1])} 3))"
        if k == "call":
            return f"({e[1]} " + " ".join(self.hy(x) for x in e[2]) + ")"
        if k == "L":
            return f"(L {e[1]} {self.hy(e[2])})"
        if k == "setx":
            if e[3] == "setx" or self.in_unpack_norm:
                return f"(setx {e[1]} {self.hy(e[2])})"
            return f"(do (setv {e[1]} {self.hy(e[2])}) {e[1]})"
        if k == "comp":
            _, name, bid, it, cond, elt = e
            c = f" :if {self.hy(cond)}" if cond is not None else ""
            return f"(lfor {self.hyname[bid]} {self.hy(it)}{c} {self.hy(elt)})"
        raise ValueError(k)

    in_unpack_norm = False

    def hy_slot(self, s):
        if s is self.unpack_slot:
            self.in_unpack_norm = True
            t = self.hy(s.e)
            self.in_unpack_norm = False
            return t
        t = self.hy(self.slot_e(s))
        if s is self.wrap:
            return f"(do (L {self.wrapk} 0) {t})"
        return t

    def hy_target(self, t):
        if t[0] == "tn":
            return self.hyname[t[2]]
        if t[0] == "tstar":
            return "#* " + self.hy_target(t[1])
        return "[" + " ".join(self.hy_target(x) for x in t[1]) + "]"

    def hy_form(self):
        sp = self.spec
        parts = []
        for c in sp["clauses"]:
            if c["t"] == "for":
                parts.append(f"{self.hy_target(c['tg'])} {self.hy_slot(c['s'])}")
            elif c["t"] == "setv":
                parts.append(f":setv {self.hy_target(c['tg'])} {self.hy_slot(c['s'])}")
            elif c["t"] == "if":
                parts.append(f":if {self.hy_slot(c['s'])}")
            elif c["t"] == "do":
                parts.append(f":do {self.hy_slot(c['s'])}")
            else:
                parts.append(f":do (when {self.hy_slot(c['s'])} ({c['jump']}))")
        if sp["is_for"]:
            body = []
            for b in sp["body"]:
                if b[0] == "log":
                    body.append(self.hy_slot(b[1]))
                elif b[0] == "jump":
                    body.append(f"(when {self.hy_slot(b[1])} ({b[2]}))")
                else:
                    body.append(f"(setv {b[1]} {self.hy_slot(b[2])})")
            if sp["else"] is not None:
                body.append(f"(else {self.hy(sp['else'])})")
            return "(for [" + " ".join(parts) + "] " + " ".join(body) + ")"
        f = sp["final"]
        if f[1] is self.unpack_slot and f[1] is self.wrap:
            parts.append(f":do (L {self.wrapk} 0)")
        if f[0] == "value":
            parts.append(self.hy_slot(f[1]))
        elif f[0] == "star":
            parts.append("#* " + self.hy_slot(f[1]))
        elif f[0] == "kv":
            parts.append(self.hy_slot(f[1]))
            parts.append(self.hy_slot(f[2]))
        else:
            parts.append("#** " + self.hy_slot(f[1]))
        return "(" + sp["form"] + " " + " ".join(parts) + ")"

    def prelude_hy(self):
        return [f"(setv {n} {lit})" for n, (t, lit) in sorted(self.g.pre.items())]

    def hy_program(self):
        sp = self.spec
        form = self.hy_form()
        if sp["form"] == "gfor":
            use = f"(setv R (TAKE {form} {sp['take']}))"
        elif sp["is_for"]:
            use = f"{form}\n(setv R None)"
        else:
            use = f"(setv R {form})"
        pre = self.prelude_hy()
        if sp["scope"] == "module":
            return "\n".join(pre + [use])
        if sp["scope"] == "function":
            return "(defn scope []\n  " + "\n  ".join(pre + [use, "(SNAP (locals))"]) + ")\n(scope)"
        top = pre if ("first" in self.norm and sp.get("hazard_class")) else []
        return "\n".join(top) + ("\n" if top else "") + "(defclass Scope []\n  " + "\n  ".join(pre + [use]) + ")"

    # ---- Python twin
    def pyname(self, name, bid):
        # one twin variable per (comprehension scope, name): binding a name twice in
        # one form rebinds the same variable
        if bid is None:
            return name
        return f"{name}__c{self.g.binder_scope.get(bid, 0)}"

    def py(self, e):
        k = e[0]
        if k == "int":
            return str(e[1])
        if k == "var":
            return self.pyname(e[1], e[2])
        if k in ("bin", "cmp"):
            return f"({self.py(e[2])} {PYOP.get(e[1], e[1])} {self.py(e[3])})"
        if k == "mod":
            return f"({self.py(e[1])} % {e[2]})"
        if k == "list":
            return "[" + ", ".join(self.py(x) for x in e[1]) + "]"
        if k == "tuple":
            return "(" + "".join(self.py(x) + ", " for x in e[1]) + ")"
        if k == "dict":
            return "{" + ", ".join(f"{self.py(a)}: {self.py(b)}" for a, b in e[1]) + "}"
        if k == "range":
            return f"range(min({self.py(e[1])}, 3))"
        if k == "call":
            return f"{e[1]}(" + ", ".join(self.py(x) for x in e[2]) + ")"
        if k == "L":
            return f"L({e[1]}, {self.py(e[2])})"
        if k == "setx":
            return f"({e[1]} := {self.py(e[2])})"
        if k == "comp":
            _, name, bid, it, cond, elt = e
            c = f" if {self.py(cond)}" if cond is not None else ""
            return f"[{self.py(elt)} for {self.pyname(name, bid)} in {self.py(it)}{c}]"
        raise ValueError(k)

    def py_slot(self, s):
        t = self.py(self.slot_e(s))
        if s is self.wrap:
            return f"(L({self.wrapk}, 0), {t})[1]"
        return t

    def py_target(self, t, rename):
        if t[0] == "tn":
            return self.pyname(t[1], t[2]) if rename else t[1]
        if t[0] == "tstar":
            return "*" + self.py_target(t[1], rename)
        return "[" + ", ".join(self.py_target(x, rename) for x in t[1]) + "]"

    def py_loops(self, out, ind, emit_final):
        sp = self.spec
        rename = not sp["is_for"]
        first_for = True
        else_at = None
        for c in sp["clauses"]:
            pad = "    " * ind
            if c["t"] == "for":
                src = self.py_slot(c["s"])
                if sp["form"] == "gfor" and c is sp["clauses"][0]:
                    src = "_it0"
                out.append(f"{pad}for {self.py_target(c['tg'], rename)} in {src}:")
                if first_for:
                    else_at = ind
                    first_for = False
                ind += 1
            elif c["t"] == "setv":
                src = self.py_slot(c["s"])
                if sp["form"] == "gfor" and c is sp["clauses"][0]:
                    src = "_it0"
                out.append(f"{pad}{self.py_target(c['tg'], rename)} = {src}")
            elif c["t"] == "if":
                out.append(f"{pad}if {self.py_slot(c['s'])}:")
                ind += 1
            elif c["t"] == "do":
                out.append(f"{pad}{self.py_slot(c['s'])}")
            else:
                out.append(f"{pad}if {self.py_slot(c['s'])}:")
                out.append(f"{pad}    {c['jump']}")
        emit_final(out, ind)
        return else_at

    def py_program(self):
        sp = self.spec
        g = self.g
        form = sp["form"]
        lines = []
        body = []

        def final(out, ind):
            pad = "    " * ind
            if sp["is_for"]:
                for b in sp["body"]:
                    if b[0] == "log":
                        out.append(f"{pad}{self.py_slot(b[1])}")
                    elif b[0] == "jump":
                        out.append(f"{pad}if {self.py_slot(b[1])}:")
                        out.append(f"{pad}    {b[2]}")
                    else:
                        out.append(f"{pad}{b[1]} = {self.py_slot(b[2])}")
                if not sp["body"]:
                    out.append(f"{pad}pass")
                return
            f = sp["final"]
            if form == "gfor":
                if f[0] == "value":
                    out.append(f"{pad}yield {self.py_slot(f[1])}")
                else:
                    out.append(f"{pad}for _t in {self.py_slot(f[1])}:")
                    out.append(f"{pad}    yield _t")
            elif f[0] == "value":
                add = "_acc.add" if form == "sfor" else "_acc.append"
                out.append(f"{pad}{add}({self.py_slot(f[1])})")
            elif f[0] == "star":
                add = "_acc.add" if form == "sfor" else "_acc.append"
                out.append(f"{pad}for _t in {self.py_slot(f[1])}:")
                out.append(f"{pad}    {add}(_t)")
            elif f[0] == "kv":
                out.append(f"{pad}_kk = {self.py_slot(f[1])}")
                out.append(f"{pad}_acc[_kk] = {self.py_slot(f[2])}")
            else:
                out.append(f"{pad}for _kk, _vv in ({self.py_slot(f[1])}).items():")
                out.append(f"{pad}    _acc[_kk] = _vv")

        pre = [f"{n} = {lit.replace(' ', ', ')}" for n, (t, lit) in sorted(g.pre.items())]
        nclauses = len(sp["clauses"])
        if form == "gfor":
            first = sp["clauses"][0] if sp["clauses"] and sp["clauses"][0]["t"] in ("for", "setv") else None
            decl = []
            targets = sorted(set(written_setx(sp)))
            if targets and sp["scope"] == "module":
                decl = ["    global " + ", ".join(targets)]
            elif targets and sp["scope"] == "function":
                decl = ["    nonlocal " + ", ".join(targets)]
                body += ["if 0:"] + [f"    {t} = None" for t in targets]
            body.append("def _g(_it0):")
            body += decl
            if nclauses == 0:
                body += ["    return", "    yield"]
            else:
                inner = []
                self.py_loops(inner, 1, final)
                body += inner
            arg = self.py_slot(first["s"]) if first is not None else "None"
            body.append(f"R = TAKE(_g({arg}), {sp['take']})")
        elif sp["is_for"]:
            if nclauses:
                inner = []
                else_at = self.py_loops(inner, 0, final)
                body += inner
                if sp["else"] is not None:
                    body.append("    " * else_at + "else:")
                    body.append("    " * (else_at + 1) + self.py(sp["else"]))
            body.append("R = None")
        else:
            init = {"lfor": "[]", "sfor": "set()", "dfor": "{}"}[form]
            body.append(f"_acc = {init}")
            if nclauses:
                inner = []
                self.py_loops(inner, 0, final)
                body += inner
            body.append("R = _acc")
        if sp["scope"] == "module":
            lines = pre + body
        elif sp["scope"] == "function":
            lines = ["def scope():"] + ["    " + l for l in pre + body + ["SNAP(locals())"]] + ["scope()"]
        else:
            lines = ["class Scope:"] + ["    " + l for l in pre + body]
        return "\n".join(lines)


def has_setvdo(e):
    if isinstance(e, tuple):
        if e and e[0] == "setx" and e[3] == "setvdo":
            return True
        return any(has_setvdo(x) for x in e)
    if isinstance(e, list):
        return any(has_setvdo(x) for x in e)
    return False


def written_setx(sp):
    out = []

    def visit(e):
        if isinstance(e, tuple):
            if e and e[0] == "setx":
                out.append(e[1])
            for x in e:
                visit(x)
        elif isinstance(e, list):
            for x in e:
                visit(x)
    for s in sp["slots"]:
        visit(s.e)
    return out


def sites_in(e, out):
    if isinstance(e, tuple):
        if e and e[0] == "L":
            out.add(e[1])
        for x in e:
            sites_in(x, out)
    elif isinstance(e, list):
        for x in e:
            sites_in(x, out)


def analyse(spec):
    """hazard = the first source expression reads a name whose meaning differs
    inside a generated function: a name the form itself binds, or (class scope)
    a class-body variable."""
    spec["hazard_names"] = []
    spec["hazard_class"] = False
    fs = spec["first_src"]
    if fs is None or spec["is_for"]:
        return
    refs = []
    refs_in(fs.e, refs)
    outer_reads = {n for n, b in refs if b is None}
    spec["hazard_names"] = sorted(outer_reads & spec["all_bound"])
    if spec["scope"] == "class" and outer_reads & set(spec["g"].pre):
        spec["hazard_class"] = True


def regression_cases():
    """Witnesses of the repaired mechanisms 755f964 (KEY_FIRST) and 117c35f
    (KEY_UNPACK), with hand-written nested-loop twins."""
    def case(key, form, scope, hy, py, kinds, final, take=None, first_sites=()):
        return {"form": form, "scope": scope, "variants": [{"hy": hy, "py": py, "wrap": None, "norms": {}}],
                "take": take, "nclauses": len(kinds), "setx": [], "kinds": kinds, "final": final,
                "prebound_clash": [], "hazard": {"names": [], "cls": False},
                "first_sites": list(first_sites), "first_slot": 0, "regress": key}
    yield case(KEY_FIRST, "lfor", "module",
               "(setv x [1 2])\n(setv R (lfor x (L 1 x) :do (L 2 0) (* x 10)))",
               "x = [1, 2]\n_acc = []\nfor x__c0 in L(1, x):\n    L(2, 0)\n    _acc.append(x__c0 * 10)\nR = _acc",
               ["for", "do"], "value")
    yield case(KEY_FIRST, "lfor", "function",
               "(defn scope []\n  (setv x 3)\n  (setv R (lfor :setv x (+ x 1) :do (L 1 x) x))\n  (SNAP (locals)))\n(scope)",
               "def scope():\n    x = 3\n    _acc = []\n    x__c0 = x + 1\n    L(1, x__c0)\n    _acc.append(x__c0)\n"
               "    R = _acc\n    SNAP(locals())\nscope()",
               ["setv", "do"], "value")
    yield case(KEY_FIRST, "sfor", "class",
               "(defclass Scope []\n  (setv y [1 2])\n  (setv R (sfor x y :do (L 1 x) x)))",
               "class Scope:\n    y = [1, 2]\n    _acc = set()\n    for x__c0 in y:\n        L(1, x__c0)\n"
               "        _acc.add(x__c0)\n    R = _acc",
               ["for", "do"], "value")
    yield case(KEY_FIRST, "gfor", "module",
               "(setv x [1 2 3])\n(setv R (TAKE (gfor x x :do (L 1 x) (* x 2)) 2))",
               "x = [1, 2, 3]\ndef _g(_it0):\n    for x__c0 in _it0:\n        L(1, x__c0)\n        yield x__c0 * 2\n"
               "R = TAKE(_g(x), 2)",
               ["for", "do"], "value", take=2)
    yield case(KEY_UNPACK, "lfor", "module",
               "(setv R (lfor x [1 2] #* (do (L 1 x) [x x])))",
               "_acc = []\nfor x__c0 in [1, 2]:\n    for _t in (L(1, x__c0), [x__c0, x__c0])[1]:\n        _acc.append(_t)\nR = _acc",
               ["for"], "star")
    yield case(KEY_UNPACK, "dfor", "function",
               "(defn scope []\n  (setv R (dfor x [1 2] #** (do (L 1 x) {x (* x 2)})))\n  (SNAP (locals)))\n(scope)",
               "def scope():\n    _acc = {}\n    for x__c0 in [1, 2]:\n        for _kk, _vv in (L(1, x__c0), {x__c0: x__c0 * 2})[1].items():\n"
               "            _acc[_kk] = _vv\n    R = _acc\n    SNAP(locals())\nscope()",
               ["for"], "dstar")
    yield case(KEY_UNPACK, "gfor", "module",
               "(setv R (TAKE (gfor x [1 2] #* (do (setv q x) [q q])) 3))",
               "def _g(_it0):\n    global q\n    for x__c0 in _it0:\n        for _t in [(q := x__c0), q]:\n            yield _t\n"
               "R = TAKE(_g([1, 2]), 3)",
               ["for"], "star", take=3)


def cases(seed, tier, shard, nshards):
    for j, case in enumerate(regression_cases()):
        if j % nshards == shard:
            yield case
    i = 0
    while True:
        rng = rng_for(seed, ID, shard, i)
        i += 1
        scope = SCOPES[i % 3]
        form = rng.choices(FORMS, [4, 2, 3, 3, 3])[0]
        spec = build(rng, scope, form, tier)
        analyse(spec)
        g = spec["g"]
        variants = []
        hazard = bool(spec["hazard_names"] or spec["hazard_class"])
        first_sites = set()
        if spec["first_src"] is not None:
            sites_in(spec["first_src"].e, first_sites)
        for wrap in [None] + list(spec["slots"]):
            rn = Ren(spec, wrap)
            v = {"hy": rn.hy_program(), "py": rn.py_program(),
                 "wrap": None if wrap is None else spec["slots"].index(wrap)}
            norms = []
            if hazard:
                norms.append("first")
            fin = spec.get("final")
            if fin and fin[0] in ("star", "dstar") and (wrap is fin[1] or has_setvdo(fin[1].e)):
                norms.append("unpack")
            v["norms"] = {}
            for combo in ([[n] for n in norms] + ([norms] if len(norms) == 2 else [])):
                rn2 = Ren(spec, wrap, norm=combo)
                v["norms"]["+".join(combo)] = [rn2.hy_program(), rn2.py_program()]
            variants.append(v)
        setx = sorted(set(written_setx(spec)))
        yield {"form": form, "scope": scope, "variants": variants, "take": spec["take"],
               "nclauses": len(spec["clauses"]), "setx": setx,
               "kinds": [c["t"] for c in spec["clauses"]],
               "final": spec["final"][0] if not spec["is_for"] else ("else" if spec["else"] else "body"),
               "prebound_clash": sorted(set(g.pre) & spec["all_bound"]),
               "hazard": {"names": spec["hazard_names"], "cls": spec["hazard_class"]},
               "first_sites": sorted(first_sites),
               "first_slot": 0 if spec["first_src"] is not None else None}


def case_key(case):
    return case["variants"][0]["hy"]


# --------------------------------------------------------------------- oracle

class Taker:
    def __init__(self, tr):
        self.tr = tr

    def __call__(self, gen, k):
        self.tr.L("made", 0)
        out = []
        for i in range(k):
            try:
                v = next(gen)
            except StopIteration:
                self.tr.L("stop", i)
                break
            out.append(v)
            self.tr.L("took", v)
        return out


def _snap(d):
    out = {}
    for k, v in d.items():
        if k.startswith("_") or k in ("L", "TAKE", "SNAP", "hy", "R", "G1", "G2", "scope", "Scope"):
            continue
        if "__c" in k:
            continue
        out[k] = token(v)
    return out


def detect_strategy(tree):
    """native comprehension vs generator function, from the emitted AST"""
    genfn = native = False
    for node in ast.walk(tree):
        if isinstance(node, (ast.FunctionDef, ast.AsyncFunctionDef)) and node.name.startswith("_hy_"):
            if any(isinstance(x, (ast.Yield, ast.YieldFrom)) for x in ast.walk(node)):
                genfn = True
    if genfn:
        return "genfn"
    for node in ast.walk(tree):
        if isinstance(node, (ast.ListComp, ast.SetComp, ast.DictComp, ast.GeneratorExp)):
            native = True
    return "native" if native else "loops"


def observe(kind, text, scope):
    tr = Trace()
    snaps = []
    env = {"L": tr.L, "TAKE": Taker(tr), "SNAP": lambda d: snaps.append(dict(d)), "G1": 2, "G2": [1, 2]}
    strategy = None
    if kind == "hy":
        m, exc, tree, phase = exec_hy(text, env)
        if tree is not None:
            strategy = detect_strategy(tree)
    else:
        m, exc, phase = exec_py(text, env)
    if scope == "module":
        raw = m.__dict__
    elif scope == "function":
        raw = snaps[-1] if snaps else None
    else:
        cls = m.__dict__.get("Scope")
        raw = dict(vars(cls)) if cls is not None else None
    return {"exc": None if exc is None else type(exc).__name__, "phase": phase,
            "msg": None if exc is None else str(exc)[:160], "trace": tr.events,
            "names": None if raw is None else _snap(raw),
            "value": "<unset>" if raw is None else raw.get("R", "<unset>"), "strategy": strategy}


def split_first(trace, first_sites):
    a = [e for e in trace if e[0] in first_sites]
    b = [e for e in trace if e[0] not in first_sites]
    return a, b


def compare(case, h, p, lenient_setx_class, wrap=None):
    form = case["form"]
    if p["exc"] is not None:
        if h["exc"] == p["exc"]:
            return None
        return "twin-error"
    if h["exc"] is not None:
        if lenient_setx_class and h["exc"] == "SyntaxError":
            return None
        return f"hy raised {h['exc']} at {h['phase']}: {h['msg']} (twin: no exception)"
    if lenient_setx_class:
        return None
    if case["nclauses"] == 0 and form != "for":
        # zero-clause forms: only the type of the result and no leak are required
        want = {"lfor": list, "sfor": set, "dfor": dict, "gfor": list}[form]
        if not isinstance(h["value"], want):
            return f"zero-clause {form} gave {type(h['value']).__name__}"
    else:
        d = same_value(h["value"], p["value"], "result")
        if d:
            return f"result differs from nested-loop reference: {d} (hy {h['value']!r}, twin {p['value']!r})"
    if form == "gfor":
        fs = set(case["first_sites"])
        if wrap == case["first_slot"] and wrap is not None:
            fs.add(900)
        hf, hr = split_first(h["trace"], fs)
        pf, pr = split_first(p["trace"], fs)
        if hr != pr:
            return f"gfor element work differs per element taken (laziness): hy {hr} vs twin {pr}"
        if hf != pf and not (case["take"] == 0 and hf == []):
            return f"first-iterable events differ: hy {hf} vs twin {pf}"
    elif h["trace"] != p["trace"]:
        return f"effect trace differs: hy {h['trace']} vs twin {p['trace']}"
    if h["names"] != p["names"]:
        hn, pn = h["names"] or {}, p["names"] or {}
        diff = {k: (hn.get(k, "<absent>"), pn.get(k, "<absent>"))
                for k in set(hn) | set(pn) if hn.get(k) != pn.get(k)}
        return f"names visible in the enclosing scope afterwards differ (name: (hy, twin)): {diff}"
    return None


def run_variant(case, v, norm=None):
    scope = case["scope"]
    hy, py = (v["hy"], v["py"]) if norm is None else v["norms"][norm]
    return observe("hy", hy, scope), observe("py", py, scope)


def run_case(case):
    scope, form = case["scope"], case["form"]
    lenient = scope == "class" and bool(case["setx"])
    classes = ["scope:" + scope, "form:" + form, "clauses:%d" % case["nclauses"], "final:" + str(case["final"])]
    classes += ["clause:" + k for k in sorted(set(case["kinds"]))]
    if case.get("regress"):
        classes.append("regress:" + case["regress"])
    if case["setx"]:
        classes.append("setx" + ("-class-exempt" if lenient else ""))
    if case["prebound_clash"]:
        classes.append("prebound-same-name")
    if case["hazard"]["names"]:
        classes.append("first-src-reads-own-variable")
    if case["hazard"]["cls"]:
        classes.append("first-src-reads-class-variable")
    events = 0
    n = 0
    nt_keys = []
    bad = None
    finding = None
    leak_exercised = bool(case["setx"] or case["prebound_clash"] or form == "for")
    for v in case["variants"]:
        h, p = run_variant(case, v)
        events += len(h["trace"]) + len(p["trace"])
        why = compare(case, h, p, lenient, v["wrap"])
        if why == "twin-error":
            classes.append("twin-error:" + str(p["exc"]))
            continue
        n += 1
        strat = h["strategy"] or "none"
        classes.append("strategy:" + strat)
        classes.append(f"strategy:{strat}:{scope}")
        if v["wrap"] is not None:
            classes.append("wrapped")
        if case["nclauses"] >= 2 or strat == "genfn" or leak_exercised:
            nt_keys.append(v["hy"])
        if why is not None and (bad is None or bad[2] is not None):
            key = None
            for combo in sorted(v.get("norms", {}), key=len):
                nh, np_ = run_variant(case, v, norm=combo)
                if compare(case, nh, np_, lenient, v["wrap"]) is None:
                    key = KEY_FIRST if combo.startswith("first") else KEY_UNPACK
                    break
            if bad is None or key is None:
                bad = (v, why, key, strat)
            if key is None:
                break
    if n == 0:
        return {"ok": None, "classes": classes, "events": events, "nontrivial": False}
    res = {"ok": bad is None, "nontrivial": bool(nt_keys), "classes": classes, "events": events,
           "n": n, "nt_keys": nt_keys,
           "sample": {"hy": case["variants"][-1]["hy"], "py": case["variants"][-1]["py"]}}
    if bad is not None:
        v, why, key, strat = bad
        res["why"] = f"[{strat} strategy, wrap slot {v['wrap']}] {why}\n--- hy:\n{v['hy']}\n--- twin:\n{v['py']}"
        if key:
            res["finding"] = key
            res["why"] += ("\n[attributed: disappears when " +
                           ("the form's variables are renamed apart from the names read in its first source "
                            "expression / the class variable is also a module global]" if key == KEY_FIRST else
                            "the statements of the unpacked final form are moved into a preceding :do clause]"))
    return res


def gate(tot, classes, extra, tier):
    need = min(100, int(0.012 * tot["evaluations"]))     # proportional: monotone in the run length
    miss = []
    for s in SCOPES:
        for st in ("native", "genfn"):
            if classes.get(f"strategy:{st}:{s}", 0) < need:
                miss.append(f"{st}:{s}={classes.get(f'strategy:{st}:{s}', 0)}")
    if miss:
        return "strategy-scope-quota-missed:" + ",".join(miss)
    return None
