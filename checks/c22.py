"""C22 — numeric literals read like Python plus the documented extensions.

History observed: the model list `hy.read_many(text)` yields for one identifier
text (type and value of the model), or the escaping exception.
Oracle: (a) CPython — `ast.literal_eval` of the same text — for Python literals;
(b, c) an independent recogniser of the numeric-literal rules in
docs/syntax.rst (`hv.textgen.classify_number`): documented extension -> value
after stripping separators; documented non-number -> a Symbol with the same
text (dot-free) / never a number (dotted); spellings the docs neither grant nor
deny are observed and counted, not gated.
"""
import ast

from hv.common import rng_for, _nan_eq
from hv import textgen as tg

ID = "C22"
LEVEL = "exploration"
RULE = ("identifier texts: (a) Python numeric literals from Python's grammar (decimal/0x/0o/0b any "
        "case, `_`, floats, imaginary, <=40 digits, optional sign) vs ast.literal_eval; (b) documented "
        "extensions (`,`, repeated/trailing/after-./e/j/in-radix-prefix separators, leading zeros, NaN "
        "Inf -Inf, a+bj); (c) near-misses the docs exclude (leading separator, wrong-case nan/inf, bad "
        "radix digits, dangling exponent, non-ASCII-space padding ...). Non-trivial = the text has a "
        "separator, exponent, radix prefix or imaginary part; distinct by text.")
FLOOR = {"quick": 3000, "thorough": 3000}
BUDGET = {"quick": 18, "thorough": 360}
CASE_TIMEOUT = 20
NEEDS_EVENTS = True
ANCHORS = ["hy.reader.hy_reader:as_identifier",
           "hy.models:strip_digit_separators",
           "hy.models:check_inf_nan_cap",
           "hy.models:Integer.__new__",
           "hy.models:Float.__new__",
           "hy.models:Complex.__new__"]
ASSUMPTIONS = ["CPython 3.12 ast.literal_eval / int / float / complex implement Python's numeric literal "
               "semantics", "hv.textgen.classify_number transcribes docs/syntax.rst 'Numeric literals'; "
               "anything it cannot derive from that text is 'grey' (observed, not gated)"]
MANIFEST = {
    "text": "Generated numeric-literal texts (Python's grammar, Hy's documented extensions, documented "
            "near-misses) are read with the real reader; model type and value are compared with "
            "ast.literal_eval resp. an independent recogniser of the documented rules. Exploration: held "
            "on the texts read, nothing beyond.",
    "note": "Trusted: CPython's own conversions; the recogniser's transcription of docs/syntax.rst. "
            "Bounds: <=40 digits per part; spellings the docs leave open (+Inf, Infinity, bare j, "
            "non-ASCII digits, separator right after a sign inside the literal or after a leading dot) "
            "are observed only. Sign of zero is not gated.",
    "technique": "runtime monitoring: differential of the reader's model (type, value) against CPython "
                 "literal evaluation and a documented-grammar recogniser",
}

KEY_LEADZERO = "leading-zero-int-with-sign-or-separator"
KEY_SEP_AFTER_SIGN = "separator-after-sign-read-as-number"
KEY_USPACE = "non-ascii-space-padded-number"


def known_feature_keys(text):
    """Input features of the recorded findings (purely lexical, via the recogniser)."""
    ref = tg.classify_number(text)
    keys = []
    if ref[0] == "not":
        if "sep-after-sign" in ref[1]:
            keys.append(KEY_SEP_AFTER_SIGN)
        if "uspace" in ref[1]:
            keys.append(KEY_USPACE)
    elif ref[0] == "num" and ref[1] == "Integer" and "leadzero" in ref[3] and ref[2] != 0 \
            and ("signed" in ref[3] or "sep" in ref[3]):
        keys.append(KEY_LEADZERO)
    return keys


def cases(seed, tier, shard, nshards):
    i = 0
    quota = tg.Quota(40)
    while True:
        rng = rng_for(seed, ID, shard, i)
        i += 1
        r = rng.random()
        if r < 0.4:
            case = {"text": tg.py_number(rng), "cls": "py"}
        elif r < 0.7:
            case = {"text": tg.ext_number(rng), "cls": "ext"}
        else:
            case = {"text": tg.near_miss(rng), "cls": "near"}
        if quota.admit(known_feature_keys(case["text"])):
            yield case


def case_key(case):
    return case["text"]


def _read(text):
    import hy.models as M
    ms, exc = tg.read_all(text)
    if exc is not None:
        return ("exc", tg.exc_name(exc), tg.is_reader_error(exc))
    if len(ms) != 1:
        return ("models", [type(m).__name__ for m in ms])
    m = ms[0]
    if type(m) is M.Integer:
        return ("num", "Integer", int(m))
    if type(m) is M.Float:
        return ("num", "Float", float(m))
    if type(m) is M.Complex:
        return ("num", "Complex", complex(m))
    if type(m) is M.Symbol:
        return ("sym", str(m))
    return ("other", type(m).__name__)


def _show(got):
    return repr(got)[:160]


def _value_eq(a, b):
    return type(a) is type(b) and _nan_eq(a, b)


def _py_value(text):
    """Python's own reading of `text` as one numeric literal with an optional
    sign, or None. (`ast.literal_eval` alone would also evaluate the *expression*
    `0x1+2j`, which is neither a Python literal nor understood by complex().)"""
    try:
        node = ast.parse(text, mode="eval").body
    except (SyntaxError, ValueError):
        return None
    if isinstance(node, ast.UnaryOp) and isinstance(node.op, (ast.UAdd, ast.USub)):
        node = node.operand
    if not (isinstance(node, ast.Constant) and type(node.value) in (int, float, complex)):
        return None
    return ast.literal_eval(text)


def _check(text, ref, got):
    """-> None if the observed reading is acceptable for reference `ref`, else why."""
    if ref[0] == "num":
        _, kind, value, _ = ref
        if got[0] != "num":
            return f"{text!r} is a number by the documented rules ({kind} {value!r}) but read as {_show(got)}"
        if got[1] != kind:
            return f"{text!r} must read as {kind} {value!r} but read as {got[1]} {got[2]!r}"
        if not _value_eq(value, got[2]):
            return f"{text!r} must read as {kind} {value!r} but has value {got[2]!r}"
        return None
    if ref[0] == "not":
        if got[0] == "num":
            return (f"{text!r} is not a number by the documented rules but read as "
                    f"{got[1]} {got[2]!r}")
        if "." in text:
            # dotted expression, all-dots symbol or a reader error; never a number
            if got[0] == "exc" and not got[2]:
                return f"{text!r} raised {got[1]}, not a reader error"
            return None
        if got != ("sym", text):
            return f"{text!r} must read as the symbol of the same text but read as {_show(got)}"
        return None
    return None


def _judge(text, ref=None, got=None):
    """The whole oracle for one text -> why (str) or None."""
    ref = ref or tg.classify_number(text)
    got = got or _read(text)
    pv = _py_value(text) if text.isascii() else None
    if pv is not None:
        kind = {int: "Integer", float: "Float", complex: "Complex"}[type(pv)]
        if ref[0] != "num" or ref[1] != kind or not _value_eq(ref[2], pv):
            # the recogniser disagrees with CPython on a Python literal: harness defect
            raise AssertionError(f"recogniser {ref!r} vs literal_eval {pv!r} for {text!r}")
        why = _check(text, ("num", kind, pv, set()), got)
        if why:
            return "python literal: " + why
    why = _check(text, ref, got)
    if why:
        return why
    if got[0] == "exc" and not got[2]:
        return f"{text!r} raised {got[1]}, not a reader error"
    return None


_PAD = "".join(tg.UNI_SPACES)


def _split(text):
    core = text.strip(_PAD)
    i = text.find(core) if core else len(text)
    return text[:i], core, text[i + len(core):]


def _n_uspace(text):
    return _split(text)[1]


def _n_sepsign(text):
    l, core, r = _split(text)
    if len(core) > 1 and core[0] in "+-" and core[1] in "_,":
        core = core[1:]
    return l + core + r


def _n_leadzero(text):
    l, core, r = _split(text)
    if core.isascii():
        ref = tg.classify_number(core)
        if (ref[0] == "num" and ref[1] == "Integer" and "leadzero" in ref[3]
                and ("signed" in ref[3] or "sep" in ref[3])):
            core = core.lstrip("+-").replace("_", "").replace(",", "")
    return l + core + r


_MECHANISMS = [(KEY_USPACE, _n_uspace), (KEY_SEP_AFTER_SIGN, _n_sepsign), (KEY_LEADZERO, _n_leadzero)]


def _attribute(text):
    """A violation is attributed to a known mechanism iff the text has that
    mechanism's input feature (its normaliser changes the text) and, with the
    *other* mechanisms' features normalised away, the text still violates but
    stops violating once this feature alone is normalised away as well."""
    present = [(k, n) for k, n in _MECHANISMS if n(text) != text]
    for key, norm in present:
        t1 = text
        for k2, n2 in present:
            if k2 != key:
                t1 = n2(t1)
        if norm(t1) == t1 or _judge(t1) is None:
            continue
        if _judge(norm(t1)) is None:
            return key
    return None


def run_case(case):
    text, cls = case["text"], case["cls"]
    ref = tg.classify_number(text)
    got = _read(text)
    classes = ["cls:" + cls, "ref:" + ref[0], "got:" + got[0] + (":" + got[1] if got[0] in ("num", "exc") else "")]
    low = text.lower()
    feat_sep = "_" in text or "," in text
    feat_radix = len(low.lstrip("+-")) > 1 and low.lstrip("+-")[0] == "0" and low.lstrip("+-,_0")[:1] in ("x", "o", "b")
    feat_exp = "e" in low and not feat_radix
    feat_imag = "j" in low
    for name, f in (("sep", feat_sep), ("radix", feat_radix), ("exp", feat_exp), ("imag", feat_imag)):
        if f:
            classes.append("feat:" + name)
    res = {"ok": True, "nontrivial": bool(feat_sep or feat_radix or feat_exp or feat_imag),
           "classes": classes, "events": 1, "sample": {"text": text, "cls": cls}}

    if ref[0] == "num":
        classes.append("kind:" + ref[1])
        classes.extend("f:" + f for f in sorted(ref[3]))
    elif ref[0] == "not":
        classes.extend("n:" + f for f in sorted(ref[1]))
    else:
        classes.append("grey:" + ref[1])
        classes.append(f"grey-observed:{ref[1]}->{got[0]}" + (":" + got[1] if got[0] == "num" else ""))

    # (a) whatever Python accepts as a numeric literal must read as that type
    # and value (the generator's class does not matter); (b, c) the recogniser
    if text.isascii() and _py_value(text) is not None:
        classes.append("py-literal")
    elif cls == "py":
        raise AssertionError(f"generator produced a non-Python literal {text!r}")
    why = _judge(text, ref, got)
    if why:
        res.update(ok=False, why=why)
        key = _attribute(text)
        if key:
            res["finding"] = key
    return res


def gate(tot, classes, extra, tier):
    need = ["cls:py", "cls:ext", "cls:near", "kind:Integer", "kind:Float", "kind:Complex",
            "ref:not", "f:comma", "f:sep-repeated", "f:sep-trailing", "f:radix", "f:infnan",
            "f:complex2", "n:leading-sep", "n:infnan-case"]
    missing = [c for c in need if not classes.get(c)]
    if missing:
        return "classes-not-reached:" + ",".join(missing)
    return None
