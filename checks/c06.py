"""C06 — `let` bindings are lexically scoped.

Programs are generated in the resolved scope IR of hv/scope_ir.py (every binder
has an identity, every reference / assignment points at a binder).  Oracle: the
alpha-renamed let-free twin — the same IR rendered with every let binder given
a globally unique name and `let` replaced by `do` + `setv` — compiled *by hy
itself* and run under the same logger.  With unique names no shadowing can
occur, so plain Python scoping gives the lexically prescribed meaning.  Value,
trace and the final values of all non-let names must agree.
"""
import copy
import re

from hv.common import Trace, exec_hy, rng_for, token
from hv import scope_ir as S

ID = "C06"
LEVEL = "exploration"
RULE = ("random programs over nested let (sequential bindings, destructuring targets), fn/defn "
        "closures (parameters with defaults), setv/setx/+=/for assignments to let-bound and plain "
        "names, comprehensions inside let, over the shared pools {a b c} (ints) and {f g} "
        "(functions), at module and function level; each compared with its alpha-renamed let-free "
        "twin compiled by hy. Non-trivial = some user name has >= 2 binders, one of them a let "
        "binder, and the program has a closure reading a let variable or an assignment to a let "
        "variable; distinct by program text. Sub-workload transparent-let (every third case): programs "
        "with defn / defclass / import :as of let-bound names, closures, setv and reads, each compared "
        "with up to 3 copies in which a run of consecutive body forms of a let / fn / module body is "
        "wrapped in (let [FRESH 0] ...); non-trivial there = a definition of a let-bound name followed "
        "by a reference to it.")
FLOOR = {"quick": 300, "thorough": 800}
BUDGET = {"quick": 26, "thorough": 480}
CASE_TIMEOUT = 20
NEEDS_EVENTS = True
# (ScopeLet.access / .assign are wrapped by NodeRef.wrap, whose closure hides the code
# object from hv/reach.py; both funnel through _rename_if_bound, which is anchored)
ANCHORS = ["hy.scoping:ScopeLet.define",
           "hy.scoping:ScopeLet.add", "hy.scoping:ScopeLet._rename_if_bound",
           "hy.scoping:ScopeFn.__exit__", "hy.scoping:ScopeGen.iterator",
           "hy.core.result_macros:compile_let"]
ASSUMPTIONS = [
    "hy's non-let machinery (setv, fn, defn, lfor, for, if, do) is shared by both sides; only "
    "renaming errors can make them differ",
    "transparent-let: a let binding a name that occurs nowhere in the program is an identity wrapper "
    "around a run of body forms (lexical scoping); no meaning is assumed for defn/defclass/import of a "
    "let-bound name beyond that",
    "the resolver of hv/scope_ir.py encodes the documented let rules (docs/api.rst) and Python's "
    "rules for every other binder; the first iterable of a comprehension belongs to the enclosing scope",
]
MANIFEST = {
    "text": "Randomly generated programs nesting let, closures, assignments to let-bound names and "
            "comprehensions over a three-name pool are executed next to an alpha-renamed let-free twin "
            "compiled by hy itself; result value, logged-read trace and final values of all non-let "
            "names must be identical. Exploration: held on the programs run, nothing beyond.",
    "note": "Trusted: hy's let-free compilation paths (shared by both sides), the scope resolver that "
            "decides which occurrences are let-bound. Bounds: binding-construct nesting <= 4, <= ~60 nodes. "
            "Not generated (docs leave open): del/import/defn/defclass of a let name, assignment to a let "
            "name from a nested function without nonlocal, references to a comprehension variable before "
            "its clause (except in the first iterable), let in class bodies.",
    "technique": "runtime monitoring: differential execution against an alpha-renamed let-free twin "
                 "under a trace logger, namespace snapshots",
}

INTS = ["a", "b", "c"]
FNS = ["f", "g"]
# Mechanism found on the unchanged tree (attribution in run_case):
# ScopeGen.iterator removes from `self.seen` every pending reference whose name is an
# iteration / :setv variable -- including the references made by the *first iterable*,
# which lexically belong to the enclosing scope.  They are then never handed to the
# enclosing ScopeLet, i.e. never renamed:
#   (setv x 5) (let [x 2] (lfor x (range x) x))  -> iterates range(5), not range(2)
#   (let [x [1 2]] (lfor x x (* x 10)))          -> NameError: x
# Repair: when the first clause is an iteration / :setv clause, pass the references seen
# while compiling its source expression to `self.parent.access` before they are dropped.
KNOWN_KEY = "let-ref-in-first-iterable-not-renamed"


# ------------------------------------------------------------------ generator

class Ctx:
    __slots__ = ("let_vis", "assignable", "fn_ready", "fn_free", "depth", "avoid", "in_comp")

    def __init__(self):
        self.let_vis = set()      # names let-bound and lexically visible here
        self.assignable = set()   # int names that plain assignment may target here
        self.fn_ready = {}        # callable names -> (required, total) parameter counts
        self.fn_free = set()      # fn names this Python scope may still bind (shared per scope)
        self.depth = 0            # nesting of binding constructs
        self.avoid = set()        # names that may not be read here (unbound comprehension variables)
        self.in_comp = False

    def child(self, **kw):
        c = Ctx()
        c.let_vis = set(self.let_vis)
        c.assignable = set(self.assignable)
        c.fn_ready = dict(self.fn_ready)
        c.fn_free = self.fn_free
        c.depth = self.depth
        c.avoid = set(self.avoid)
        c.in_comp = self.in_comp
        for k, v in kw.items():
            setattr(c, k, v)
        return c


class Gen:
    def __init__(self, rng, maxdepth, nodes=15):
        self.r = rng
        self.lid = 0
        self.const = 10
        self.budget = nodes
        self.maxdepth = maxdepth

    def k(self):
        self.const += 1
        return S.Int(self.const)

    def site(self):
        self.lid += 1
        return self.lid

    def name(self, ctx):
        pool = [n for n in INTS if n not in ctx.avoid] or ["a"]
        return self.r.choice(pool)

    def leaf(self, ctx):
        self.budget -= 1
        x = self.r.random()
        if x < 0.2:
            return self.k()
        ref = S.Ref(self.name(ctx))
        if x < 0.75:
            return S.Log(self.site(), ref)
        return ref

    def small(self, ctx):
        return S.Op(self.r.choice(["+", "-", "*"]), self.leaf(ctx), self.leaf(ctx))

    # ---- expressions (int valued)
    def expr(self, ctx):
        self.budget -= 1
        r = self.r
        deep = ctx.depth >= self.maxdepth or self.budget <= 0
        choices = [("leaf", 3), ("small", 2)]
        if not deep:
            choices += [("let", 6), ("do", 2), ("if", 1.5), ("ifn", 3), ("comp", 2.5)]
        if ctx.fn_ready:
            choices.append(("call", 4))
        targets = self.targets(ctx)
        if targets and not ctx.in_comp:
            choices.append(("setx", 1.5))
        kind = r.choices([c[0] for c in choices], [c[1] for c in choices])[0]
        if kind == "leaf":
            return self.leaf(ctx)
        if kind == "small":
            return self.small(ctx)
        if kind == "let":
            return self.let(ctx)
        if kind == "do":
            body = [self.stmt(ctx) for _ in range(r.randint(1, 2))]
            return S.Do(*body, self.expr(ctx))
        if kind == "if":
            t = S.Op(r.choice(["<", ">", "="]), self.leaf(ctx), self.leaf(ctx))
            return S.If(t, self.expr(ctx.child()), self.expr(ctx.child()))
        if kind == "ifn":
            fn, np = self.mkfn(ctx, None)
            return S.Call(fn, *[self.leaf(ctx) for _ in range(r.randint(*np))])
        if kind == "comp":
            return S.Call(S.Ref("sum"), self.comp(ctx))
        if kind == "call":
            f = r.choice(sorted(ctx.fn_ready))
            return S.Call(S.Ref(f), *[self.leaf(ctx) for _ in range(r.randint(*ctx.fn_ready[f]))])
        if kind == "setx":
            return S.Set(S.TN(r.choice(targets)), self.expr(ctx), "setx")
        raise AssertionError(kind)

    def targets(self, ctx):
        return sorted(n for n in ctx.assignable if n not in ctx.avoid)

    # ---- statements
    def stmt(self, ctx):
        self.budget -= 1
        r = self.r
        deep = ctx.depth >= self.maxdepth or self.budget <= 0
        targets = self.targets(ctx)
        choices = [("log", 2)]
        if targets:
            choices += [("setv", 5), ("aug", 1.5)]
            if len(targets) >= 2:
                choices.append(("setv2", 1))
            if not deep and not ctx.in_comp:
                choices += [("for", 1), ("compdo", 1.2)]
        free = sorted(n for n in ctx.fn_free if n not in ctx.let_vis)
        if free and not deep and not ctx.in_comp:
            choices.append(("bindfn", 5))
        if not deep:
            choices.append(("expr", 2.5))
        kind = r.choices([c[0] for c in choices], [c[1] for c in choices])[0]
        if kind == "log":
            return S.Log(self.site(), S.Ref(self.name(ctx)))
        if kind == "setv":
            return S.Set(S.TN(r.choice(targets)), self.expr(ctx))
        if kind == "aug":
            return S.Set(S.TN(r.choice(targets)), self.leaf(ctx), "+=")
        if kind == "setv2":
            x, y = r.sample(targets, 2)
            return S.Set(S.TL(S.TN(x), S.TN(y)), S.Lst(self.leaf(ctx), self.leaf(ctx)))
        if kind == "for":
            x = r.choice(targets)
            it = S.Range(S.Op("%", self.leaf(ctx), S.Int(3)))
            body = [self.stmt(ctx.child()) for _ in range(r.randint(1, 2))]
            return S.For(S.TN(x), it, *body)
        if kind == "compdo":
            return self.comp(ctx, body_assign=True)
        if kind == "bindfn":
            name = r.choice(free)
            ctx.fn_free.discard(name)
            if r.random() < 0.5:
                fn, np = self.mkfn(ctx, name)
                node = fn
            else:
                fn, np = self.mkfn(ctx, None)
                node = S.Set(S.TN(name), fn)
            ctx.fn_ready[name] = np
            return node
        return self.expr(ctx)

    # ---- binding constructs
    def let(self, ctx):
        r = self.r
        inner = ctx.child(depth=ctx.depth + 1)
        binds = []
        for _ in range(r.choices([1, 2, 3], [5, 4, 2])[0]):
            x = r.random()
            if x < 0.12 and not ctx.in_comp:
                name = r.choice(FNS)
                fn, np = self.mkfn(inner, None)
                binds.append([S.TN(name), fn])
                inner.fn_ready[name] = np
                inner.let_vis.add(name)
            elif x < 0.27:
                n1, n2 = r.sample(INTS, 2)
                binds.append([S.TL(S.TN(n1), S.TN(n2)), S.Lst(self.leaf(inner), self.leaf(inner))])
                for n in (n1, n2):
                    inner.let_vis.add(n)
                    inner.assignable.add(n)
                    inner.avoid.discard(n)
            else:
                name = r.choice(INTS)
                v = self.expr(inner) if r.random() < 0.6 else self.leaf(inner)
                binds.append([S.TN(name), v])
                inner.let_vis.add(name)
                inner.assignable.add(name)
                inner.avoid.discard(name)
        body = [self.stmt(inner) for _ in range(r.choices([0, 1, 2], [3, 4, 2])[0])]
        return S.Let(binds, *body, self.expr(inner))

    def mkfn(self, ctx, name):
        r = self.r
        params = r.sample(INTS, r.choices([0, 1, 2], [4, 4, 1])[0])
        plist = []
        for p in params:
            plist.append([p, self.leaf(ctx) if r.random() < 0.4 else None])
        # parameters without default first (Python rule)
        plist.sort(key=lambda p: p[1] is not None)
        nreq = sum(1 for p in plist if p[1] is None)
        # locals of the new function: never a name that is let-bound outside
        # (assignment to a let name from a nested function: not specified)
        cand = [n for n in INTS if n not in params and n not in ctx.let_vis]
        locs = [n for n in cand if r.random() < 0.4]
        fcand = [n for n in FNS if n not in ctx.let_vis]
        flocs = {n for n in fcand if r.random() < 0.25}
        inner = ctx.child(depth=ctx.depth + 1, in_comp=False)
        inner.assignable = set(params) | set(locs)
        inner.let_vis -= set(params) | set(locs) | flocs
        inner.avoid = set()
        inner.fn_free = set(flocs)
        for n in flocs:
            inner.fn_ready.pop(n, None)
        body = [S.Set(S.TN(n), self.k()) for n in locs]
        body += [self.stmt(inner) for _ in range(r.choices([0, 1, 2], [4, 4, 1])[0])]
        body.append(self.expr(inner))
        fn = S.Fn(name, plist, *body)
        # callers pass between nreq and len(plist) arguments
        return fn, (nreq, len(plist))

    def comp(self, ctx, body_assign=False):
        r = self.r
        inner = ctx.child(depth=ctx.depth + 1, in_comp=True)
        nfor = r.choices([1, 2], [3, 1])[0]
        vars_ = [r.choice(INTS) for _ in range(nfor)]
        setv_var = r.choice(INTS) if r.random() < 0.3 else None
        bound = set(vars_) | ({setv_var} if setv_var else set())
        clauses = []
        # first iterable: enclosing scope; may read a name the comprehension binds
        # (with a `:do` clause hy uses the generator-function strategy, where such a
        # read fails on both sides -- C04's territory -- so it is not generated then)
        first = ctx.child(avoid=set(ctx.avoid) | bound) if body_assign else ctx
        clauses.append({"t": "for", "tg": S.TN(vars_[0]),
                        "e": S.Range(S.Op("%", self.leaf(first), S.Int(4)))})
        inner.avoid = set(ctx.avoid) | (bound - {vars_[0]})
        for v in vars_[1:]:
            clauses.append({"t": "for", "tg": S.TN(v),
                            "e": S.Range(S.Op("%", self.leaf(inner), S.Int(3)))})
            inner.avoid.discard(v)
        if r.random() < 0.35:
            clauses.append({"t": "if", "e": S.Op(r.choice(["<", "!="]), self.leaf(inner), self.leaf(inner))})
        if setv_var:
            clauses.append({"t": "setv", "tg": S.TN(setv_var), "e": self.small(inner)})
            inner.avoid.discard(setv_var)
        inner.assignable = set(ctx.assignable) - bound
        if body_assign:
            tg = self.targets(inner)
            if tg:
                clauses.append({"t": "do", "e": S.Set(S.TN(r.choice(tg)), self.leaf(inner))})
        elt = self.small(inner) if r.random() < 0.5 else self.leaf(inner)
        return S.Comp("lfor", clauses, elt)


SNAP_RAW = S.Raw("(SNAP (locals))")


def build(rng, mode, maxdepth, nodes=15):
    g = Gen(rng, maxdepth, nodes)
    ctx = Ctx()
    ctx.fn_free = set(FNS)
    body = []
    prelude = [S.Set(S.TN(n), g.k()) for n in INTS]
    if mode == "module":
        ctx.assignable = set(INTS)
        for _ in range(rng.randint(1, 3)):
            body.append(g.stmt(ctx))
        body.append(S.Set(S.TN("R"), g.expr(ctx)))
        mod = S.Mod(*prelude, *body)
    else:
        locs = [n for n in INTS if rng.random() < 0.6]
        ctx.assignable = set(locs)
        fbody = [S.Set(S.TN(n), g.k()) for n in locs]
        for _ in range(rng.randint(1, 3)):
            fbody.append(g.stmt(ctx))
        fbody.append(S.Set(S.TN("V"), g.expr(ctx)))
        fbody.append(S.Lst(S.Ref("V"), SNAP_RAW))
        mod = S.Mod(*prelude, S.Fn("main", [], *fbody), S.Set(S.TN("R"), S.Call(S.Ref("main"))))
    return mod


def binder_census(mod):
    """user name -> set of binder ids (by kind), from resolver annotations."""
    names = {}

    def visit(n):
        if isinstance(n, dict):
            if n.get("k") in ("ref", "tn") and "b" in n:
                names.setdefault(n["n"], set()).add((n.get("bt"), n["b"]))
            if n.get("k") == "fn":
                for p in n["params"]:
                    names.setdefault(p[0], set()).add(("param", id(n)))
            for v in n.values():
                visit(v)
        elif isinstance(n, list):
            for v in n:
                visit(v)
    visit(mod)
    return names


def normalise_first_iter(mod):
    """Normaliser of the known finding: give every comprehension variable that
    is also read in that comprehension's first iterable a fresh name."""
    m = S.strip(copy.deepcopy(mod))
    S.resolve(m)
    fresh = [0]
    renames = {}

    def find(n):
        if isinstance(n, dict):
            if n.get("k") == "comp" and n.get("_first_iter_shadow"):
                for c in n["clauses"]:
                    if c["t"] in ("for", "setv"):
                        for t in S.target_names(c["tg"]):
                            if t["n"] in n["_first_iter_shadow"]:
                                if t["b"] not in renames:
                                    fresh[0] += 1
                                    renames[t["b"]] = f"q{fresh[0]}"
            for v in n.values():
                find(v)
        elif isinstance(n, list):
            for v in n:
                find(v)
    find(m)

    def apply(n):
        if isinstance(n, dict):
            if n.get("k") in ("ref", "tn") and n.get("bt") == "comp" and n.get("b") in renames:
                n["n"] = renames[n["b"]]
            for v in n.values():
                apply(v)
        elif isinstance(n, list):
            for v in n:
                apply(v)
    apply(m)
    S.strip(m)
    r = S.resolve(m)
    if r.carve or any(f[0] == "first-iter-shadow" for f in r.features):
        return None
    return {"hy": S.to_hy(m), "twin": S.to_hy(m, True)}


# ------------------------------------------- sub-workload: transparent let
#
# defn / defclass / import of a let-bound name are carved out of the twin
# oracle above (the docs do not say what later references mean).  What lexical
# scoping does justify, whatever that meaning is: wrapping a body form (or a run
# of consecutive body forms) of a let / fn / module body in `(let [FRESH 0] ...)`,
# FRESH being used nowhere in the program, cannot change the program.  Both
# variants are compiled by hy; value, trace and final non-let names must agree.
#
# Tree: a form is a string or ["let", binds, body] | ["defn", name, body] |
# ["fnset", name, body] | ["if", test, body, body]; bodies are lists of forms.

FRESH = "zz9"
HNAMES = ["a", "b", "h"]
IMPORTS = ["math", "os.path", "itertools"]


class TGen:
    def __init__(self, rng, maxdepth, nodes):
        self.r = rng
        self.maxdepth = maxdepth
        self.budget = nodes
        self.lid = 0
        self.const = 20
        self.nclos = 0
        self.hoists = []        # (kind, name let-bound at that point?)
        self.refs_after_hoist = 0
        self.hoisted = set()

    def site(self):
        self.lid += 1
        return self.lid

    def K(self):
        self.const += 1
        return self.const

    def use(self, n):
        if n in self.hoisted:
            self.refs_after_hoist += 1
        return n

    def hoist(self, let_vis):
        r = self.r
        n = r.choice(sorted(let_vis)) if let_vis and r.random() < 0.85 else r.choice(HNAMES)
        kind = r.choice(["defn", "defn", "defclass", "import"])
        self.hoists.append((kind, n in let_vis))
        if n in let_vis:
            self.hoisted.add(n)
        if kind == "defn":
            o = r.choice(HNAMES)
            return ["defn", n, [f"(L {self.site()} {o})" if o != n else f"(L {self.site()} 0)", str(self.K())]]
        if kind == "defclass":
            return f"(defclass {n} [] (setv v {self.K()}))"
        return f"(import {r.choice(IMPORTS)} :as {n})"

    def body(self, depth, let_vis, closures, n):
        out = []
        for _ in range(n):
            out.append(self.form(depth, let_vis, closures))
        return out

    def form(self, depth, let_vis, closures):
        r = self.r
        self.budget -= 1
        deep = depth >= self.maxdepth or self.budget <= 0
        ch = [("log", 4), ("set", 2.5), ("hoist", 3.5), ("callit", 2)]
        if closures:
            ch.append(("callclos", 2.5))
        if not deep:
            ch += [("let", 5), ("clos", 2.5), ("if", 1), ("fnbody", 1)]
        k = r.choices([c[0] for c in ch], [c[1] for c in ch])[0]
        if k == "log":
            return f"(L {self.site()} {self.use(r.choice(HNAMES))})"
        if k == "set":
            return f"(setv {self.use(r.choice(HNAMES))} {self.K()})"
        if k == "hoist":
            return self.hoist(let_vis)
        if k == "callit":
            n = self.use(r.choice(HNAMES))
            return f"(when (callable {n}) (L {self.site()} ({n})))"
        if k == "callclos":
            return f"(L {self.site()} ({r.choice(closures)}))"
        if k == "let":
            names = r.sample(HNAMES, r.choices([1, 2], [3, 2])[0])
            binds = "[" + " ".join(f"{n} {self.K()}" for n in names) + "]"
            return ["let", binds, self.body(depth + 1, let_vis | set(names), list(closures), r.randint(2, 4))]
        if k == "clos":
            self.nclos += 1
            g = f"g{self.nclos}"
            n = self.use(r.choice(HNAMES))
            node = ["fnset", g, [f"(L {self.site()} {n})"]]
            closures.append(g)
            return node
        if k == "if":
            t = f"(< (L {self.site()} {self.K()}) {self.K()})"
            return ["if", t, self.body(depth + 1, let_vis, list(closures), 1),
                    self.body(depth + 1, let_vis, list(closures), 1)]
        # a nested function with its own body, called at once
        self.nclos += 1
        g = f"g{self.nclos}"
        closures.append(g)
        return ["fnset", g, self.body(depth + 1, set(let_vis), list(closures[:-1]), r.randint(1, 3))
                + [str(self.K())]]


def t_render(f):
    if isinstance(f, str):
        return f
    k = f[0]
    B = lambda body: "".join(" " + t_render(x) for x in body)
    if k == "let":
        return f"(let {f[1]}{B(f[2])})"
    if k == "defn":
        return f"(defn {f[1]} []{B(f[2])})"
    if k == "fnset":
        return f"(setv {f[1]} (fn []{B(f[2])}))"
    if k == "if":
        return f"(if {f[1]} (do{B(f[2])}) (do{B(f[3])}))"
    raise ValueError(k)


def t_bodies(body, out, wrappable=True):
    """all let / fn / module bodies (lists) in which a run may be wrapped"""
    if wrappable:
        out.append(body)
    for f in body:
        if isinstance(f, list):
            if f[0] in ("let", "defn", "fnset"):
                t_bodies(f[2], out, True)
            elif f[0] == "if":
                t_bodies(f[2], out, False)
                t_bodies(f[3], out, False)


def t_has_hoist(f):
    if isinstance(f, str):
        return f.startswith(("(defclass", "(import"))
    if f[0] == "defn" and not f[1].startswith("main"):
        return True
    return False


def t_program(rng, tier):
    import copy as _copy
    g = TGen(rng, 3 if tier != "thorough" else 4, 16 if tier != "thorough" else 26)
    mode = "module" if rng.random() < 0.5 else "function"
    prelude = [f"(setv {n} {g.K()})" for n in HNAMES]
    body = g.body(0, set(), [], rng.randint(3, 5))
    tail_reads = [f"(L {g.site()} {g.use(n)})" for n in HNAMES]
    local_init = [f"(setv {n} {g.K()})" for n in HNAMES]   # function mode: main's locals start bound

    def whole(b):
        if mode == "module":
            return "\n".join(prelude + [t_render(f) for f in b + tail_reads])
        return ("\n".join(prelude) + "\n(defn main [] " + " ".join(local_init)
                + "".join(" " + t_render(f) for f in b + tail_reads)
                + " (SNAP (locals)))\n(setv R (main))")

    base = whole(body)
    variants = []
    for _ in range(3):
        b2 = _copy.deepcopy(body)
        bodies = []
        t_bodies(b2, bodies)
        bodies = [b for b in bodies if b]
        # prefer a body that directly holds a defn/defclass/import
        pref = [b for b in bodies if any(t_has_hoist(f) for f in b)]
        tgt = rng.choice(pref) if pref and rng.random() < 0.7 else rng.choice(bodies)
        idx = [i for i, f in enumerate(tgt) if t_has_hoist(f)]
        if idx and rng.random() < 0.75:
            i = rng.choice(idx)
            lo = rng.randint(max(0, i - 1), i)
            hi = rng.randint(i + 1, min(len(tgt), i + 2))
        else:
            lo = rng.randrange(len(tgt))
            hi = rng.randint(lo + 1, len(tgt))
        # a fn body's last form is its return value: a let returns its last form too
        tgt[lo:hi] = [["let", f"[{FRESH} 0]", tgt[lo:hi]]]
        text = whole(b2)
        if text != base and text not in variants:
            variants.append(text)
    return {"kind": "transparent", "hy": base, "variants": variants, "mode": mode,
            "hoists": sorted({h[0] for h in g.hoists}),
            "hoist_of_let_name": any(h[1] for h in g.hoists),
            "refs_after_hoist": g.refs_after_hoist}


def regression_cases():
    """Witnesses of the repaired mechanism b6d06a5 (let-ref-in-first-iterable-not-renamed),
    with hand-written alpha-renamed twins."""
    pre = "(setv a 11)\n(setv b 12)\n(setv c 13)\n"
    progs = [
        ("(setv R (let [a 2] (sum (lfor a (range (L 1 a)) (L 2 a)))))",
         "(setv R (do (setv a_L1 2) (sum (lfor a (range (L 1 a_L1)) (L 2 a)))))"),
        ("(setv R (let [b [1 2]] (lfor b (L 1 b) (* b 10))))",
         "(setv R (do (setv b_L1 [1 2]) (lfor b (L 1 b_L1) (* b 10))))"),
        ("(setv R (let [c 3] (lfor a (range (L 1 c)) :setv c (* a 2) (L 2 c))))",
         "(setv R (do (setv c_L1 3) (lfor a (range (L 1 c_L1)) :setv c (* a 2) (L 2 c))))"),
        ("(defn main [] (let [a 2] (setv V (sum (gfor a (range (L 1 a)) a)))) [V (SNAP (locals))])\n"
         "(setv R (main))",
         "(defn main [] (do (setv a_L1 2) (setv V (sum (gfor a (range (L 1 a_L1)) a)))) [V (SNAP (locals))])\n"
         "(setv R (main))"),
    ]
    for hy, twin in progs:
        yield {"hy": pre + hy, "twin": pre + twin, "mode": "function" if "main" in hy else "module",
               "stats": {}, "multi": ["a"], "features": ["first-iter-shadow"], "nlet": 1,
               "regress": KNOWN_KEY}


def cases(seed, tier, shard, nshards):
    for j, case in enumerate(regression_cases()):
        if j % nshards == shard:
            yield case
    i = 0
    maxdepth = 4 if tier != "thorough" else 5
    while True:
        rng = rng_for(seed, ID, shard, i)
        i += 1
        if i % 3 == 0:
            case = t_program(rng, tier)
            if case["variants"] and case["hoists"]:
                yield case
            continue
        mode = "module" if rng.random() < 0.5 else "function"
        mod = build(rng, mode, maxdepth, 15 if tier != "thorough" else 24)
        res = S.resolve(mod)
        if res.carve:
            continue
        census = binder_census(mod)
        multi = [n for n, bs in census.items()
                 if len(bs) >= 2 and any(b[0] == "let" for b in bs)]
        nlet = sum(1 for b in res.binders.values() if b["kind"] == "let")
        interesting = bool(multi) and (res.stats["closure_let_refs"] or res.stats["let_assigns"])
        # generation is cheap, running is not: keep every program that meets the
        # non-trivial rule, a third of the other let programs, no let-free ones
        if nlet == 0 or (not interesting and rng.random() < 0.67):
            continue
        feats = sorted({f[0] for f in res.features})
        case = {"hy": S.to_hy(mod), "twin": S.to_hy(mod, True), "mode": mode,
                "stats": res.stats, "multi": sorted(multi), "features": feats,
                "nlet": sum(1 for b in res.binders.values() if b["kind"] == "let")}
        if "first-iter-shadow" in feats:
            case["norm"] = normalise_first_iter(mod)
        yield case


def case_key(case):
    return case["hy"]


# --------------------------------------------------------------------- oracle

_TWIN_NAME = re.compile(r"_L\d+$")


def _visible(d):
    out = {}
    for k, v in d.items():
        if k.startswith("_hy_") or k.startswith("__") or _TWIN_NAME.search(k):
            continue
        if k in ("L", "SNAP", "hy", "main", "R", "V"):
            continue
        out[k] = token(v) if not callable(v) else ["callable"]
    return out


def run_text(text):
    tr = Trace()
    snaps = []

    def SNAP(d):
        snaps.append(_visible(d))
        return len(snaps)

    m, exc, tree, phase = exec_hy(text, {"L": tr.L, "SNAP": SNAP})
    r = m.__dict__.get("R", "<unset>")
    return {"exc": None if exc is None else [phase, type(exc).__name__],
            "excmsg": None if exc is None else str(exc)[:200],
            "value": token(r) if not callable(r) else ["callable"],
            "trace": tr.events, "globals": _visible(m.__dict__), "locals": snaps}


def compare(a, b):
    for key, what in (("exc", "escaping exception"), ("trace", "trace of logged reads"),
                      ("value", "result value"), ("locals", "final function-level names"),
                      ("globals", "final module-level names")):
        if a[key] != b[key]:
            extra = f" ({a['excmsg']})" if key == "exc" and a["exc"] else ""
            return f"{what}: let program {a[key]!r}{extra} vs let-free twin {b[key]!r}"
    return None


def run_transparent(case):
    a = run_text(case["hy"])
    classes = ["transparent-let", "mode:" + case["mode"]] + ["hoist:" + h for h in case["hoists"]]
    if case.get("hoist_of_let_name"):
        classes.append("hoist-of-let-bound-name")
    if a["exc"]:
        classes.append("base-raises:" + a["exc"][1])
    events = len(a["trace"])
    nt = bool(case.get("hoist_of_let_name") and case.get("refs_after_hoist"))
    res = {"ok": True, "nontrivial": nt, "classes": classes, "n": len(case["variants"]),
           "nt_keys": list(case["variants"]) if nt else [],
           "sample": {"hy": case["hy"], "wrapped": case["variants"][0]}}
    for v in case["variants"]:
        b = run_text(v)
        events += len(b["trace"])
        why = compare(a, b)
        if why is not None:
            why = why.replace("let program", "program").replace("let-free twin", "same program with a run of "
                              "body forms wrapped in (let [%s 0] ...)" % FRESH)
            res.update(ok=False, why=f"{why}\n--- program:\n{case['hy']}\n--- wrapped:\n{v}")
            break
    res["events"] = events
    return res


def run_case(case):
    if case.get("kind") == "transparent":
        return run_transparent(case)
    a = run_text(case["hy"])
    b = run_text(case["twin"])
    st = case.get("stats", {})
    nontrivial = bool(case.get("multi")) and (st.get("closure_let_refs", 0) > 0 or st.get("let_assigns", 0) > 0)
    classes = ["mode:" + case["mode"], "nlet:%d" % min(case.get("nlet", 0), 6)]
    classes += ["feat:" + f for f in case.get("features", [])]
    if case.get("regress"):
        classes.append("regress:" + case["regress"])
    if st.get("closure_let_refs"):
        classes.append("closure-reads-let")
    if st.get("let_assigns"):
        classes.append("assign-to-let")
    if case.get("multi"):
        classes.append("shadowing")
    if b["exc"]:
        classes.append("twin-raises:" + b["exc"][1])
    res = {"ok": True, "nontrivial": nontrivial, "classes": classes,
           "events": len(a["trace"]) + len(b["trace"]),
           "sample": {"hy": case["hy"], "twin": case["twin"]}}
    why = compare(a, b)
    if why is None:
        return res
    res.update(ok=False, why=why)
    norm = case.get("norm")
    if norm:
        na, nb = run_text(norm["hy"]), run_text(norm["twin"])
        if compare(na, nb) is None:
            res["finding"] = KNOWN_KEY
            res["why"] += ("  [attributed: disappears when the comprehension variable that is also read in "
                           "the first iterable is renamed: " + norm["hy"] + "]")
    return res
