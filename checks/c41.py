"""C41 — the `hy` command behaves the same from -c, FILE, stdin `-` and -m.

One generated program and argument list is run in the four invocation modes,
with the installed `hy` script and (rotating on the quick tier) with
`python -m hy`, in a scratch cwd with byte-code enabled in a per-case cache; FILE
and -m are also re-run from the cache (rotating on the quick tier).  The program prints sys.argv[0] on a tagged line, sys.argv[1:] as JSON
and its results.

Oracle: stdout (without the argv[0] line) and exit status pairwise equal over
all observations; argv[1:] exactly the trailing arguments passed; argv[0] per
the table of Python's command-line docs that docs/cli.rst defers to: "-c",
FILE, "-", full path of the module file.  stderr is not compared.

Carve-outs (beyond DESIGN §7):
* FILE mode: sys.argv[0] may be the script name as given *or* an absolute path of
  the same file — Python's sys.argv docs leave open "whether this is a full
  pathname or not" (hy hands the path to runpy.run_path, which stores the
  absolute one);
* no program starts with a shebang line: "Shebangs aren't real Hy syntax"
  (docs/syntax.rst) and tests/test_bin.py asserts `hy -c '#!…'` is an error, so
  such a text is a valid program for FILE / -m only;
* programs reference only names they import themselves (in -c / stdin mode the
  program shares `__main__` with the launcher script, whose globals are visible);
* REPL options (-i, --spy, --repl-output-fn) appear only as trailing arguments.
Every non-failing-to-compile program must report sys.argv on its first lines, so
"all modes equally consumed the argument" cannot pass as agreement.
"""
import json
import os

from hv.common import rng_for
from hv.proc import CaseDir, child_problem, compiled_paths, hy_script, python, skip_gate

ID = "C41"
LEVEL = "exploration"
RULE = ("short generated programs (print results, sys.argv, __name__; exit via sys.exit n/str/None; raise at run time; "
        "fail to compile; define/use/require a macro) x trailing argument lists of 0-4 items from "
        "{a, -i, -c, -m, --, --spy, -B, -, --x=1, '', spaces, Unicode, -h, --help, -v, --version, ...} x option "
        "spellings before the program (-B -E -u -BE --unbuffered, -Bc CODE, -cCODE, -c=CODE, -mMOD, -m=MOD, --), each "
        "run in the 4 modes with `hy`, plus (quick, rotating) one mode with `python -m hy` or one cached re-run of FILE / -m, (thorough) all 4 modes with `python -m hy` and both cached re-runs. "
        "`--` (or another option-like item) is the FIRST trailing argument in ~30 % of the cases and in the first cases of every shard. "
        "Non-trivial = trailing argument list containing an option-like item (starts with '-'); distinct by "
        "(program, arguments, option spellings).")
FLOOR = {"quick": 12, "thorough": 200}
BUDGET = {"quick": 40, "thorough": 600}
CHILD_TIMEOUT = 30       # per child process
CASE_TIMEOUT = 340       # > 10 children (thorough) x CHILD_TIMEOUT; quick runs 5
REPLAY_TIMEOUT = 340
NEEDS_EVENTS = True      # events = child processes observed
ANCHORS = []   # the mechanisms run in child processes; in-process line probes cannot see them.
               # Reach is shown instead by what the children report (Compiling <path>, sys.argv, STAGE log).
ASSUMPTIONS = [
    "sys.argv[0] expectations are those of Python's `using/cmdline` docs, to which docs/cli.rst defers",
    "generated programs have no compile-time output and reference only names they import themselves",
]
MANIFEST = {
    "text": "Generated short programs and trailing argument lists (including option-like arguments such as -c, -m, --, -i, --help) are run through hy -c CODE, hy FILE, hy - (stdin) and hy -m MODULE, with the hy script and python -m hy, several option spellings before the program, in a scratch cwd with a per-case byte-code cache (FILE and -m twice: source then cache); stdout and exit status must be pairwise equal, sys.argv[1:] must be exactly the trailing arguments and sys.argv[0] what the docs specify per mode. Exploration: held on the command lines run, nothing beyond.",
    "note": "Trusted: the OS process boundary (subprocess), Python's documented sys.argv[0] table. Bounds: programs <= ~12 forms, <= 4 trailing arguments; stderr not compared; REPL options (-i, --spy, --repl-output-fn) only as trailing arguments.",
    "technique": "runtime monitoring: differential execution of the real CLI across invocation modes / launchers / cache states, observing stdout, exit status and the sys.argv the program sees",
}

ARGS_PLAIN = ["a", "b c", "", "ünï✓", "x=1", "*", "$HOME", "'q'", "0", "foo.hy"]
ARGS_OPT = ["-i", "-c", "-m", "--", "--spy", "-B", "-", "--x=1", "-h", "--help", "-v", "--version",
            "-E", "-u", "-c print", "--repl-output-fn", "-m=x", "-x", "--unbuffered", "-Bc", "-cX"]
PRE_OPTS = [[], [], [], ["-B"], ["-E"], ["-u"], ["-BE"], ["-B", "-u"], ["--unbuffered"], ["-Bu"], ["-uE"]]
MOD_NAMES = ["prog", "my-prog", "prög", "p_2"]

STMTS = [
    ('(print (+ 1 2))', None),
    ('(print (.upper "abc") :sep "")', None),
    ('(print "héllo ✓")', None),
    ('(for [i (range 3)] (print "i" i))', None),
    ('(print (lfor x (range 4) (* x x)))', None),
    ('(print __name__)', None),
    ('(setv d {"k" [1 2]}) (print (get d "k"))', None),
    ('(defn f [x [y 2]] (* x y)) (print (f 4))', None),
    ('(print (len sys.argv))', None),
    ('(print f"{(+ 1 1)}!")', None),
    ('(defmacro m2 [x] `(* ~x 2)) (print (m2 21))', "macro"),
    ('(print (hy.repr \'(a b)))', None),
    ('(print :end "" "no newline")', None),
    ('(sys.stdout.write "w\\n")', None),
    ('(try (/ 1 0) (except [e ZeroDivisionError] (print "caught")))', None),
    ('(print (if (cut sys.argv 1 None) "has-args" "no-args"))', None),
]
ENDINGS = [
    ("", "normal"), ("", "normal"), ("", "normal"),
    ("(sys.exit 0)", "exit"), ("(sys.exit 3)", "exit"), ("(sys.exit 42)", "exit"), ("(sys.exit 255)", "exit"),
    ('(sys.exit "bye")', "exit-str"), ("(sys.exit None)", "exit"), ("(sys.exit 1)", "exit"),
    ('(raise (ValueError "boom"))', "raise"), ("(/ 1 0)", "raise"), ("(undefined-name-xyz)", "raise"),
    ("(raise SystemExit)", "exit"), ("(raise (SystemExit 7))", "exit"),
    ("(print 1", "compile-fail"), ("(print 1))", "compile-fail"), ("(setv x)", "compile-fail"),
    ("(fn)", "compile-fail"), ('(print "tail")\n(defmacro)', "compile-fail"), ("#undefined-reader 1", "compile-fail"),
]


def gen(rng, tier, force_cache=None, dash_first=False):
    """force_cache = "file" | "m": a case built so that the cached re-run of that mode is
    observable (program compiles, no -B, re-run scheduled) — the gate-bearing class."""
    body = []
    feats = set()
    for _ in range(rng.randint(0, 4)):
        s, f = rng.choice(STMTS)
        body.append(s)
        if f:
            feats.add(f)
    helper = None
    pkgmod = rng.random() < 0.12
    if not pkgmod and rng.random() < 0.2:
        helper = '(defmacro hm [x] `["hm" ~x])\n'
        body.append("(require helper-macs [hm])\n(print (hm 5))")
        feats.add("require")
    end, ek = rng.choice(ENDINGS)
    if force_cache:
        end, ek = "", "normal"
    feats.add(ek)
    lines = ["(import sys json)",
             '(print "A0" (json.dumps (get sys.argv 0)))',
             '(print "AR" (json.dumps (cut sys.argv 1 None)))']
    rng.shuffle(body)
    lines += body
    if end:
        lines.append(end)
        if rng.random() < 0.3 and ek != "compile-fail":
            lines.append('(print "unreachable")')
    text = "\n".join(lines) + "\n"
    # carve-out: no shebang line.  "Shebangs aren't real Hy syntax" (docs/syntax.rst) and
    # tests/test_bin.py asserts that `hy -c '#!…'` is an error, so a program starting with
    # `#!` is a valid program only for FILE / -m.
    nargs = rng.choice([0, 1, 2, 2, 3, 3, 4])
    args = []
    for _ in range(nargs):
        args.append(rng.choice(ARGS_OPT) if rng.random() < 0.7 else rng.choice(ARGS_PLAIN))
    # stratum: exactly `--` (or another terminator-like item) as the FIRST trailing argument,
    # i.e. directly after -c CODE / -m MOD / FILE / `-`
    r = rng.random()
    if dash_first or r < 0.2:
        args = ["--"] + args[:3]
        if len(args) == 1 and rng.random() < 0.7:
            args.append(rng.choice(ARGS_PLAIN + ARGS_OPT))
    elif r < 0.3:
        args = [rng.choice(["-", "", "-c", "-m", "-i", "--spy", "-x", "-B", "-E", "-u", "-h"])] + args[:3]
    if pkgmod:
        mod_hy, relfile = "pkg.sub-mod", "pkg/sub_mod.hy"
    else:
        mod_hy = rng.choice(MOD_NAMES)
        relfile = None          # filled by run_case with hy.mangle
    spell = {
        "c": rng.choice(["-c CODE", "-c CODE", "-cCODE", "-c=CODE", "-Bc CODE", "-BcCODE"]),
        "m": rng.choice(["-m MOD", "-m MOD", "-mMOD", "-m=MOD", "-Bm MOD", "-EmMOD"]),
        "file": rng.choice(["FILE", "FILE", "./FILE", "ABS", "-- FILE", "sub/../FILE"]),
        "stdin": rng.choice(["-", "-", "-- -"]),
    }
    pre = {k: rng.choice(PRE_OPTS) for k in spell}
    # quick tier: 5 processes per case (the 4 modes with `hy`, plus either one mode with
    # `python -m hy` or one cached re-run, rotating); thorough: all 10
    if tier == "thorough":
        alt, again = ["c", "file", "stdin", "m"], ["file", "m"]
    elif rng.random() < 0.5:
        alt, again = [rng.choice(["c", "file", "stdin", "m"])], []
    else:
        alt, again = [], [rng.choice(["file", "m"])]
    if force_cache:
        again = [force_cache] if tier != "thorough" else again
        alt = alt if tier == "thorough" else []
        spell[force_cache] = {"file": "FILE", "m": "-m MOD"}[force_cache]
        pre[force_cache] = []
        if force_cache == "m":
            pre["file"] = ["-B"]     # else the FILE run, which comes first, already caches the module
    return {"alt_modes": alt, "again": again, "text": text, "args": args, "mod": mod_hy, "relfile": relfile, "helper": helper,
            "spell": spell, "pre": pre, "feats": sorted(feats)}


def cases(seed, tier, shard, nshards):
    i = 0
    while True:
        rng = rng_for(seed, ID, shard, i)
        i += 1
        # the gate-bearing classes (cached re-run of FILE, of -m) come first in every shard
        # ... and so does the `--`-as-first-trailing-argument stratum
        yield gen(rng, tier, force_cache={1: "file", 2: "m"}.get(i), dash_first=i in (1, 3))


def mangle_mod(name):
    import hy
    return ".".join(hy.mangle(p) for p in name.split("."))


def build_cmd(mode, case, launcher, cdpath, relfile, text):
    """argv for one mode; returns (argv, stdin text or None, expected argv[0] or ('path', p))"""
    spell, pre, args = case["spell"][mode], list(case["pre"][mode]), case["args"]
    if mode == "c":
        code = text
        opt = {"-c CODE": ["-c", code], "-cCODE": ["-c" + code], "-c=CODE": ["-c=" + code],
               "-Bc CODE": ["-Bc", code], "-BcCODE": ["-Bc" + code]}[spell]
        return launcher + pre + opt + args, None, "-c"
    if mode == "m":
        mod = case["mod"]
        opt = {"-m MOD": ["-m", mod], "-mMOD": ["-m" + mod], "-m=MOD": ["-m=" + mod],
               "-Bm MOD": ["-Bm", mod], "-EmMOD": ["-Em" + mod]}[spell]
        return launcher + pre + opt + args, None, ("path", os.path.join(cdpath, relfile))
    if mode == "file":
        f = {"FILE": relfile, "./FILE": "./" + relfile, "ABS": os.path.join(cdpath, relfile),
             "-- FILE": relfile, "sub/../FILE": "sub/../" + relfile}[spell]
        sep = ["--"] if spell == "-- FILE" else []
        return launcher + pre + sep + [f] + args, None, ("file", f, os.path.join(cdpath, relfile))
    if mode == "stdin":
        sep = ["--"] if spell == "-- -" else []
        return launcher + pre + sep + ["-"] + args, text, "-"
    raise ValueError(mode)


def split_out(out):
    """-> (argv0 or None, argv rest or None, remaining stdout)"""
    a0 = ar = None
    rest = []
    for line in out.split("\n"):
        if line.startswith("A0 ") and a0 is None:
            try:
                a0 = json.loads(line[3:])
                continue
            except ValueError:
                pass
        if line.startswith("AR ") and ar is None:
            try:
                ar = json.loads(line[3:])
            except ValueError:
                pass
        rest.append(line)
    return a0, ar, "\n".join(rest)


def observe(case, text):
    """Run every mode x launcher (+ cached re-runs). Returns (list of obs, problem or None, nproc)."""
    obs = []
    relfile = case["relfile"] or (mangle_mod(case["mod"]) + ".hy")
    with CaseDir("c41") as cd:
        cwd = os.path.join(cd.path, "w")
        cd.write(os.path.join("w", relfile), text)
        os.makedirs(os.path.join(cwd, "sub"), exist_ok=True)
        if relfile.startswith("pkg/"):
            cd.write("w/pkg/__init__.py", "")
        if case["helper"]:
            cd.write("w/helper_macs.hy", case["helper"])
        env = cd.env()
        launchers = [("hy", [hy_script()]), ("py-m-hy", [python(), "-m", "hy"])]
        plan = []
        for mode in ("c", "file", "stdin", "m"):
            plan.append(("hy", launchers[0][1], mode, "src"))
        for mode in case.get("alt_modes", ("c", "file", "stdin", "m")):
            plan.append(("py-m-hy", launchers[1][1], mode, "any"))
        for mode in case.get("again", ("file", "m")):
            plan.append(("hy", launchers[0][1], mode, "again"))
        for lname, l, mode, st in plan:
            argv, stdin, a0 = build_cmd(mode, case, l, cwd, relfile, text)
            r = cd.run(argv, env=env, cwd=cwd, stdin=stdin, timeout=CHILD_TIMEOUT)
            if child_problem(r):
                # timed out or killed by a signal: says nothing about hy (no generated program
                # kills itself) -> the case is skipped
                return obs, child_problem(r), len(obs)
            obs.append({"label": f"{lname}:{mode}:{st}", "mode": mode, "rc": r["rc"], "out": r["out"],
                        "err": r["err"][-700:], "want0": a0,
                        "compiled": [p for p in compiled_paths(r["err"]) if p.startswith(cd.path)],
                        "cmd": " ".join(json.dumps(x.replace(text, "CODE"), ensure_ascii=False)
                                        for x in argv[len(l):])})
    return obs, None, len(obs)


def judge(case, obs):
    """Returns why-string or None."""
    base = None
    for o in obs:
        a0, ar, rest = split_out(o["out"])
        o["a0"], o["ar"], o["rest"] = a0, ar, rest
        if base is None:
            base = o
            continue
        if o["rc"] != base["rc"] or rest != base["rest"]:
            return (f"modes differ: [{base['label']}] hy {base['cmd']} -> exit {base['rc']} stdout {base['rest']!r} "
                    f"but [{o['label']}] hy {o['cmd']} -> exit {o['rc']} stdout {rest!r}; "
                    f"stderr tails: {base['err'][-250:]!r} / {o['err'][-250:]!r}")
    for o in obs:
        if o["ar"] is None and "compile-fail" not in case["feats"]:
            return (f"[{o['label']}] hy {o['cmd']}: the program never reported sys.argv (its first statement) — "
                    f"exit {o['rc']} stdout {o['out'][:300]!r} stderr {o['err'][-300:]!r}")
        if o["ar"] is not None and o["ar"] != case["args"]:
            return (f"[{o['label']}] hy {o['cmd']}: program saw sys.argv[1:] = {o['ar']!r}, "
                    f"passed {case['args']!r}")
        if o["a0"] is not None:
            w = o["want0"]
            if isinstance(w, (list, tuple)):
                # -m: "the full path to the module file".  FILE: the script name; Python's sys.argv
                # docs leave open "whether this is a full pathname or not", so the name as given
                # and an absolute path of the same file are both accepted.
                try:
                    same = (isinstance(o["a0"], str) and os.path.isabs(o["a0"]) and
                            os.path.realpath(o["a0"]) == os.path.realpath(w[-1]))
                except Exception:
                    same = False
                if w[0] == "file" and o["a0"] == w[1]:
                    same = True
                if not same:
                    return (f"[{o['label']}] hy {o['cmd']}: sys.argv[0] = {o['a0']!r}, expected " + (
                        "the full path of the module file" if w[0] == "path" else
                        f"the script name {w[1]!r} (or its full path)"))
            elif o["a0"] != w:
                return f"[{o['label']}] hy {o['cmd']}: sys.argv[0] = {o['a0']!r}, expected {w!r}"
    return None


def run_case(case):
    optlike = any(a.startswith("-") for a in case["args"])
    classes = ["feat:" + f for f in case["feats"]] + ["nargs:%d" % len(case["args"])]
    if case["args"] and (case["args"][0].startswith("-") or case["args"][0] == ""):
        classes.append("first-arg:" + (case["args"][0] or "<empty>"))
    classes += ["arg:" + a for a in sorted(set(case["args"])) if a.startswith("-")]
    classes += [f"spell:{k}:{v}" for k, v in case["spell"].items()]
    classes += ["pre:" + ("".join(p) or "none") for p in {tuple(v) for v in case["pre"].values()}]
    res = {"ok": True, "nontrivial": optlike, "classes": classes, "events": 0}
    obs, problem, n = observe(case, case["text"])
    res["events"] = n
    if problem:
        res.update(ok=None, classes=classes + [problem], why=problem)
        return res
    # how the byte-code cache was exercised (evidence only)
    by = {o["label"]: o for o in obs}
    for mode in ("file", "m"):
        a, b = by.get(f"hy:{mode}:src"), by.get(f"hy:{mode}:again")
        if a and b and a["compiled"] and not b["compiled"]:
            res["classes"].append(f"cached-rerun:{mode}")
    why = judge(case, obs)
    if why:
        res.update(ok=False, why=why)
    return res


def case_key(case):
    return [case["text"], case["args"], case["spell"], case["pre"], case["mod"]]


def gate(tot, classes, extra, tier):
    # `classes` is the histogram of the whole run (all shards)
    lost = skip_gate(tot, classes)
    if lost:
        return lost
    if not classes.get("first-arg:--"):
        return "double-dash-as-first-trailing-argument-never-exercised"
    if not any(k.startswith("cached-rerun:") for k in classes):
        return "cached-rerun-of-FILE-or-m-never-observed"
    return None
