"""C34 - a Hy name means the same Python identifier in every construct.

History observed: for a hostile name s and one construct, a micro-program is
compiled by the tree's compiler and executed in a fresh module; the harness
then looks the binding up *from Python* (module globals, function / class
__name__, code-object parameter names, received **kw keys, the attribute /
item name a recording object was asked for, the name a fixture module was
asked for by `import`, `_hy_macros` keys, cell variables). Pairs of names: bound through s1,
read through s2 inside Hy. Oracle: the real hy.mangle is the reference - the
identifier observed equals hy.mangle(s); two names alias iff their manglings
are equal.
"""
import builtins
import sys
import types

from hv import mangle_gen as G
from hv.common import exec_hy, fresh_module, rng_for

ID = "C34"
LEVEL = "exploration"
RULE = ("random hostile names that the reader accepts as one symbol (punctuation ?!*+<>=/&%$@^|, leading "
        "hyphens/underscores/underscore-like characters, X and XfooX escapes, NFKC-changing characters, "
        "combining marks, keywords, random code points) x every construct (variable write/read/del/setx/for/"
        "with/class attribute, defn, defclass, five parameter kinds, fn parameter, keyword argument, a.s, "
        "(. a s), (.s a), (a.s), attribute assignment, import :as, import [x :as s], import [s], defmacro + "
        "call, local defmacro, (:s obj), global, nonlocal, except variable at module and function level, "
        "match capture/:as/star/mapping-rest), plus pairs (s1, s2) in six binder/reader constructs with s2 "
        "derived from s1 (hy.mangle(s1), unmangled, hyphen/underscore swapped, NFKC variants, near misses) or "
        "independent. Non-trivial = hy.mangle changes the name (for pairs: one of the two); distinct by "
        "program text.")
FLOOR = {"quick": 1500, "thorough": 1500}
BUDGET = {"quick": 25, "thorough": 480}
CASE_TIMEOUT = 20
NEEDS_EVENTS = True
ANCHORS = ["hy.compiler:HyASTCompiler.compile_symbol",
           "hy.core.result_macros:compile_attribute_access",
           "hy.core.result_macros:compile_arguments_set",
           "hy.core.result_macros:compile_import",
           "hy.core.result_macros:compile_global_or_nonlocal",
           "hy.core.result_macros:compile_pattern",
           "hy.macros:install_macro",
           "hy.models:Keyword.__call__"]
ASSUMPTIONS = ["hy.mangle is the reference (its own sanity is C32)",
               "CPython 3.12.1 passes AST identifiers unchanged to globals / getattr / **kw / code objects",
               "names must read as a single dot-free Symbol; names whose mangling is None/True/False/_/hy, a "
               "builtin, a harness name or starts with _hy_ are outside the workload; macro constructs "
               "exclude core-macro names; ':s', 'a.s' and '.s' must read as keyword / dotted identifier / "
               "method head (e.g. .__86 is a number)",
               "the except variable is let-scoped by design (compiled to a reserved _hy_exc_ temporary): it is "
               "observed through Hy (the handler body reads it), not from Python",
               "globals starting with _hy_ are compiler temporaries (C12), not uses of the name",
               "CPython's private-name mangling (__x -> _Class__x) applies inside a class body",
               "a construct that refuses the name at compile time (e.g. / or * as a parameter) binds nothing: "
               "skipped, gated at 2% of the cases"]
MANIFEST = {
    "text": "For random hostile symbol names, one micro-program per (name, construct) is compiled and run by "
            "the tree's own compiler; the identifier actually bound or looked up is observed from Python "
            "(globals, __name__, code-object parameter names, **kw keys, names requested from recording "
            "objects and a recording fixture module, _hy_macros keys, cell variables) "
            "and must equal hy.mangle(name) in every construct. Pairs of names bound through one "
            "and read through the other must alias exactly when their manglings are equal. Exploration: held "
            "on the programs run.",
    "note": "Trusted: hy.mangle as reference (checked by C32), CPython's handling of AST identifiers. "
            "Bounds: names <= ~20 characters, one construct per program.",
    "technique": "runtime monitoring: bind through each construct, observe the Python-level identifier "
                 "(recording objects, namespaces, code objects) vs hy.mangle",
}

MISSING = "<<HVMISSING>>"
FIXMOD = "hvfixmod"

# name, needs (kw = ':s' must read as keyword, dot = 'a.s' as dotted, mac = not a core macro), program
SINGLE = [
    ("var-write", "", "(setv {s} 101)"),
    ("var-read", "", "(setv HVR {s})"),
    ("var-del", "", "(setv {s} 1)\n(del {s})"),
    ("var-setx", "", "(setx {s} 107)"),
    ("var-for", "", "(for [{s} [1 2]] None)"),
    ("var-with", "", "(with [{s} (HVCM)] None)"),
    ("var-class-attr", "", "(defclass HVC [] (setv {s} 108))"),
    ("defn", "", "(defn {s} [] 102)"),
    ("defclass", "", "(defclass {s} [])"),
    ("param-pos", "", "(defn HVF [{s}] {s})"),
    ("param-default", "", "(defn HVF [[{s} 1]] {s})"),
    ("param-kwonly", "", "(defn HVF [* {s}] {s})"),
    ("param-rest", "", "(defn HVF [#* {s}] {s})"),
    ("param-kwargs", "", "(defn HVF [#** {s}] {s})"),
    ("param-fn", "", "(setv HVF (fn [{s}] {s}))"),
    ("kwarg", "kw", "(setv HVR (HVKW :{s} 7))"),
    ("attr-dotted", "dot", "(setv HVR HVOBJ.{s})"),
    ("attr-dot-form", "", "(setv HVR (. HVOBJ {s}))"),
    ("attr-method-call", "meth", "(setv HVR (.{s} HVOBJ 1))"),
    ("attr-dotted-call", "dot", "(setv HVR (HVOBJ.{s} 1))"),
    ("attr-dot-form-call", "", "(setv HVR (. HVOBJ ({s} 1)))"),
    ("attr-set", "dot", "(setv HVOBJ.{s} 5)"),
    ("import-as", "", "(import math :as {s})"),
    ("import-from-as", "", "(import math [sqrt :as {s}])"),
    ("import-from-name", "", "(import hvfixmod [{s}])"),
    ("defmacro-call", "mac", "(defmacro {s} [] 103)\n(setv HVR ({s}))"),
    ("defmacro-local", "mac", "(defn HVF [] (defmacro {s} [] 104) ({s}))\n(setv HVR (HVF))"),
    ("keyword-lookup", "kw", "(setv HVR (:{s} HVOBJ))"),
    ("global", "", "(defn HVF [] (global {s}) (setv {s} 5))\n(HVF)"),
    ("nonlocal", "", "(defn HVF [] (setv {s} 1) (defn HVG [] (nonlocal {s}) (setv {s} 2)) (HVG) {s})\n"
                     "(setv HVR (HVF))"),
    # the except variable is let-scoped on purpose (compiled to a reserved _hy_exc_... temporary), so
    # it is observed through Hy: the body must see the exception under the same name
    ("except-module", "", "(try (raise (ValueError 1)) (except [{s} ValueError] (setv HVR {s})))"),
    ("except-fn", "", "(defn HVF [] (try (raise (ValueError 1)) (except [{s} ValueError] {s})))\n"
                      "(setv HVR (HVF))"),
    ("match-capture", "", "(match 105 {s} None)"),
    ("match-as", "", "(match 106 106 :as {s} None)"),
    ("match-star", "", "(match [1 2 3] [1 #* {s}] None)"),
    ("match-mapping-rest", "", '(match {{"k" 1 "j" 2}} {{"k" 1 #** {s}}} None)'),
]
SINGLE_BY_NAME = {c[0]: c for c in SINGLE}

PAIR = [
    ("pair-var-var", "", "(setv {s1} 201)\n(setv HVR (try {s2} (except [NameError] HVMISSING)))"),
    ("pair-defn-var", "", "(defn {s1} [] 202)\n(setv HVR (try (HVCALL {s2}) (except [NameError] HVMISSING)))"),
    ("pair-param-kwarg", "kw2", "(setv HVR (try ((fn [{s1}] {s1}) :{s2} 203) (except [TypeError] HVMISSING)))"),
    ("pair-attr-attr", "dot", "(setv HVP.{s1} 204)\n(setv HVR (try HVP.{s2} (except [AttributeError] HVMISSING)))"),
    ("pair-kwarg-keyword", "kw", "(setv HVR (:{s2} (dict :{s1} 205) HVMISSING))"),
    ("pair-param-body", "", "(setv HVR (try ((fn [{s1}] {s2}) 206) (except [NameError] HVMISSING)))"),
    ("pair-except-body", "", "(try (raise (HVE 207)) (except [{s1} HVE] "
                             "(setv HVR (try (get {s2}.args 0) (except [NameError] HVMISSING)))))"),
]
PAIR_BY_NAME = {c[0]: c for c in PAIR}
PAIR_VALUE = {"pair-var-var": 201, "pair-defn-var": 202, "pair-param-kwarg": 203,
              "pair-attr-attr": 204, "pair-kwarg-keyword": 205, "pair-param-body": 206,
              "pair-except-body": 207}

_VARIANT = {"h": "\uff48", "x": "\uff58", "y": "\uff59", "a": "\xaa", "u": "\U0001d532", "1":
            "\uff11", "2": "\xb2", "0": "\uff10", "_": "\uff3f", "i": "\u2071", "s": "\u017f", "X":
            "\uff38", "I": "\u2160", "A": "\uff21", "H": "\u210c", "U": "\uff35", "K": "\u212a"}

COUNTS = {}


def _bump(k, n=1):
    COUNTS[k] = COUNTS.get(k, 0) + n


def setup_worker(tier, seed):
    COUNTS.clear()


def finish_worker():
    return dict(COUNTS)


def gate(tot, classes, extra, tier):
    missing = [c[0] for c in SINGLE + PAIR if not classes.get("held:" + c[0])]
    if missing:
        return "constructs-never-decided:" + ",".join(missing)
    if extra.get("compile_refusals", 0) > 0.02 * max(1, tot["evaluations"]):
        return f"too-many-compile-refusals-{extra.get('compile_refusals')}"
    if not classes.get("pair:alias-expected") or not classes.get("pair:distinct-expected"):
        return "pair-workload-one-sided"
    return None


# --- the premise ---------------------------------------------------------------

def _env_names():
    return {"HVR", "HVF", "HVG", "HVC", "HVOBJ", "HVKW", "HVCM", "HVP", "HVCALL",
            "HVMISSING", "HVE", FIXMOD, "math", "sqrt"}


def symbol_ok(s):
    """The reader accepts `s` as exactly one dot-free Symbol spelled `s`."""
    import hy
    if not s or "." in s:
        return False
    try:
        forms = list(hy.read_many(s))
    except BaseException as e:
        if type(e).__name__ == "CaseTimeout":
            raise
        return False
    return len(forms) == 1 and type(forms[0]) is hy.models.Symbol and str(forms[0]) == s


def keyword_ok(s):
    import hy
    try:
        forms = list(hy.read_many(":" + s))
    except Exception:
        return False
    return len(forms) == 1 and type(forms[0]) is hy.models.Keyword and forms[0].name == s


def dotted_ok(s):
    import hy
    try:
        forms = list(hy.read_many("HVOBJ." + s))
    except Exception:
        return False
    if len(forms) != 1 or type(forms[0]) is not hy.models.Expression:
        return False
    f = forms[0]
    return (len(f) == 3 and all(type(x) is hy.models.Symbol for x in f)
            and [str(x) for x in f] == [".", "HVOBJ", s])


def method_ok(s):
    """'.s' reads as the method-call head (. None s) (and not, say, as the number .__86)."""
    import hy
    try:
        forms = list(hy.read_many("." + s))
    except Exception:
        return False
    if len(forms) != 1 or type(forms[0]) is not hy.models.Expression:
        return False
    f = forms[0]
    return (len(f) == 3 and all(type(x) is hy.models.Symbol for x in f)
            and [str(x) for x in f] == [".", "None", s])


def name_in_workload(s):
    """None if the name is in the workload, else the reason it is not."""
    import hy
    if not symbol_ok(s):
        return "not-a-symbol"
    try:
        m = hy.mangle(s)
    except Exception:
        return "mangle-raised"          # C32's business
    if m in ("None", "True", "False", "_", "hy"):
        return "mangles-to-constant-or-wildcard"
    if m.startswith("_hy_"):
        return "reserved-_hy_"
    if m in _env_names() or hasattr(builtins, m):
        return "harness-or-builtin-name"
    return None


def is_core_macro(m):
    return m in getattr(builtins, "_hy_macros", {})


# --- generation ------------------------------------------------------------------

def _derive(rng, s1):
    """A second name related to s1, and the strategy used."""
    import hy
    strat = rng.choice(("mangled", "mangled", "unmangled", "swap", "swap", "variant", "variant",
                        "nfkc", "near", "near", "random", "random"))
    try:
        if strat == "mangled":
            return hy.mangle(s1), strat
        if strat == "unmangled":
            return hy.unmangle(hy.mangle(s1)), strat
    except Exception:
        strat = "random"
    if strat == "swap":
        cs = list(s1)
        idx = [i for i, c in enumerate(cs) if c in "-_" and i > 0]
        if idx:
            for i in rng.sample(idx, rng.randint(1, len(idx))):
                cs[i] = "_" if cs[i] == "-" else "-"
            return "".join(cs), strat
        strat = "near"
    if strat == "variant":
        cs = list(s1)
        idx = [i for i, c in enumerate(cs) if c in _VARIANT]
        if idx:
            i = rng.choice(idx)
            cs[i] = _VARIANT[cs[i]]
            return "".join(cs), strat
        strat = "near"
    if strat == "nfkc":
        t = G.nfkc(s1)
        if t != s1:
            return t, strat
        strat = "near"
    if strat == "near":
        return rng.choice((s1 + "_", "_" + s1, "-" + s1, s1 + "-", s1 + "X", s1.swapcase(),
                           s1.replace("-", "--", 1), "hyx_" + s1, s1[1:] or "q")), strat
    return G.rand_symbol_text(rng), "random"


def cases(seed, tier, shard, nshards):
    i = 0
    while True:
        rng = rng_for(seed, ID, shard, i)
        i += 1
        s = G.rand_symbol_text(rng)
        if name_in_workload(s):
            continue
        for cname, needs, tmpl in SINGLE:
            yield {"kind": "single", "construct": cname, "name": s, "text": tmpl.format(s=s)}
        for _ in range(2):
            s2, strat = _derive(rng, s)
            if s2 == s or name_in_workload(s2):
                continue
            for cname, needs, tmpl in PAIR:
                a, b = (s, s2) if rng.random() < 0.5 else (s2, s)
                yield {"kind": "pair", "construct": cname, "s1": a, "s2": b, "strategy": strat,
                       "text": tmpl.format(s1=a, s2=b)}


def case_key(case):
    return case["text"]


# --- harness objects ---------------------------------------------------------------

class Recorder:
    def __init__(self):
        object.__setattr__(self, "log", [])

    def __getattr__(self, name):
        self.log.append(["getattr", name])
        return lambda *a, **k: ["called", name]

    def __setattr__(self, name, value):
        self.log.append(["setattr", name])

    def __getitem__(self, key):
        self.log.append(["getitem", key])
        return 7


class _HVE(Exception):
    pass


class _CM:
    def __enter__(self):
        return 109

    def __exit__(self, *a):
        return False


_PLAIN_CLASS_ATTRS = set(vars(type("HVC", (), {})))


def _fixture_module(log):
    mod = types.ModuleType(FIXMOD)

    def __getattr__(name):
        if name in ("__path__", "__file__", "__all__", "__cached__", "__wrapped__"):
            raise AttributeError(name)      # probes of the import machinery itself
        log.append(name)
        return ["fixture", name]
    mod.__getattr__ = __getattr__
    return mod


def _params(fn):
    """(positional+kwonly names, *args name, **kw name) from the code object."""
    co = fn.__code__
    n = co.co_argcount + co.co_kwonlyargcount
    names = list(co.co_varnames[:n])
    rest = kw = None
    k = n
    if co.co_flags & 0x04:
        rest = co.co_varnames[k]
        k += 1
    if co.co_flags & 0x08:
        kw = co.co_varnames[k]
    return names, rest, kw


# --- oracle ----------------------------------------------------------------------------

def run_case(case):
    import hy
    kind, cname = case["kind"], case["construct"]
    names = [case["name"]] if kind == "single" else [case["s1"], case["s2"]]
    needs = (SINGLE_BY_NAME if kind == "single" else PAIR_BY_NAME)[cname][1]
    classes = [kind, "construct:" + cname]
    # premise
    for s in names:
        why_not = name_in_workload(s)
        if why_not:
            return {"ok": None, "classes": classes + ["skipped:" + why_not]}
    ms = [hy.mangle(s) for s in names]
    if needs in ("kw", "kw2") and not all(keyword_ok(s) for s in names):
        return {"ok": None, "classes": classes + ["skipped:not-a-keyword"]}
    if needs == "dot" and not all(dotted_ok(s) for s in names):
        return {"ok": None, "classes": classes + ["skipped:not-dotted"]}
    if needs == "meth" and not all(method_ok(s) for s in names):
        return {"ok": None, "classes": classes + ["skipped:not-a-method-head"]}
    if needs == "mac" and any(is_core_macro(m) for m in ms):
        return {"ok": None, "classes": classes + ["skipped:core-macro-name"]}

    rec = Recorder()
    fixlog = []
    env = {"HVOBJ": rec, "HVKW": lambda **kw: list(kw), "HVCM": _CM,
           "HVP": types.SimpleNamespace(),
           "HVCALL": lambda f: f(), "HVMISSING": MISSING, "HVE": _HVE}
    if cname == "var-read":
        env[ms[0]] = 55
    sys.modules[FIXMOD] = _fixture_module(fixlog)
    mod = fresh_module()
    pre = set(mod.__dict__) | set(env) | {"__builtins__", "HVR", "HVF", "HVG", "HVC", "hy"}
    try:
        mod, exc, tree, phase = exec_hy(case["text"], env, module=mod)
    finally:
        sys.modules.pop(FIXMOD, None)
    g = mod.__dict__
    # bindings the program made, apart from the harness's own result names and the compiler's
    # reserved _hy_ temporaries (C12's subject, not a use of the name)
    new = {k for k in g if k not in pre and not k.startswith("_hy_")}
    nontrivial = any(m != s for m, s in zip(ms, names))
    classes.append("name-changed" if nontrivial else "name-unchanged")
    for s in names:
        classes.extend("name:" + t for t in G.name_classes(s))
    res = {"ok": True, "nontrivial": nontrivial, "classes": classes, "events": 0,
           "sample": {"text": case["text"], "mangled": ms}}

    def bad(why):
        res.update(ok=False, why=f"[{cname}] {why}; program: {case['text']!r}; "
                                 f"hy.mangle -> {ms!r}")
        return res

    if exc is not None:
        if phase == "compile":
            # the construct refused the name: nothing was bound, nothing to observe
            res.update(ok=None)
            res["classes"] = classes + [f"skipped:compile-{type(exc).__name__}"]
            _bump("compile_refusals")
            return res
        return bad(f"running the program raised {type(exc).__name__}: {exc}")

    if kind == "pair":
        classes.append("strategy:" + case.get("strategy", "?"))
        want_alias = ms[0] == ms[1]
        classes.append("pair:alias-expected" if want_alias else "pair:distinct-expected")
        got = g.get("HVR", "<unset>")
        res["events"] = 1
        if got == PAIR_VALUE[cname]:
            got_alias = True
        elif got == MISSING:
            got_alias = False
        else:
            return bad(f"unexpected result {got!r}")
        if got_alias != want_alias:
            return bad(f"{names[0]!r} and {names[1]!r} "
                       + ("alias although their manglings differ" if got_alias
                          else "do not alias although their manglings are equal"))
        classes.append("held:" + cname)
        return res

    s, m = names[0], ms[0]
    obs = None        # the identifier(s) observed from Python

    def expect_global(value_ok, what):
        nonlocal obs
        obs = sorted(new)
        if new != {m}:
            return f"{what} bound globals {sorted(new)!r}, expected only {m!r}"
        if not value_ok(g[m]):
            return f"{what}: globals[{m!r}] = {g[m]!r}"
        return None

    why = None
    if cname == "var-write":
        why = expect_global(lambda v: v == 101, "setv")
    elif cname == "var-read":
        obs = [m]
        if g.get("HVR") != 55:
            why = f"reading the name gave {g.get('HVR', '<unset>')!r}, not the value bound to {m!r} from Python"
    elif cname == "var-del":
        obs = sorted(new)
        if new:
            why = f"after setv + del the globals still hold {sorted(new)!r}"
    elif cname == "var-setx":
        why = expect_global(lambda v: v == 107, "setx")
    elif cname == "var-for":
        why = expect_global(lambda v: v == 2, "for")
    elif cname == "var-with":
        why = expect_global(lambda v: v == 109, "with")
    elif cname == "var-class-attr":
        cls = g.get("HVC")
        attrs = sorted(k for k in vars(cls) if k not in _PLAIN_CLASS_ATTRS)
        obs = attrs
        # CPython's own private-name mangling applies to __x identifiers in a class body
        want = "_HVC" + m if m.startswith("__") and not m.endswith("__") else m
        if attrs != [want] or vars(cls)[want] != 108:
            why = f"class body bound attributes {attrs!r}, expected {want!r}"
    elif cname in ("defn", "defclass"):
        why = expect_global(lambda v: getattr(v, "__name__", None) == m, cname)
    elif cname.startswith("param-"):
        fn = g.get("HVF")
        pnames, rest, kw = _params(fn)
        obs = [pnames, rest, kw]
        try:
            if cname in ("param-pos", "param-default", "param-kwonly", "param-fn"):
                if pnames != [m]:
                    why = f"parameter names {pnames!r}, expected [{m!r}]"
                elif fn(**{m: 5}) != 5:
                    why = "the body does not read the parameter"
            elif cname == "param-rest":
                if rest != m:
                    why = f"*args parameter is {rest!r}, expected {m!r}"
                elif fn(1, 2) != (1, 2):
                    why = "the body does not read the *args parameter"
            elif cname == "param-kwargs":
                if kw != m:
                    why = f"**kwargs parameter is {kw!r}, expected {m!r}"
                elif fn(q=1) != {"q": 1}:
                    why = "the body does not read the **kwargs parameter"
        except Exception as e:
            why = f"calling the function from Python raised {type(e).__name__}: {e}"
    elif cname == "kwarg":
        obs = g.get("HVR")
        if obs != [m]:
            why = f"the callee received keyword names {obs!r}, expected [{m!r}]"
    elif cname.startswith("attr-"):
        obs = rec.log
        want = [["setattr", m]] if cname == "attr-set" else [["getattr", m]]
        if rec.log != want:
            why = f"the object was asked for {rec.log!r}, expected {want!r}"
        elif cname.endswith("call") and g.get("HVR") != ["called", m]:
            why = f"method call returned {g.get('HVR')!r}"
    elif cname == "keyword-lookup":
        obs = rec.log
        if rec.log != [["getitem", m]] or g.get("HVR") != 7:
            why = f"the object was asked for {rec.log!r}, expected [['getitem', {m!r}]]"
    elif cname == "import-as":
        import math
        why = expect_global(lambda v: v is math, "import :as")
    elif cname == "import-from-as":
        import math
        why = expect_global(lambda v: v is math.sqrt, "import [sqrt :as s]")
    elif cname == "import-from-name":
        obs = [fixlog, sorted(new)]
        if fixlog != [m]:
            why = f"the module was asked for {fixlog!r}, expected [{m!r}]"
        else:
            why = expect_global(lambda v: v == ["fixture", m], "import [s]")
    elif cname == "defmacro-call":
        keys = sorted(g.get("_hy_macros", {}))
        obs = keys
        if keys != [m]:
            why = f"_hy_macros keys {keys!r}, expected [{m!r}]"
        elif g.get("HVR") != 103:
            why = f"the macro call expanded to {g.get('HVR', '<unset>')!r}"
    elif cname == "defmacro-local":
        obs = g.get("HVR", "<unset>")
        if obs != 104:
            why = f"the local macro call gave {obs!r}"
    elif cname == "global":
        why = expect_global(lambda v: v == 5, "global + setv in a function")
    elif cname == "nonlocal":
        fn = g.get("HVF")
        obs = list(fn.__code__.co_cellvars)
        if g.get("HVR") != 2:
            why = f"nonlocal assignment not seen by the enclosing function: {g.get('HVR')!r}"
        elif m not in fn.__code__.co_cellvars:
            why = f"cell variables {obs!r} lack {m!r}"
    elif cname in ("except-module", "except-fn"):
        obs = g.get("HVR", "<unset>")
        if not (isinstance(obs, ValueError) and obs.args == (1,)):
            why = f"the handler body read {obs!r} under the except variable's name, not the exception"
    elif cname == "match-capture":
        why = expect_global(lambda v: v == 105, "match capture")
    elif cname == "match-as":
        why = expect_global(lambda v: v == 106, "match :as")
    elif cname == "match-star":
        why = expect_global(lambda v: v == [2, 3], "match star capture")
    elif cname == "match-mapping-rest":
        why = expect_global(lambda v: v == {"j": 2}, "match mapping rest")
    else:
        raise ValueError(cname)
    res["events"] = 1
    if why:
        return bad(why)
    classes.append("held:" + cname)
    return res
