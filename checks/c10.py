"""C10 — compilation yields a valid Python AST or a user-facing Hy error.

History observed per model tree: the exception (type, message) escaping
`hy_compile`, or — when it returns — the exception escaping Python's
`compile()` on the returned AST and `marshal.dumps` on the code object.
Oracle: the statement's classification. Trees are only compiled, never run.
"""
import contextlib
import io
import marshal
import re
import sys
import types
import warnings

from hv import gen_trees as G
from hv.common import rng_for

ID = "C10"
LEVEL = "exploration"
RULE = ("model trees of depth <= 5 assembled with the public model constructors: (a) random trees over every "
        "key of builtins._hy_macros, ordinary calls, method-call heads (. None ...), hy.R heads, all atom and "
        "sequence kinds incl. odd Dict, FComponent anywhere / odd conversion, empty Expression, bare unpacking "
        "forms; (b) valid templates of every core macro with one to three arguments deleted / duplicated / "
        "swapped / retyped / inserted / respelled with compatibility characters, templates nested into each other; "
        "(c) the templates themselves; (d) a regression corpus: the input class behind every repaired mechanism in "
        "several spellings and host forms (run completely by every worker, gate: every class exercised) and "
        "mutants of its items; (e) every combination of absent / empty / non-empty body, except, else and finally "
        "clauses of try and the analogous empty-clause shapes of while, for, with, cond, match, defclass, if, fn, let. "
        "Non-trivial = tree depth >= 2; distinct by (head, argument-shape signature, outcome class).")
FLOOR = {"quick": 3000, "thorough": 12000}
BUDGET = {"quick": 26, "thorough": 600}
CASE_TIMEOUT = 6
NEEDS_EVENTS = True
ANCHORS = ["hy.compiler:HyASTCompiler.compile", "hy.compiler:HyASTCompiler._storeize",
           "hy.compiler:HyASTCompiler._compile_collect", "hy.compiler:HyASTCompiler.compile_expression",
           "hy.macros:MacroExceptions.__exit__", "hy.macros:macroexpand"]
ASSUMPTIONS = [
    "user-facing = HyLanguageError subclass or SyntaxError (hy/errors.py docstrings); HyInternalError/HyCompileError "
    "and every other exception type are not",
    "SyntaxError from Python's compile() on the returned AST is allowed by the statement (counted separately)",
    "forms evaluated at compile time are restricted to harmless heads/unbound names (sandbox), so the bodies of "
    "eval-when-compile / eval-and-compile / do-mac / defmacro / pragma are less hostile than the rest",
    "CPython 3.12.1 compile()/marshal as the acceptance test for the AST",
]
MANIFEST = {
    "text": "Tens of thousands of model trees (random over every core macro head and every model kind, and mutated "
            "valid templates of every core macro) are handed to hy_compile; the outcome is classified: accepted "
            "(Python's compile() accepts the AST and marshal.dumps the code), user-facing error (HyLanguageError "
            "subclass / SyntaxError, also from compile()), or violation (internal compiler error, other exception "
            "type, ValueError/TypeError/SystemError from compile(), marshal failure). Exploration: held on the "
            "trees compiled, nothing beyond.",
    "note": "Trusted: CPython's compile()/marshal. Bounds: depth <= 5, <= 90 nodes, benign name pool, compile-time "
            "evaluated bodies restricted to harmless forms; trees are never executed.",
    "technique": "runtime monitoring: outcome classification of hy_compile + compile() + marshal on generated and "
                 "mutated model trees, mechanism attribution by input feature and normaliser",
}

PER_KEY_CAP = 30      # violating cases emitted per attributed mechanism key and shard
_counter = [0]
_emitted = {}
_extra = {"capped": {}, "clobber_prints": 0, "untemplated_heads": []}


# ---------------------------------------------------------------- the oracle

def observe(ir):
    """-> (outcome class, detail). Outcome classes: 'unbuildable', 'accepted', 'hy-error:<Type>',
    'py-syntaxerror', and the violating 'V:hy:<Type>', 'V:py:<Type>', 'V:marshal:<Type>'."""
    from hy.compiler import hy_compile
    from hy.errors import HyLanguageError
    try:
        model = G.build(ir)
    except G.Unbuildable as e:
        return "unbuildable", str(e)
    _counter[0] += 1
    name = f"hvc10_{_counter[0]}"
    mod = types.ModuleType(name)
    mod.__file__ = f"<{name}>"
    sys.modules[name] = mod
    out = io.StringIO()
    try:
        with warnings.catch_warnings(), contextlib.redirect_stdout(out), contextlib.redirect_stderr(out):
            warnings.simplefilter("ignore")
            try:
                tree = hy_compile(model, mod, filename="<c10>")
            except (HyLanguageError, SyntaxError) as e:
                return "hy-error:" + type(e).__name__, _msg(e)
            except RecursionError as e:
                return "V:hy:RecursionError", _msg(e)
            except Exception as e:
                return "V:hy:" + type(e).__name__, _msg(e)
            try:
                code = compile(tree, "<c10>", "exec")
            except SyntaxError as e:
                return "py-syntaxerror", _msg(e)
            except Exception as e:
                return "V:py:" + type(e).__name__, _msg(e)
            try:
                marshal.dumps(code)
            except Exception as e:
                return "V:marshal:" + type(e).__name__, _msg(e)
            return "accepted", ""
    finally:
        sys.modules.pop(name, None)
        if "Bad boy clobbered" in out.getvalue():
            _extra["clobber_prints"] += 1


def _msg(e):
    s = str(getattr(e, "msg", None) or e)
    if "Internal Compiler Bug" in s:
        # keep the innermost exception line of the embedded traceback
        lines = [l for l in s.strip().splitlines() if l.strip()]
        where = [l.strip() for l in lines if l.strip().startswith("File ")]
        return "ICB: " + lines[-1].strip() + (" @ " + where[-1] if where else "")
    return s.strip()[:300]


# ------------------------------------------------- mechanisms (known findings)
# Each: key, symptom regex over "<outcome>|<detail>", feature(ir) -> bool, normalise(ir) -> ir.

def _has(pred):
    return lambda ir: any(pred(n) for n, _ in G.walk(ir))


def _is_unpack(n, kinds=("unpack-iterable", "unpack-mapping")):
    return G.head_of(n) in kinds


MECHANISMS = []


def mechanism(key, symptom):
    def dec(cls):
        MECHANISMS.append({"key": key, "symptom": re.compile(symptom), "has": cls.has, "norm": cls.norm})
        return cls
    return dec


def _known_keys():
    """Mechanism keys already recorded (read-only; used only to prefer an unrecorded
    mechanism when several are needed to explain one tree)."""
    global _KNOWN
    if _KNOWN is None:
        import json
        import os
        _KNOWN = set()
        here = os.path.dirname(os.path.dirname(os.path.abspath(__file__)))
        for path in (os.path.join(here, "known_findings.json"), os.environ.get("VERIF_KNOWN_EXTRA")):
            if path and os.path.exists(path):
                try:
                    with open(path) as f:
                        for e in json.load(f).get("findings", []):
                            if e.get("property") == ID and e.get("status") == "known":
                                _KNOWN.add(e["key"])
                except (OSError, ValueError):
                    pass
    return _KNOWN


_KNOWN = None


def attribute(ir, outcome, detail):
    """Mechanism key for a violating tree, or None (= unexplained, reported).

    Violations are peeled off one at a time: the observed symptom must match a mechanism's
    symptom, that mechanism's input feature must be present, and normalising just that
    feature must make this symptom go away (the tree is then accepted, rejected with a
    user-facing error, or shows a *different* violation, which is peeled in turn). If any
    symptom along the way cannot be explained, the tree is unexplained. Among the
    mechanisms met, an unrecorded key is preferred, so that a new mechanism co-occurring
    with a recorded one is still reported."""
    cur, keys = ir, []

    def apply(j, ms):
        for m in ms:
            j = m["norm"](j)
        return j

    for _ in range(6):
        text = outcome + "|" + detail
        cands = [m for m in MECHANISMS if m["symptom"].search(text) and m["has"](cur) and m["norm"](cur) != cur]
        chosen = None
        for m in cands:
            nxt = m["norm"](cur)
            o2, d2 = observe(nxt)
            if (o2, d2) != (outcome, detail):
                chosen = [m]
                break
        if chosen is None and len(cands) > 1:
            # several mechanisms with this very symptom in one tree: each alone leaves the symptom
            nxt = apply(cur, cands)
            o2, d2 = observe(nxt)
            if (o2, d2) != (outcome, detail):
                chosen = [m for m in cands
                          if observe(apply(cur, [x for x in cands if x is not m])) == (outcome, detail)] or cands
        if chosen is None:
            return None
        keys.extend(m["key"] for m in chosen)
        cur, outcome, detail = nxt, o2, d2
        if not outcome.startswith("V:"):
            known = _known_keys()
            keys.sort(key=lambda k: k in known)
            return keys[0]
    return None


CMP_HEADS = {"=", "is", "<", "<=", ">", ">=", "!=", "is-not", "in", "not-in", "chainc"}
AUG_HEADS = {op + "=" for op in ("+", "/", "//", "*", "-", "%", "**", "<<", ">>", "|", "^", "&", "@")}
A = G.S("a")


def _rewrite(pred, f):
    """normaliser: bottom-up, replace every node satisfying pred by f(node)"""
    return lambda ir: G.map_ir(ir, lambda n: f(n) if pred(n) else n)


def _dict_misaligned(n):
    if n["t"] != "Dict":
        return False
    pos = 0
    for c in n["c"]:
        if G.head_of(c) == "unpack-mapping":
            if pos % 2:
                return True
        else:
            pos += 1
    return bool(pos % 2)


def _dict_align(n):
    out, pos = [], 0
    for c in n["c"]:
        if G.head_of(c) == "unpack-mapping":
            if pos % 2:
                out.append(G.S("None"))
                pos += 1
            out.append(c)
        else:
            out.append(c)
            pos += 1
    if pos % 2:
        out.append(G.S("None"))
    return dict(n, c=out)


@mechanism("dict-display-odd-or-misaligned", r"V:py:ValueError\|Dict doesn't have the same number of keys as values"
                                             r"|V:py:\w+\|.*None disallowed")
class _M1:
    has = staticmethod(_has(_dict_misaligned))
    norm = staticmethod(_rewrite(_dict_misaligned, _dict_align))


def _chainc1(n):
    return G.head_of(n) == "chainc" and len(n["c"]) == 2


@mechanism("chainc-without-operator", r"V:py:ValueError\|Compare with no comparators")
class _M2:
    has = staticmethod(_has(_chainc1))
    norm = staticmethod(_rewrite(_chainc1, lambda n: dict(n, c=n["c"] + [G.S("<"), A])))


def _cmp_with_dstar(n):
    return G.head_of(n) in CMP_HEADS and any(G.head_of(c) == "unpack-mapping" for c in n["c"][1:])


def _undstar(n):
    return dict(n, c=[(c["c"][1] if len(c["c"]) > 1 else A) if G.head_of(c) == "unpack-mapping" else c
                      for c in n["c"]])


@mechanism("unpack-mapping-in-comparison", r"V:py:ValueError\|Compare (with no comparators|has a different number)")
class _M3:
    has = staticmethod(_has(_cmp_with_dstar))
    norm = staticmethod(_rewrite(_cmp_with_dstar, _undstar))


def _bad_target(c):
    # anything but a plain name; attribute and subscript targets are fine for Python, but the
    # normaliser below is only consulted together with the SystemError symptom
    return c["t"] != "Sym"


def _ann_bad(n):
    return G.head_of(n) == "annotate" and len(n["c"]) >= 2 and _bad_target(n["c"][1])


def _aug_bad(n):
    return G.head_of(n) in AUG_HEADS and len(n["c"]) >= 2 and _bad_target(n["c"][1])


def _retarget(n):
    return dict(n, c=[n["c"][0], A] + n["c"][2:])


@mechanism("annotate-sequence-or-starred-target", r"V:py:SystemError\|invalid node type \(\d+\) for annotated assignment")
class _M4:
    has = staticmethod(_has(_ann_bad))
    norm = staticmethod(_rewrite(_ann_bad, _retarget))


@mechanism("augassign-sequence-or-starred-target", r"V:py:SystemError\|invalid node type \(\d+\) for augmented assignment")
class _M5:
    has = staticmethod(_has(_aug_bad))
    norm = staticmethod(_rewrite(_aug_bad, _retarget))


def _dstar0(n):
    return G.head_of(n) == "unpack-mapping" and len(n["c"]) == 1


@mechanism("unpack-mapping-without-operand", r"V:hy:HyCompileError\|ICB: IndexError")
class _M6:
    has = staticmethod(_has(_dstar0))
    norm = staticmethod(_rewrite(_dstar0, lambda n: dict(n, c=n["c"] + [A])))


def _fcomp_stmt_value(n):
    return n["t"] == "FComp" and n["c"] and n["c"][0]["t"] == "Expr"


@mechanism("fcomponent-value-without-expression", r"V:py:ValueError\|field 'value' is required for FormattedValue")
class _M7:
    has = staticmethod(_has(_fcomp_stmt_value))
    norm = staticmethod(_rewrite(_fcomp_stmt_value, lambda n: dict(n, c=[A] + n["c"][1:])))



def _fcomp_empty(n):
    return n["t"] == "FComp" and not n["c"]


@mechanism("fcomponent-without-value", r"V:hy:HyCompileError\|ICB: ValueError: not enough values to unpack")
class _M8:
    has = staticmethod(_has(_fcomp_empty))
    norm = staticmethod(_rewrite(_fcomp_empty, lambda n: dict(n, c=[A])))


def _falsy_model(c):
    t = c["t"]
    if G.is_seq(c):
        return not c["c"]
    if t in ("Str", "Bytes", "Kw"):
        return c["v"] == ""
    if t == "Int":
        return int(c["v"]) == 0
    if t == "Float":
        return float(c["v"]) == 0
    if t == "Complex":
        return float(c["v"][0]) == 0 and float(c["v"][1]) == 0
    return False


def _assert_falsy_msg(n):
    return G.head_of(n) == "assert" and len(n["c"]) == 3 and _falsy_model(n["c"][2])


@mechanism("assert-falsy-message-model", r"V:py:TypeError\|(required field \"lineno\" missing from expr|expected some sort of expr)")
class _M9:
    has = staticmethod(_has(_assert_falsy_msg))
    norm = staticmethod(_rewrite(_assert_falsy_msg, lambda n: dict(n, c=n["c"][:2] + [A])))


def _nonlocal(n):
    return G.head_of(n) == "nonlocal"


@mechanism("module-level-nonlocal-of-defined-name", r"V:py:TypeError\|required field \"lineno\" missing from stmt")
class _M10:
    has = staticmethod(_has(_nonlocal))
    norm = staticmethod(_rewrite(_nonlocal, lambda n: G.S("None")))


def _deftype_const(n):
    return G.head_of(n) == "deftype" and any(c["t"] == "Sym" and c["v"] in ("None", "True", "False")
                                             for c in n["c"][1:])


@mechanism("deftype-constant-name", r"V:py:ValueError\|identifier field can't represent '\w+' constant")
class _M11:
    has = staticmethod(_has(_deftype_const))
    norm = staticmethod(_rewrite(_deftype_const, lambda n: dict(n, c=[
        G.S("T") if c["t"] == "Sym" and c["v"] in ("None", "True", "False") else c for c in n["c"]])))


def _short_or_pattern(n):
    return G.head_of(n) == "|" and len(n["c"]) < 3


def _in_match(pred):
    def has(ir):
        return any(G.head_of(n) == "match" and any(pred(x) for x, _ in G.walk(n)) for n, _ in G.walk(ir))
    return has


@mechanism("match-or-pattern-with-fewer-than-two-alternatives", r"V:py:ValueError\|MatchOr requires at least 2 patterns")
class _M12:
    has = staticmethod(_in_match(_short_or_pattern))
    norm = staticmethod(_rewrite(_short_or_pattern, lambda n: dict(n, c=n["c"] + [G.I(1), G.I(2)][:3 - len(n["c"])])))


COMP_HEADS = {"lfor", "sfor", "gfor", "dfor"}


def _plain_expr(c):
    return c["t"] == "Expr" and G.head_of(c) not in ("unpack-iterable", "unpack-mapping")


def _comp_with_expr_part(n):
    h = G.head_of(n)
    if h in COMP_HEADS:
        return any(_plain_expr(c) for c in n["c"][1:])
    if h == "for" and len(n["c"]) > 1 and n["c"][1]["t"] == "List":
        return any(_plain_expr(c) for c in n["c"][1]["c"])
    return False


def _comp_fix(n):
    fix = lambda kids: [A if _plain_expr(c) else c for c in kids]
    if G.head_of(n) == "for":
        return dict(n, c=[n["c"][0], dict(n["c"][1], c=fix(n["c"][1]["c"]))] + n["c"][2:])
    return dict(n, c=[n["c"][0]] + fix(n["c"][1:]))


@mechanism("comprehension-part-without-expression",
           r"V:py:ValueError\|field '(elt|key|value|iter)' is required for (ListComp|SetComp|GeneratorExp|DictComp|comprehension)"
           r"|V:py:\w+\|.*None disallowed in expression list|V:py:ValueError\|invalid integer value: None")
class _M13:
    has = staticmethod(_has(_comp_with_expr_part))
    norm = staticmethod(_rewrite(_comp_with_expr_part, _comp_fix))



def _import_empty_list(n):
    return G.head_of(n) == "import" and any(c["t"] == "List" and not c["c"] for c in n["c"][1:])


@mechanism("import-empty-name-list", r"V:py:ValueError\|empty names on ImportFrom")
class _M14:
    has = staticmethod(_has(_import_empty_list))
    norm = staticmethod(_rewrite(_import_empty_list, lambda n: dict(n, c=[
        G.L(A) if c["t"] == "List" and not c["c"] else c for c in n["c"]])))


CONSTS = ("None", "True", "False", "...")


def _class_pattern_const_base(n):
    if n["t"] != "Expr" or not n["c"]:
        return False
    h = n["c"][0]
    if h["t"] == "Sym":
        return h["v"] in CONSTS
    return (h["t"] == "Expr" and len(h["c"]) >= 2 and G.head_of(h) is not None and not G.head_of(h).strip(".")
            and h["c"][1]["t"] == "Sym" and h["c"][1]["v"] in CONSTS)


def _rebase(n):
    h = n["c"][0]
    if h["t"] == "Sym":
        return dict(n, c=[G.S("foo")] + n["c"][1:])
    return dict(n, c=[dict(h, c=[h["c"][0], A] + h["c"][2:])] + n["c"][1:])


@mechanism("match-class-pattern-on-constant-base", r"V:py:ValueError\|MatchClass cls field can only contain Name or Attribute")
class _M15:
    has = staticmethod(_in_match(_class_pattern_const_base))
    norm = staticmethod(_rewrite(_class_pattern_const_base, _rebase))


def _tp_lists(n):
    """indices of the List children that follow a :tp keyword"""
    if n["t"] != "Expr":
        return []
    return [i + 1 for i, c in enumerate(n["c"][:-1])
            if c["t"] == "Kw" and c["v"] == "tp" and n["c"][i + 1]["t"] == "List"]


def _tp_const(n):
    return any(x["t"] == "Sym" and x["v"] in CONSTS[:3] for i in _tp_lists(n) for x, _ in G.walk(n["c"][i]))


def _tp_fix(n):
    idx = set(_tp_lists(n))
    unconst = lambda x: G.S("T") if x["t"] == "Sym" and x["v"] in CONSTS[:3] else x
    return dict(n, c=[G.map_ir(c, unconst) if i in idx else c for i, c in enumerate(n["c"])])


@mechanism("type-parameter-constant-name", r"V:py:ValueError\|identifier field can't represent '\w+' constant")
class _M16:
    has = staticmethod(_has(_tp_const))
    norm = staticmethod(_rewrite(_tp_const, _tp_fix))



def _const_capture(n):
    if n["t"] == "Kw":
        return n["v"] in CONSTS[:3]
    return (G.head_of(n) in ("unpack-iterable", "unpack-mapping") and len(n["c"]) == 2
            and n["c"][1]["t"] == "Sym" and n["c"][1]["v"] in CONSTS[:3])


def _uncapture(n):
    if n["t"] == "Kw":
        return G.KW("k")
    return dict(n, c=[n["c"][0], A])


@mechanism("match-capture-constant-name", r"V:py:ValueError\|identifier field can't represent '\w+' constant")
class _M17:
    has = staticmethod(_in_match(_const_capture))
    norm = staticmethod(_rewrite(_const_capture, _uncapture))


def _compiles_to_nothing(n):
    """Forms that (if accepted) compile to an empty Result: no statements, no expression."""
    h = G.head_of(n)
    if h in ("eval-when-compile", "pragma"):
        return True
    if h in ("do", "eval-and-compile"):
        return all(_compiles_to_nothing(c) for c in n["c"][1:])
    if h in ("require", "try", "import"):
        return len(n["c"]) == 1 or (h == "try" and all(_compiles_to_nothing(c) for c in n["c"][1:]))
    if h == "let" and len(n["c"]) >= 2 and n["c"][1]["t"] == "List" and not n["c"][1]["c"]:
        return all(_compiles_to_nothing(c) for c in n["c"][2:])
    return False


@mechanism("position-taken-from-empty-result", r"V:py:ValueError\|invalid integer value: None")
class _M18:
    has = staticmethod(_has(_compiles_to_nothing))
    norm = staticmethod(lambda ir: G.map_top(ir, lambda n: G.S("None") if _compiles_to_nothing(n) else None))


def _try_finally_empty(n):
    return G.head_of(n) == "try" and any(
        G.head_of(c) == "finally" and len(c["c"]) > 1 and all(_compiles_to_nothing(x) for x in c["c"][1:])
        for c in n["c"][1:])


@mechanism("try-finally-without-statements", r"V:py:ValueError\|Try has neither except handlers nor finalbody")
class _M19:
    has = staticmethod(_has(_try_finally_empty))
    norm = staticmethod(_rewrite(_try_finally_empty, lambda n: dict(n, c=[
        dict(c, c=[c["c"][0], A]) if G.head_of(c) == "finally" else c for c in n["c"]])))



def _guard_positions(n):
    if G.head_of(n) != "match":
        return []
    return [i + 1 for i, c in enumerate(n["c"][:-1])
            if c["t"] == "Kw" and c["v"] == "if" and n["c"][i + 1]["t"] == "Expr"]


@mechanism("match-guard-without-expression", r"V:py:ValueError\|invalid integer value: None")
class _M20:
    has = staticmethod(_has(lambda n: bool(_guard_positions(n))))
    norm = staticmethod(_rewrite(lambda n: bool(_guard_positions(n)), lambda n: dict(n, c=[
        A if i in set(_guard_positions(n)) else c for i, c in enumerate(n["c"])])))


def _tp_falsy_bound(n):
    return any(G.head_of(x) == "annotate" and len(x["c"]) == 3 and _falsy_model(x["c"][2])
               for i in _tp_lists(n) for x in n["c"][i]["c"])


def _tp_bound_fix(n):
    idx = set(_tp_lists(n))
    fix = lambda x: dict(x, c=x["c"][:2] + [G.S("T")]) \
        if G.head_of(x) == "annotate" and len(x["c"]) == 3 and _falsy_model(x["c"][2]) else x
    return dict(n, c=[dict(c, c=[fix(x) for x in c["c"]]) if i in idx else c for i, c in enumerate(n["c"])])


@mechanism("type-parameter-falsy-bound-model", r"V:py:TypeError\|(required field \"lineno\" missing from expr|expected some sort of expr)")
class _M21:
    has = staticmethod(_has(_tp_falsy_bound))
    norm = staticmethod(_rewrite(_tp_falsy_bound, _tp_bound_fix))



def _for_empty_body(n):
    if G.head_of(n) != "for" or len(n["c"]) < 3:
        return False
    body = [c for c in n["c"][2:] if G.head_of(c) != "else"]
    return bool(body) and all(_compiles_to_nothing(c) for c in body)


@mechanism("for-body-compiling-to-nothing", r"V:py:ValueError\|empty body on (Async)?For")
class _M22:
    has = staticmethod(_has(_for_empty_body))
    norm = staticmethod(_rewrite(_for_empty_body, lambda n: dict(n, c=n["c"][:2] + [A] + n["c"][2:])))



def _dot_value_pattern_bad(n):
    return (G.head_of(n) == "." and len(n["c"]) >= 2 and all(c["t"] == "Sym" for c in n["c"])
            and (len(n["c"]) == 2 or n["c"][1]["v"] in CONSTS))


def _dot_fix(n):
    kids = [n["c"][0], A if n["c"][1]["v"] in CONSTS else n["c"][1]] + n["c"][2:]
    return dict(n, c=kids + ([G.S("K")] if len(kids) == 2 else []))


@mechanism("match-value-pattern-not-an-attribute-lookup",
           r"V:py:ValueError\|patterns may only match literals and attribute lookups")
class _M23:
    has = staticmethod(_in_match(_dot_value_pattern_bad))
    norm = staticmethod(_rewrite(_dot_value_pattern_bad, _dot_fix))



def _compat_const(n):
    return n["t"] in ("Sym", "Kw") and n["v"] not in CONSTS[:3] and G.nk(n["v"]) in CONSTS[:3]


def _ascii_consts(n):
    return G.map_ir(n, lambda x: dict(x, v=G.nk(x["v"])) if _compat_const(x) else x)


def _binding_site_fix(n):
    """Respell compatibility-spelled constants only where a *name is bound or defined*
    (the alias name of deftype, :tp lists, anything inside a match form) - the sites that
    go through _nonconst / compile_pattern. A constant in a plain value position is not
    this mechanism."""
    h = G.head_of(n)
    if h == "match":
        return _ascii_consts(n)
    if n["t"] != "Expr":
        return n
    idx = set(_tp_lists(n))
    kids = [_ascii_consts(c) if (i in idx or (h == "deftype" and i >= 1 and c["t"] == "Sym")) else c
            for i, c in enumerate(n["c"])]
    return dict(n, c=kids)


def _binding_site_norm(ir):
    return G.map_ir(ir, _binding_site_fix)


@mechanism("constant-name-check-ignores-mangling", r"V:py:ValueError\|identifier field can't represent '\w+' constant")
class _M24:
    has = staticmethod(lambda ir: _binding_site_norm(ir) != ir)
    norm = staticmethod(_binding_site_norm)


def _compat_wildcard(n):
    return n["t"] == "Sym" and n["v"] != "_" and G.nk(n["v"]) == "_"


@mechanism("match-wildcard-check-ignores-mangling", r"V:py:ValueError\|can't capture name '_' in patterns")
class _M25:
    has = staticmethod(_in_match(_compat_wildcard))
    norm = staticmethod(_rewrite(_compat_wildcard, lambda n: G.S("_")))



def _nan_complex(c):
    return c["t"] == "Complex" and any(x.lstrip("+-") == "nan" for x in c["v"])


def _set_of_nan_complex(n):
    return n["t"] == "Set" and sum(1 for c in n["c"] if _nan_complex(c)) >= 2


def _definan(n):
    fix = lambda c: dict(c, v=["1.0" if x.lstrip("+-") == "nan" else x for x in c["v"]]) if _nan_complex(c) else c
    return dict(n, c=[fix(c) for c in n["c"]])


# a CPython defect reachable through Hy: a frozenset constant (folded set display) holding two
# or more complex numbers with a NaN component cannot be marshalled
@mechanism("marshal-frozenset-of-nan-complex-constants", r"V:marshal:MemoryError")
class _M26:
    has = staticmethod(_has(_set_of_nan_complex))
    norm = staticmethod(_rewrite(_set_of_nan_complex, _definan))


# --------------------------------------------------------------------- cases

def cases(seed, tier, shard, nshards):
    heads = G.all_heads()
    tpls = G.templates()
    depth = 5
    idx = 0
    # (c) the templates themselves
    for h in sorted(tpls):
        for k, ir in enumerate(tpls[h]):
            idx += 1
            if idx % nshards == shard:
                yield {"ir": G.finish(ir, depth), "mode": "template", "head": h}
    # (d) regression corpus: the input class behind every repaired mechanism, in several
    # spellings and host forms; every worker runs all of it (a few seconds), so that a
    # regression of any repair is seen whatever the seed and the number of workers
    corpus = G.regress_corpus()
    for key, ir in corpus:
        yield {"ir": ir, "mode": "regress", "head": "<regress>", "regress": key}
    # (e) empty-clause shapes of try / while / for / with / cond / match / defclass / if ...:
    # a small exhaustive section, dealt to the shards
    for k, (key, ir) in enumerate(G.empty_clause_corpus()):
        if k % nshards == shard:
            yield {"ir": ir, "mode": "clauses", "head": "<regress>", "regress": key}
    i = 0
    while True:
        rng = rng_for(seed, ID, shard, i)
        h = heads[(i // 2 * nshards + shard + seed) % len(heads)]
        if i % 8 == 7:
            # a mutated corpus item: the same input classes in neighbouring shapes
            key, ir = corpus[rng.randrange(len(corpus))]
            for _ in range(rng.choice([1, 1, 2])):
                ir, op = G.mutate_once(rng, ir)
            yield {"ir": G.finish(ir, depth), "mode": "regress-mutant", "head": "<regress>", "regress-near": key}
        elif i % 2 == 0:
            ir, ops = G.gen_mutant(rng, h, depth)
            yield {"ir": ir, "mode": "mutate", "head": h, "ops": ops}
        else:
            yield {"ir": G.gen_direct(rng, h, depth), "mode": "direct", "head": h}
        i += 1


def setup_worker(tier, seed):
    bad = G.pool_selfcheck()
    if bad:
        raise SystemExit(f"sandbox premise broken: pool names resolve to builtins/modules: {bad}")
    G.templates()
    _extra["untemplated_heads"] = list(G._untemplated)


def finish_worker():
    return dict(_extra)


def gate(tot, classes, extra, tier):
    try:
        missing = [h for h in G.core_heads() if ("head:" + h) not in classes]
    except Exception:
        return None
    if missing:
        return "core-macro-heads-never-compiled:" + ",".join(missing[:8])
    missing = [k for k in G.regress_keys() if classes.get("regress:" + k, 0) < 3]
    if missing:
        return "regression-classes-not-exercised:" + ",".join(missing[:8])
    return None


def features(ir):
    out = set()
    for n, d in G.walk(ir):
        t = n["t"]
        if t == "Dict" and len(n["c"]) % 2:
            out.add("odd-dict")
        if t == "Expr" and not n["c"]:
            out.add("empty-expression")
        if t == "FComp":
            out.add("fcomponent")
            if n.get("conv") not in (None, "r", "s", "a"):
                out.add("fcomp-odd-conversion")
            if not n["c"]:
                out.add("fcomp-empty")
        if t == "FStr":
            out.add("fstring")
        if t == "Kw":
            out.add("kw:" + n["v"] if n["v"] in G.SPECIAL_KWS else ("kw-empty" if n["v"] == "" else "kw-other"))
        if t == "Sym" and n["v"] in G.SPECIAL_SYMS:
            out.add("sym:" + n["v"])
        if t in ("Sym", "Kw") and not n["v"].isascii() and G.nk(n["v"]) != n["v"]:
            out.add("compat-spelling:" + (G.nk(n["v"]) if G.nk(n["v"]) in ("None", "True", "False", "_", "if", "class")
                                          else "other"))
        if t in ("Int", "Float", "Complex", "Str", "Bytes"):
            out.add("lit:" + t)
        if t in ("List", "Tuple", "Set", "Dict"):
            out.add("seq:" + t)
        h = G.head_of(n)
        if h in ("unpack-iterable", "unpack-mapping"):
            out.add(h + ("" if len(n["c"]) == 2 else "-arity%d" % (len(n["c"]) - 1)))
        if h == "annotate":
            out.add("annotate-form")
    return out


def run_case(case):
    ir = case["ir"]
    if not G.is_sanitary(ir):
        return {"ok": None, "classes": ["skipped-not-sanitary"]}
    outcome, detail = observe(ir)
    if outcome == "unbuildable":
        return {"ok": None, "classes": ["unbuildable"]}
    head, sig = G.signature(ir)
    depth = G.ir_depth(ir)
    oc = outcome if not outcome.startswith("hy-error") else outcome
    classes = ["mode:" + case.get("mode", "?"), "head:" + head, "out:" + oc, "depth:%d" % depth]
    classes += ["feat:" + f for f in sorted(features(ir))]
    if case.get("regress"):
        classes.append("regress:" + case["regress"])
    res = {"ok": True, "nontrivial": depth >= 2, "classes": classes, "events": 1,
           "nt_keys": [[head, sig, oc]],
           "sample": {"form": G.show(ir)[:300], "outcome": outcome, "detail": detail[:120]}}
    if outcome.startswith("V:"):
        key = attribute(ir, outcome, detail)
        res.update(ok=False, finding=key,
                   why=f"{G.show(ir)[:400]}  ==>  {outcome[2:]}: {detail[:300]}"
                       f"{'  [mechanism ' + key + ']' if key else ''}")
        if key is not None:
            n = _emitted[key] = _emitted.get(key, 0) + 1
            if n > PER_KEY_CAP:
                # known-frequent mechanism: do not let it crowd the 200 forwarded violations
                _extra["capped"][key] = _extra["capped"].get(key, 0) + 1
                return {"ok": None, "classes": classes + ["capped:" + key]}
    return res


def case_key(case):
    return case["ir"]
