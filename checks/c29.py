"""C29 — hy.as-model promotes values to model trees that evaluate back.

A case is a *history* of hy.as-model calls over values that share objects.
Some calls must fail (a self-referential structure; an unrepresentable leaf at
a chosen position); between calls the history may *heal* the structures (plain
container assignments that replace the bad leaf / break the cycle), after which
promoting the very same objects must succeed.

Per call the oracle checks, from the statement: outcome (HyWrapperError exactly
for self-referential structures, success for every representable acyclic value
-- shared sub-objects, i.e. a DAG, must not raise); every node of the result is
a model; hy.eval(result) equals the original (models demoted to their values;
NaN-aware, typed); as-model of the result deep-equals the result; an input that
is already a complete model tree comes back deep-equal.  "Behaves as in a fresh
process": the result is compared with the promotion of a twin built from new
objects; every difference, and a sample of agreements, is decided by a
brand-new interpreter process (a VIOLATION of that clause is only raised from
its answer).

fault_enumeration: for every generated structure T, (a) every node position p
is replaced by an unrepresentable leaf, (b) every list-element / dict-value
position is replaced by a reference to each of its enclosing containers; each
is its own history (fail, probe the labelled sub-objects, promote new values,
heal, promote the same objects again).
"""
import collections
import copy
import json
import sys
import types

from hv.common import rng_for, same_model
from hv import gen_values as G

ID = "C29"
LEVEL = "fault_enumeration"
RULE = ("a case is a history of hy.as-model calls over values sharing objects (str bytes int float complex bool "
        "None list tuple dict set keyword, models read from text, model containers around non-models; DAG sharing; "
        "self-references; unrepresentable leaves), with heal steps that repair a failed structure in place. "
        "Grid part: for each generated structure every node position gets an unrepresentable leaf and every "
        "list-element/dict-value position a reference to each enclosing container, one history each. "
        "Non-trivial = a promoted value of nesting depth >= 2, or a failure followed by a successful promotion of a "
        "structure sharing objects with the failed one; distinct by rendered history.")
FLOOR = {"quick": 2000, "thorough": 2000}
BUDGET = {"quick": 22, "thorough": 420}
CASE_TIMEOUT = 30
NEEDS_EVENTS = True
ANCHORS = ["hy.models:as_model", "hy.models:recwrap", "hy.models:_dict_wrapper"]
ASSUMPTIONS = [
    "models in the input are compared after demotion to their values (a model is by design never == its value); "
    "NaN equals NaN, types are compared at every node, sign of zero is not gating",
    "an input that is already a complete model tree must come back deep-typed-equal (it is in the image of "
    "as-model, so this is the idempotence clause applied to it)",
    "the error for an unrepresentable leaf must be an exception, its type is recorded but only "
    "HyWrapperError for self-referential structures is demanded",
    "fresh-process clause: twin built from new objects as filter, brand-new interpreter process as verdict",
]
MANIFEST = {
    "text": "Histories of hy.as-model calls over generated values sharing objects: every call is checked for outcome (HyWrapperError exactly for self-referential structures; success for representable acyclic values including DAGs), result all models, hy.eval(result) equal to the original with models demoted (NaN-aware, typed), idempotence, preservation of complete model trees, and agreement with a fresh interpreter (twin of new objects as filter, brand-new process as verdict). For every generated structure an unrepresentable leaf is put at every node position and a self-reference at every list/dict-value slot towards every enclosing container; after each failure the same objects are probed, healed in place and promoted again. Secondary: hy.models._seen empty at quiescence (skipped if gone).",
    "note": "Trusted: hy.eval/compiler for literal model trees, CPython equality, the value builder. Bounds: depth <= 4, width <= 4, histories <= 30 calls. Crash points are the failures as-model itself raises (self-reference, unrepresentable leaf); no asynchronous exceptions.",
    "technique": "runtime monitoring: call histories with failure injection at every position, evaluation round-trip and idempotence oracles, differential against fresh interpreter processes; _seen invariant as secondary monitor",
}
TOOL = 3

# sources of complete model trees: [text, hashable when evaluated]
MODEL_SRC = [
    ["1", True], ["-2.5", True], ['"s"', True], ['b"b"', True], [":kw", True], ["True", True],
    ["None", True], ['[1 "a"]', False], ["#(1 2)", True], ['{"a" 1}', False], ["#{1 2}", False],
    ["1+2j", True], ["#[[bracket]]", True], ["#[x[br ]] ack]x]", True], ['f"a{1}b"', True],
    ["#[f[x{2}y]f]", True], ['f"{v1 !r :>4}"', True], ["(+ 1 2)", True], ["'sym", True],
    ["'(a b)", True], ["NaN", True], ["Inf", True], ["-Inf", True], ["(quote :k)", True], ["v1", True],
    ["[v1 (+ v1 1)]", False], ["#()", True], ["[]", False], ['"it\'s \\"q\\""', True],
    ["[#(1 [2 {3 4}])]", False], ["0x10", True], ["1_000", True], ['(.upper "x")', True],
    ["(if True 1 2)", True], ['#[f-y[{v1}]f-y]', True], ["[:a :b]", False], ["b\"\\xff\\x00\"", True],
]
SRC_HASHABLE = {s for s, h in MODEL_SRC if h}
MKINDS = ["List", "Tuple", "Set", "Dict"]
OBJ_KINDS = ["object", "func", "bytearray", "frozenset", "range", "fraction", "ellipsis", "type"]
OBJ_HASHABLE = ["object", "func", "frozenset", "range", "fraction", "ellipsis", "type"]


# ------------------------------------------------------------------ IR helpers

def kids29(n):
    return G.kids(n)


def positions(ir):
    """(path, node, hashable_ctx, fixable_slot, [ancestor types])  in pre-order.
    path = list of child indexes (into G.kids order)."""
    out = []

    def rec(n, path, hashable, fixable, anc):
        out.append((path, n, hashable, fixable, anc))
        t = n["t"]
        c = n.get("c")
        if not c:
            return
        if t == "dict":
            i = 0
            for k, v in c:
                rec(k, path + [i], True, False, anc + [t])
                rec(v, path + [i + 1], hashable, not hashable, anc + [t])
                i += 2
        elif t == "list":
            for i, x in enumerate(c):
                rec(x, path + [i], hashable, not hashable, anc + [t])
        elif t == "set":
            for i, x in enumerate(c):
                rec(x, path + [i], True, False, anc + [t])
        elif t == "mseq":
            for i, x in enumerate(c):
                h = hashable or n["kind"] == "Set" or (n["kind"] == "Dict" and i % 2 == 0)
                rec(x, path + [i], h, False, anc + [t])
        else:   # tuple
            for i, x in enumerate(c):
                rec(x, path + [i], hashable, False, anc + [t])
    rec(ir, [], False, False, [])
    return out


def replace_at(ir, path, new):
    """Copy of ir with the node at `path` replaced."""
    if not path:
        return new
    m = dict(ir)
    i = path[0]
    if ir["t"] in G.MAP_TYPES:
        c = [list(kv) for kv in ir["c"]]
        c[i // 2][i % 2] = replace_at(c[i // 2][i % 2], path[1:], new)
    else:
        c = list(ir["c"])
        c[i] = replace_at(c[i], path[1:], new)
    m["c"] = c
    return m


def strip_labels(ir):
    return G.map_nodes(ir, lambda n: {k: v for k, v in n.items() if k != "lbl"})


class Gen29(G.Gen):
    IMMUTABLE = G.Gen.IMMUTABLE | {"mseq"}
    PATCHABLE = {"list", "dict"}

    def __init__(self, rng, bad_p=0.0, **kw):
        # (hash(NaN) is id-based: a set holding NaN iterates in a process-dependent order,
        #  which would show up in the Set model that as-model makes from it)
        super().__init__(rng, "model", nan_in_sets=False, **kw)
        self.bad_p = bad_p

    def cont_table(self, hashable):
        t = super().cont_table(hashable)
        return t + [("mseq", 5)]

    def leaf_table(self, hashable):
        t = super().leaf_table(hashable) + [("mread", 7)]
        if self.bad_p and self.rng.random() < self.bad_p:
            return [("obj", 1)]
        return t

    def gen_mread(self, d, h):
        pool = [s for s, hh in MODEL_SRC if (hh or not h) and not (s == "NaN" and self.in_set)]
        return {"t": "mread", "src": self.rng.choice(pool)}

    def gen_obj(self, d, h):
        n = {"t": "obj", "kind": self.rng.choice(OBJ_HASHABLE if h else OBJ_KINDS)}
        n["alt"] = G.leaf_ir(self.rng.randint(0, 99))
        return n

    def gen_mseq(self, d, h):
        kind = self.rng.choice(["Tuple"] if h else MKINDS)
        self.stack.append("mseq")
        c = []
        if kind == "Set":
            c = [self.node(d + 1, True, "key") for _ in range(self.width(d))]
        elif kind == "Dict":
            for _ in range(self.width(d)):
                c.append(self.node(d + 1, True, "key"))
                c.append(self.node(d + 1, h, "imm"))
        else:
            c = [self.node(d + 1, h, "imm") for _ in range(self.width(d))]
        self.stack.pop()
        if kind == "Set":
            c = self._uniq(c)
        elif kind == "Dict":
            c[0::2] = self._uniq(c[0::2])
        return {"t": "mseq", "kind": kind, "c": c}

    def node(self, depth, hashable, slot="imm"):
        # no NaN in any hashable position (set elements, dict keys, incl. those of Set/Dict
        # models): NaN keys are never equal, so `==` on the evaluated collection would depend
        # on object identity, and set order on id-based hashes
        if hashable:
            self.in_set += 1
        try:
            n = super().node(depth, hashable, slot)
        finally:
            if hashable:
                self.in_set -= 1
        if n["t"] == "ref":
            n["alt"] = G.leaf_ir(self.rng.randint(100, 199))
        return n

    def _nanny(self, n):
        return super()._nanny(n) or any(x["t"] == "mread" and x["src"] == "NaN" for x in G.walk(n))

    def _map(self, t, d, valgen=None):
        """dict nodes with pairwise distinct keys (distinct also after
        evaluation: 1, True, 1.0 and the model 1 count as the same key), so that
        every pair of the IR is really present in the object."""
        n = super()._map(t, d, valgen)
        keys = self._uniq([k for k, v in n["c"]])
        n["c"] = [[k, kv[1]] for k, kv in zip(keys, n["c"])]
        return n

    def _uniq(self, keys):
        """Make the nodes pairwise distinct as evaluated values (1, True, 1.0 and the model 1
        are one key): a duplicate is wrapped into a tuple with a unique string.  The nodes
        themselves are kept, since later shares may refer to labels inside them."""
        seen, out = [], []
        for i, k in enumerate(keys):
            try:
                kv = self._keyval(k)
                dup = kv != kv or kv in seen
            except Exception:
                kv, dup = None, True
            if dup:
                k = {"t": "tuple", "c": [k, G.leaf_ir(f"uniq{i}")]}
                kv = ("uniq", i, len(seen))
            seen.append(kv)
            out.append(k)
        return out

    def _seq(self, t, d, h, slot):
        n = super()._seq(t, d, h, slot)
        if t == "set":
            n["c"] = self._uniq(n["c"])
        return n

    def _keyval(self, k):
        st = _setup()
        return G.build(demote_ir(self._resolve(k)), ext={"mread": lambda b, nn: st["consts"][nn["src"]]})

    def _resolve(self, k):
        if not hasattr(self, "_labelled"):
            self._labelled = {}
        return G.map_nodes(k, lambda n: self._labelled.get(n["lbl"], n) if n["t"] == "share" else n)

    def label(self, n, hashable=False):
        if n["t"] == "mread" and n["src"] not in SRC_HASHABLE:
            hashable = False      # a model is hashable, the list/dict/set it evaluates to is not
        if n["t"] in ("obj", "ref"):
            return None           # a bad leaf is healed in place; a share of it would not be
        lbl = super().label(n, hashable)
        if not hasattr(self, "_labelled"):
            self._labelled = {}
        self._labelled[lbl] = n
        return lbl


# ---------------------------------------------------------------------- cases

def grid_histories(rng, tier):
    g = Gen29(rng, max_depth=rng.randint(2, 4 if tier == "thorough" else 3), share_p=0.0, label_p=0.0)
    T = g.value(want=rng.choice(["list", "dict", "list", "tuple", "mseq"]))
    # label every container so that its object can be probed by later calls
    lbl = [0]

    def lab(n):
        if "c" in n:
            n = dict(n, lbl=lbl[0])
            lbl[0] += 1
        return n
    T = G.map_nodes(strip_labels(T), lab)
    g2 = Gen29(rng, max_depth=2, share_p=0.0, label_p=0.0)
    good1 = strip_labels(g2.value())
    good2 = strip_labels(g2.value())
    pos = positions(T)
    plans = []
    for path, node, hashable, fixable, anc in pos:
        bad = {"t": "obj", "kind": rng.choice(OBJ_HASHABLE if hashable else OBJ_KINDS)}
        if fixable:
            bad["alt"] = strip_labels(node)
        plans.append(("unrep", path, bad, len(anc)))
        if fixable:
            for up in range(1, len(anc) + 1):
                if anc[-up] in ("set",):
                    continue
                plans.append(("selfref", path, {"t": "ref", "up": up, "alt": strip_labels(node)}, len(anc)))
    for kind, path, bad, depth in plans:
        Tp = replace_at(T, path, bad)
        labels = sorted(n["lbl"] for n in G.walk(Tp) if "lbl" in n and n["t"] != "share")
        root = Tp.get("lbl")
        ops = [{"op": "as", "v": good1},
               {"op": "as", "v": Tp}]
        for l in labels:
            ops.append({"op": "as", "v": {"t": "share", "lbl": l}})
        ops.append({"op": "as", "v": good2})
        if "alt" in bad:
            ops.append({"op": "heal"})
            for l in ([root] if root is not None else []) + labels[-3:]:
                ops.append({"op": "as", "v": {"t": "share", "lbl": l}})
        ops.append({"op": "as", "v": {"t": "list", "c": [{"t": "share", "lbl": l} for l in labels[:3]] * 2}})
        yield {"ops": ops[:30], "kind": "grid-" + kind, "depth": depth}


def random_history(rng, tier):
    g = Gen29(rng, max_depth=rng.randint(2, 4), share_p=0.15)
    nops = rng.randint(3, 30 if tier == "thorough" else 12)
    ops = []
    for _ in range(nops):
        r = rng.random()
        g.bad_p = 0.0
        g.ref_p = 0.0
        if r < 0.10 and ops:
            ops.append({"op": "heal"})
            continue
        if r < 0.30 and g.labels:
            v = {"t": "share", "lbl": rng.choice([l for l, h, nn in g.labels])}
        elif r < 0.42:
            g.ref_p = 0.25
            v = g.value(want=rng.choice(["list", "dict", "tuple", "mseq"]))
        elif r < 0.54:
            g.bad_p = 0.15
            v = g.value()
        else:
            v = g.value()
        ops.append({"op": "as", "v": v})
    return {"ops": ops, "kind": "random"}


def cases(seed, tier, shard, nshards):
    i = 0
    while True:
        rng = rng_for(seed, ID, shard, i)
        i += 1
        if i % 3:
            yield from grid_histories(rng, tier)
        else:
            for _ in range(10):
                yield random_history(rng, tier)


# ------------------------------------------------------------------- execution

_state = {}


class Unrep:
    pass


def _mk_obj(kind):
    import fractions
    return {"object": object, "func": lambda: (lambda: 0), "bytearray": lambda: bytearray(b"x"),
            "frozenset": lambda: frozenset([1]), "range": lambda: range(3),
            "fraction": lambda: fractions.Fraction(1, 3), "ellipsis": lambda: Ellipsis,
            "type": lambda: Unrep}[kind]()


def _b_mseq(b, n):
    import hy.models as M
    return b._imm(n, getattr(M, n["kind"]))


def _b_mread(b, n):
    # a copy of a model read once, at set-up: building values must not depend on the state
    # of the function under test (the reader calls as-model itself)
    st = _setup()
    proto = st["protos"].get(n["src"])
    if proto is None:
        proto = st["protos"][n["src"]] = st["hy"].read(n["src"])
    return copy.deepcopy(proto)


def _b_obj(b, n):
    return _mk_obj(n["kind"])


EXT = {"mseq": _b_mseq, "mread": _b_mread, "obj": _b_obj}


def _intended(m, src):
    """The model the source text denotes.  The reader itself passes what it reads through
    as-model, so for bracket strings the delimiter is (re)stated with the constructor."""
    import hy.models as M
    if src.startswith("#[") and isinstance(m, (M.String, M.FString)):
        delim = src[2:src.index("[", 2)]
        if m.brackets != delim:
            m = (M.FString(iter(m), brackets=delim) if isinstance(m, M.FString)
                 else M.String(str(m), brackets=delim))
    return m


def _setup():
    if _state:
        return _state
    import hy
    import hy.models
    import hy.compiler  # noqa: F401
    from hy.errors import HyWrapperError
    env = types.ModuleType("hvc29env")
    env.v1 = 7
    sys.modules[env.__name__] = env
    consts, protos = {}, {}
    for src, _ in MODEL_SRC:
        protos[src] = _intended(hy.read(src), src)
        consts[src] = hy.eval(hy.read(src), module=env)
    _state.update(protos=protos, hy=hy, M=hy.models, env=env, consts=consts, HWE=HyWrapperError,
                  counts=collections.Counter(), mon=None, ncases=0, checked={})
    return _state


def setup_worker(tier, seed):
    st = _setup()
    st["mon"] = G.EntryMonitor("hy.models", "as_model", TOOL, "hv-c29")


def finish_worker():
    st = _setup()
    out = dict(st["counts"])
    out["secondary_monitor_skipped"] = bool(st.get("secondary_skipped"))
    return {"c29": out}


def gate(tot, classes, extra, tier):
    c = extra.get("c29", {})
    if not c.get("fresh_process_sampled"):
        return "no-call-was-cross-checked-against-a-brand-new-process"
    if c.get("filter_disagrees_with_fresh_process"):
        return f"twin-filter-disagrees-with-brand-new-process-{c['filter_disagrees_with_fresh_process']}x"
    for k in ("outcome:selfref-HyWrapperError", "outcome:unrep-raised", "healed-then-ok"):
        if not classes.get(k):
            return "never-observed-" + k
    return None


class History:
    """Builds the values of a history (one Builder: objects are shared between
    calls) and applies heal steps; makes no hy.as-model call itself."""

    def __init__(self, ops):
        self.ops = ops
        self.fixers = []          # pending: (ir node, container, key)
        self.healed = set()       # id() of IR nodes that have been replaced by their alt
        self.b = G.Builder(ext=EXT, on_store=self._stored)
        self.defs = {}
        for op in ops:
            if op["op"] == "as":
                self.defs.update(G.label_defs(op["v"]))

    def _stored(self, node, v, cont, key):
        if node["t"] in ("obj", "ref") and "alt" in node:
            self.fixers.append((node, cont, key))

    def prepare(self, i):
        op = self.ops[i]
        if op["op"] == "heal":
            fx, self.fixers = self.fixers, []
            for node, cont, key in fx:
                cont[key] = self.b.build(node["alt"])
                self.healed.add(id(node))
            return None
        return self.b.build(op["v"])

    # the value as it is *now* (healed nodes replaced, shares resolved), as a tree IR
    def effective(self, ir, _depth=0):
        if _depth > 40:
            return ir
        if ir["t"] == "share":
            return self.effective(self.defs[ir["lbl"]], _depth + 1)
        if ir["t"] in ("obj", "ref") and id(ir) in self.healed:
            return ir["alt"]
        c = ir.get("c")
        if c is None:
            return ir
        m = {k: v for k, v in ir.items() if k != "lbl"}
        if ir["t"] in G.MAP_TYPES:
            m["c"] = [[self.effective(k, _depth + 1), self.effective(v, _depth + 1)] for k, v in c]
        else:
            m["c"] = [self.effective(x, _depth + 1) for x in c]
        return m


def expectation(eff):
    ts = G.ir_types(eff)
    if "ref" in ts:
        return "selfref+unrep" if "obj" in ts else "selfref"
    if "obj" in ts:
        return "unrep"
    return "ok"


def graph_expectation(v):
    """Ground truth from the real object graph: is it self-referential, does
    it contain an unrepresentable leaf?"""
    import fractions
    import hy.models as M
    cyc = unrep = False
    path = set()
    done = set()

    def rec(x):
        nonlocal cyc, unrep
        if isinstance(x, (list, tuple, dict, set)) and not isinstance(x, (M.String,)):
            i = id(x)
            if i in path:
                cyc = True
                return
            if i in done:
                return
            path.add(i)
            if isinstance(x, dict):
                for k, y in x.items():
                    rec(k)
                    rec(y)
            else:
                for y in x:
                    rec(y)
            path.discard(i)
            done.add(i)
        elif (type(x) is object or x is Ellipsis or x is Unrep or isinstance(
                x, (bytearray, frozenset, range, fractions.Fraction, types.FunctionType))):
            unrep = True
    rec(v)
    if cyc:
        return "selfref+unrep" if unrep else "selfref"
    return "unrep" if unrep else "ok"


def dump(m):
    """JSON-able, process-independent rendering of a model tree."""
    import hy.models as M
    if isinstance(m, M.Sequence):
        extra = {a: getattr(m, a) for a in ("brackets", "conversion", "is_tstring") if hasattr(m, a)}
        return [type(m).__name__, extra, [dump(x) for x in m]]
    if isinstance(m, M.Keyword):
        return ["Keyword", m.name]
    if isinstance(m, M.Object):
        base = next(t for t in type(m).__mro__ if not issubclass(t, M.Object))
        r = base.__repr__(m)
        if isinstance(m, M.String):
            return [type(m).__name__, r, m.brackets]
        return [type(m).__name__, r]
    return ["NON-MODEL", type(m).__name__]


def first_non_model(m, path=""):
    import hy.models as M
    if not isinstance(m, M.Object):
        return f"{path or 'root'}: {type(m).__name__}"
    if isinstance(m, M.Sequence):
        for i, x in enumerate(m):
            d = first_non_model(x, f"{path}[{i}]")
            if d:
                return d
    return None


def call(st, v):
    try:
        return ["ok", st["hy"].as_model(v)]
    except st["HWE"] as e:
        return ["exc", "HyWrapperError", str(e)[:60]]
    except RecursionError:
        return ["exc", "RecursionError", ""]
    except Exception as e:
        return ["exc", type(e).__name__, str(e)[:60]]


def fresh_eval(arg):
    """Brand-new interpreter: replay the builds and heals of the history, make
    only the i-th as-model call."""
    st = _setup()
    ops, i = arg["ops"], arg["i"]
    h = History(ops)
    v = None
    for j in range(i + 1):
        v = h.prepare(j)
    r = call(st, v)
    return ["ok", dump(r[1])] if r[0] == "ok" else r[:2]


def demote_ir(eff):
    """IR of the plain value the promoted tree must evaluate to."""
    def f(n):
        if n["t"] == "mseq":
            k = n["kind"]
            if k == "Dict":
                return {"t": "dict", "c": [[n["c"][i], n["c"][i + 1]] for i in range(0, len(n["c"]) - 1, 2)]}
            return {"t": {"List": "list", "Tuple": "tuple", "Set": "set"}[k], "c": n["c"]}
        return n
    return G.map_nodes(eff, f)


def secondary(st):
    M = st["M"]
    if not hasattr(M, "_seen"):
        st["secondary_skipped"] = True
        return None
    st["counts"]["secondary_checks"] += 1
    try:
        n = len(M._seen)
    except TypeError:
        st["secondary_skipped"] = True
        return None
    if n:
        st["counts"]["secondary_dirty"] += 1
        return f"hy.models._seen holds {n} ids"
    return None


def value_checks(st, eff, v, tree):
    """Stateless oracles on one successful promotion. -> why or None"""
    hy = st["hy"]
    d = first_non_model(tree)
    if d:
        return f"the result contains a non-model at {d}"
    key = json.dumps(eff, sort_keys=True)
    if key in st["checked"]:
        return st["checked"][key]
    why = None
    expected = G.build(demote_ir(eff), ext={"mread": lambda b, n: st["consts"][n["src"]]})
    try:
        got = hy.eval(tree, module=st["env"])
    except Exception as e:
        why = f"hy.eval of the promoted tree raised {type(e).__name__}: {str(e)[:160]}"
    else:
        diff = G.deep_same(expected, got)
        if diff:
            why = (f"the promoted tree evaluates to {got!r:.200}, the original (models demoted) is "
                   f"{expected!r:.200} ({diff[:200]})")
        elif G.sign_of_zero_differs(expected, got):
            st["counts"]["sign_of_zero_differs"] += 1
    if why is None:
        r2 = call(st, tree)
        if r2[0] != "ok":
            why = f"as-model applied to its own output raised {r2[1]}: {r2[2]}"
        else:
            diff = same_model(tree, r2[1])
            if diff:
                why = f"as-model is not idempotent: {diff[:200]}"
    if why is None and eff["t"] == "mread":
        diff = same_model(v, tree)
        if diff:
            why = f"a complete model tree ({eff['src']}) is not preserved: {diff[:200]}"
    if len(st["checked"]) < 20000:
        st["checked"][key] = why
    return why


def run_case(case):
    st = _setup()
    if st["mon"] is None:
        st["mon"] = G.EntryMonitor("hy.models", "as_model", TOOL, "hv-c29")
    mon = st["mon"]
    ops = case["ops"]
    st["ncases"] += 1
    idx = [i for i, op in enumerate(ops) if op["op"] == "as"]
    sample = set()
    if st["ncases"] == 1 or st["ncases"] % 500 == 0:
        sample.add(idx[-1] if st["ncases"] % 1000 else idx[len(idx) // 2])
    h = History(ops)
    mon.count = 0
    classes = {"kind:" + case.get("kind", "?")}
    why = None
    failed = False          # some earlier call failed
    healed = False
    shared_success_after_failure = False
    deep = False
    notes = []
    keep = []
    for i, op in enumerate(ops):
        v = h.prepare(i)
        keep.append(v)
        if op["op"] == "heal":
            healed = True
            classes.add("op:heal")
            continue
        eff = h.effective(op["v"])
        exp = expectation(eff)
        gexp = graph_expectation(v)
        if gexp != exp and not (gexp.startswith("selfref") and exp.startswith("selfref")):
            raise RuntimeError(f"harness: IR says {exp}, object graph says {gexp}: {json.dumps(op['v'])[:400]}")
        got = call(st, v)
        keep.append(got)
        sec = secondary(st)
        if sec:
            notes.append(f"after call {i}: {sec}")
        classes.add("expect:" + exp)
        # ---- outcome, from the statement
        if exp == "ok":
            if got[0] != "ok":
                why = (f"call {i}: a representable, non-self-referential value "
                       f"({'sharing sub-objects, ' if op['v']['t'] == 'share' or 'share' in G.ir_types(op['v']) else ''}"
                       f"{'after an earlier failure, ' if failed else ''}{'after healing, ' if healed else ''}"
                       f"effective IR {json.dumps(eff)[:300]}) raised {got[1]}: {got[2]}")
                break
            classes.add("outcome:ok")
            if failed:
                classes.add("ok-after-failure")
                if op["v"]["t"] == "share" or "share" in G.ir_types(op["v"]):
                    shared_success_after_failure = True
            if healed and failed:
                classes.add("healed-then-ok")
            if G.ir_depth(eff) >= 2:
                deep = True
            if "share" in G.ir_types(op["v"]):
                classes.add("dag")
            w = value_checks(st, eff, v, got[1])
            if w:
                why = f"call {i}: {w} (effective IR {json.dumps(eff)[:300]})"
                break
        else:
            if got[0] == "ok":
                d = first_non_model(got[1])
                why = (f"call {i}: as-model returned normally for a "
                       f"{'self-referential' if 'selfref' in exp else 'unrepresentable'} value"
                       + (f"; the result contains a non-model at {d}" if d else ""))
                break
            failed = True
            if exp == "selfref":
                classes.add("outcome:selfref-" + got[1])
                if got[1] != "HyWrapperError":
                    why = (f"call {i}: a self-referential structure raised {got[1]} ({got[2]}) instead of "
                           f"HyWrapperError (IR {json.dumps(op['v'])[:300]})")
                    break
            else:
                classes.add("outcome:unrep-raised")
                classes.add("unrep-exc:" + got[1])
        # ---- as in a fresh process: twin of new objects (filter), brand-new process (verdict)
        mine = ["ok", dump(got[1])] if got[0] == "ok" else got[:2]
        do_twin = failed or i in sample or (i * 7 + st["ncases"]) % 3 == 0
        if not do_twin:
            continue
        twin_ir = strip_labels(eff) if exp == "ok" else None
        if twin_ir is not None:
            tv = G.build(twin_ir, ext=EXT)
            keep.append(tv)
            tw = call(st, tv)
            secondary(st)
            twin = ["ok", dump(tw[1])] if tw[0] == "ok" else tw[:2]
            st["counts"]["twin_compared"] += 1
        else:
            twin = mine           # failing calls: the outcome oracle above already decided
        if mine == twin and i not in sample:
            continue
        fresh = G.fresh_process("checks.c29", {"ops": ops, "i": i})
        if isinstance(fresh, dict):
            raise RuntimeError("fresh process: " + str(fresh))
        if mine == twin:
            st["counts"]["fresh_process_sampled"] += 1
            if fresh != mine:
                st["counts"]["filter_disagrees_with_fresh_process"] += 1
        else:
            st["counts"]["fresh_process_confirmations"] += 1
            if fresh == mine:
                st["counts"]["filter_disagrees_with_fresh_process"] += 1
        if fresh != mine and (fresh[0] == "ok" or mine[0] == "ok"):
            why = (f"call {i} of the history gave {json.dumps(mine)[:300]}; a fresh interpreter gives "
                   f"{json.dumps(fresh)[:300]} for the same value")
            break
    if notes and len(st.setdefault("graveyard", [])) < 20000:
        # The secondary monitor saw ids left behind.  Keep this history's objects alive so
        # that those ids are never reused by later cases: a violation is then reported by
        # the history that caused it (and reproduces when replayed alone), not by an
        # innocent later one.  (Never happens on a tree that cleans up.)
        st["graveyard"].append((h, keep))
    res = {"ok": why is None,
           "nontrivial": deep or shared_success_after_failure,
           "classes": sorted(classes), "events": mon.count, "n": len(idx)}
    if why:
        if notes:
            why += " [secondary: " + "; ".join(notes[:3]) + "]"
        res["why"] = why
    return res
