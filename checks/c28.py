"""C28 — hy.repr output does not depend on earlier failed or nested calls.

A case is a *history*: a sequence of hy.repr calls (and, between them, plain
attribute assignments that arm/disarm a failing printer) over values that
share objects.  Values contain objects of harness types whose printers,
registered with hy.repr-register, (a) raise after printing k children,
(b) call hy.repr on other values/models/temporaries, catching failures or not,
(c) print themselves.  Every call's outcome is compared with what a fresh
interpreter gives for the same value.  Process creation costs 0.3-3 s on this
machine, so that is done in two stages: a *filter* -- the same object printed by
a pristine instance of the printer module (its code object executed into a
new namespace, harness printers registered anew, `hy.repr` pointed at it for
the duration) -- and a *verdict*: every difference the filter reports, and a
sample of the entries it passes, is put to a brand-new interpreter process
(exec) that rebuilds the value from the IR and makes that one call only.  A
VIOLATION is only ever raised from the brand-new process's answer.

fault_enumeration: for every generated spine structure (failing boxes nested
D deep, n_d children at level d) every fault plan (k, d) -- box at level d
raises after k children, 0 <= k <= n_d -- is run as its own history.
"""
import collections
import sys

from hv.common import rng_for
from hv import gen_values as G

ID = "C28"
LEVEL = "fault_enumeration"
RULE = ("a case is a history of 3-30 hy.repr calls over values sharing objects: C27 values, models "
        "(read from text or assembled around non-models), and harness objects whose registered printers "
        "raise after k children / call hy.repr on children, models and temporaries / catch nested failures / "
        "print themselves. Grid part: for each generated spine of nested failing boxes every plan (k,d) is "
        "one history (fail, then probes of the objects on the failure path, a model, a container, heal the box, "
        "print again). Recover part: a catching printer whose child printer raises, inside a model sequence with "
        "model siblings after it and inside a self-referential container, at every depth 0..D; such a call is "
        "also compared with the same call in which the failed nested calls are not made. "
        "Random part: mixed histories. Non-trivial = a call that failed with the printer's exception (or made "
        "a nested call that failed and was recovered) followed later by >=1 successful print of a model and "
        ">=1 of a builtin container; "
        "distinct by rendered history.")
FLOOR = {"quick": 1000, "thorough": 1000}
BUDGET = {"quick": 22, "thorough": 420}
CASE_TIMEOUT = 30
NEEDS_EVENTS = True
ANCHORS = ["hy.core.hy_repr:hy_repr"]
ASSUMPTIONS = [
    "filter: a pristine instance of the hy.core.hy_repr module prints like a fresh interpreter; every difference it "
    "reports and a sample of the entries it passes are decided by a brand-new interpreter process (exec)",
    "only exceptions raised by registered printers are crash points (no asynchronous exceptions)",
    "PYTHONHASHSEED is the same in the history process and the fresh processes; NaN and harness objects "
    "(id-based hashes) are kept out of sets so that iteration order is process-independent",
]
MANIFEST = {
    "text": "Histories of hy.repr calls over values sharing objects, with registered harness printers that raise after k children at nesting level d (every (k,d) of each generated structure is enumerated), call hy.repr recursively on children, models and temporaries, catch nested failures, or print themselves; after every call the outcome is compared with what a fresh interpreter process gives for the same value (text equality for successes; success/failure must agree). Secondary: _quoting false and _seen empty at every outermost return/raise (skipped if the names are gone). fault_enumeration over printer-raised exceptions only.",
    "note": "Trusted: the pristine-module filter selects what is put to brand-new interpreter processes (all reported differences + a sample of passes; verdicts come only from those processes); the value builder. Bounds: histories <= 30 calls, spine depth <= 4 (5 thorough), <= 4 children per box. Crash points are exceptions raised by printers, not asynchronous exceptions between arbitrary lines of hy-repr.",
    "technique": "runtime monitoring: call histories with fault injection in registered printers, differential against fresh interpreter processes; quiescent-point state invariants as secondary monitor",
}
TOOL = 3

MODEL_SRC = [
    "a", "'a", "(a b)", "[1 2]", "{a 1}", "#{1}", '"str"', 'f"x{y}"', "(quote x)",
    "`(a ~b ~@c)", ":kw", "#(1 2)", "a.b.c", "(. a b)", "#* x", 'b"x"', "1.5", "#[[br]]",
    "(f :k v)", "'[a 'b]", "(fn [x] (+ x 1))", "~ @x", "Inf", "(.m o)", "[[[]]]", "{}", "()",
    "#[f[a{b}c]f]", "(quote (quote x))", "None", "2+3j", '"it\'s \\"q\\""',
]
MKINDS = ["List", "Tuple", "Set", "Dict", "Expression"]
BOX_TYPES = ("failbox", "catchbox", "selfbox", "tempbox")


# --------------------------------------------------------------- harness types

class PrinterError(Exception):
    """Raised by a harness printer: the only kind of crash point in this check."""


class Box:
    def __init__(self, n):
        self.children = []
        self.k = n.get("k")


class FailBox(Box):
    pass


class CatchBox(Box):
    pass


class SelfBox(Box):
    pass


class SelfBoxP(Box):
    pass


class TempBox(Box):
    pass


_state = {}


def _print_fail(x):
    import hy
    out = []
    for i, c in enumerate(x.children):
        if x.k is not None and i >= x.k:
            raise PrinterError(i)
        out.append(hy.repr(c))
    if x.k is not None and len(x.children) <= x.k:
        raise PrinterError(len(x.children))
    return "(FailBox" + "".join(" " + t for t in out) + ")"


# Log of the nested calls made by CatchBox printers during one top-level call: a tree of
# {"caught": bool, "subs": [...]} in call order.  mode "record" fills it; mode "replay"
# re-runs the same print but does NOT make the nested calls that were caught (the printer
# emits its recovery text directly): the same call *without* the failed nested calls.
_rec = {"mode": None, "cur": None}


def _print_catch(x):
    import hy
    out = []
    for c in x.children:
        mode, level = _rec["mode"], _rec["cur"]
        ev = None
        if mode == "record":
            ev = {"caught": False, "subs": []}
            level.append(ev)
            _rec["cur"] = ev["subs"]
        elif mode == "replay":
            ev = level["events"][level["pos"]] if level["pos"] < len(level["events"]) else None
            level["pos"] += 1
            if ev is not None and ev["caught"]:
                out.append("<caught>")
                continue
            _rec["cur"] = {"events": ev["subs"] if ev else [], "pos": 0}
        try:
            try:
                out.append(hy.repr(c))
            except PrinterError:
                if mode == "record":
                    ev["caught"] = True
                out.append("<caught>")
        finally:
            _rec["cur"] = level
    return "(CatchBox" + "".join(" " + t for t in out) + ")"


def with_log(mode, log, f):
    """Run f() with the CatchBox printers recording into / replaying from `log`."""
    saved = dict(_rec)
    _rec["mode"] = mode
    _rec["cur"] = log if mode == "record" else {"events": log, "pos": 0}
    try:
        return f()
    finally:
        _rec.update(saved)


def any_caught(log):
    return any(e["caught"] or any_caught(e["subs"]) for e in log)


def _print_self(x):
    import hy
    before = hy.repr(x)
    out = [hy.repr(c) for c in x.children]
    after = hy.repr(x)
    return "(" + type(x).__name__ + " " + before + "".join(" " + t for t in out) + " " + after + ")"


def _print_temp(x):
    import hy
    M = hy.models
    a = hy.repr(list(x.children))                 # a temporary container
    b = hy.repr(M.List(x.children))               # a model made on the fly (starts quoting unless inside a model)
    c = hy.repr(M.Expression([M.Symbol("quote"), M.Symbol("t")]))
    d = hy.repr(tuple(x.children))
    return f"(TempBox {a} {b} {c} {d})"


def _setup():
    if _state:
        return _state
    import hy
    import hy.core.hy_repr as HR
    import hy.models
    import hy.reader  # noqa: F401
    hy.repr_register(FailBox, _print_fail)
    hy.repr_register(CatchBox, _print_catch)
    hy.repr_register(SelfBox, _print_self)
    hy.repr_register(SelfBoxP, _print_self, placeholder="<SELF>")
    hy.repr_register(TempBox, _print_temp)
    _state.update(hy=hy, HR=HR, counts=collections.Counter(), mon=None, ncases=0)
    return _state


def setup_worker(tier, seed):
    st = _setup()
    st["mon"] = G.EntryMonitor("hy.core.hy_repr", "hy_repr", TOOL, "hv-c28")


def finish_worker():
    st = _setup()
    out = dict(st["counts"])
    out["secondary_monitor_skipped"] = bool(st.get("secondary_skipped"))
    return {"c28": out}


def gate(tot, classes, extra, tier):
    c = extra.get("c28", {})
    if c.get("reference_unavailable"):
        return "pristine-printer-instance-could-not-be-made"
    if not c.get("fresh_process_sampled"):
        return "no-entry-was-cross-checked-against-a-brand-new-process"
    if c.get("filter_disagrees_with_fresh_process"):
        return f"pristine-instance-filter-disagrees-with-brand-new-process-{c['filter_disagrees_with_fresh_process']}x"
    if not classes.get("plan:raised"):
        return "no-fault-plan-made-a-printer-raise"
    if not c.get("twin_without_failed_nested_calls"):
        return "no-recovered-nested-failure-was-observed"
    return None


# ---------------------------------------------------------------- IR extension

def _b_box(cls_for):
    def f(b, n):
        obj = cls_for(n)(n)
        fr = b.push(n["t"], obj)
        for c in n["c"]:
            v = b._b(c)
            i = len(obj.children)
            obj.children.append(v)
            b.put(v, obj.children, i)
        b.pop(fr, obj)
        return obj
    return f


def _b_mseq(b, n):
    import hy.models as M
    return b._imm(n, getattr(M, n["kind"]))


def _b_mread(b, n):
    import hy
    return hy.read(n["src"])


EXT = {
    "failbox": _b_box(lambda n: FailBox),
    "catchbox": _b_box(lambda n: CatchBox),
    "selfbox": _b_box(lambda n: SelfBoxP if n.get("p") else SelfBox),
    "tempbox": _b_box(lambda n: TempBox),
    "mseq": _b_mseq,
    "mread": _b_mread,
}


class Gen28(G.Gen):
    IMMUTABLE = G.Gen.IMMUTABLE | {"mseq"}
    PATCHABLE = G.Gen.PATCHABLE | set(BOX_TYPES)
    EXTRA_CONT = [("failbox", 4), ("catchbox", 3), ("selfbox", 3), ("tempbox", 2), ("mseq", 6)]

    def __init__(self, rng, fail_p=0.5, **kw):
        super().__init__(rng, "repr", nan_in_sets=False, **kw)
        self.fail_p = fail_p

    def cont_table(self, hashable):
        t = super().cont_table(hashable)
        return t if hashable else t + self.EXTRA_CONT

    def leaf_table(self, hashable):
        t = super().leaf_table(hashable)
        return t if hashable else t + [("mread", 8)]

    def gen_mread(self, d, h):
        return {"t": "mread", "src": self.rng.choice(MODEL_SRC)}

    def gen_mseq(self, d, h):
        n = self._seq("mseq", d, False, "imm")
        n["kind"] = self.rng.choice(MKINDS)
        return n

    def gen_failbox(self, d, h):
        n = self._seq("failbox", d, False, "mut")
        n["k"] = self.rng.randint(0, len(n["c"])) if self.rng.random() < self.fail_p else None
        return n

    def gen_catchbox(self, d, h):
        return self._seq("catchbox", d, False, "mut")

    def gen_selfbox(self, d, h):
        n = self._seq("selfbox", d, False, "mut")
        n["p"] = self.rng.random() < 0.5
        return n

    def gen_tempbox(self, d, h):
        return self._seq("tempbox", d, False, "mut")


WRAPS = ["direct", "list", "tuple", "dict", "deque", "odict", "mList", "mExpression", "mDict",
         "mTuple", "mSet", "catchbox", "tempbox", "selfbox", "chainmap", "counter", "slice"]


def wrap(g, rng, make_inner, kind):
    """Put the IR made by make_inner() into a wrapper of the given kind, next to
    small values.  (Nodes are generated in build order: a node may share only
    objects built before it.)  Returns (wrapper, inner)."""
    def small():
        return g.node(g.max_depth - 1, False, "imm")
    if kind == "direct":
        inner = make_inner()
        return inner, inner
    before = [small() for _ in range(rng.randint(0, 1))]
    inner = make_inner()
    after = [small() for _ in range(rng.randint(0, 1))]
    seq = before + [inner] + after
    if kind in ("list", "tuple", "deque", "catchbox", "tempbox"):
        n = {"t": kind, "c": seq}
        if kind == "deque":
            n["maxlen"] = None
    elif kind == "selfbox":
        n = {"t": "selfbox", "c": seq, "p": rng.random() < 0.5}
    elif kind in ("dict", "odict", "counter"):
        n = {"t": kind, "c": [[G.leaf_ir(f"k{i}"), v] for i, v in enumerate(seq)]}
    elif kind == "chainmap":
        n = {"t": "chainmap", "c": [{"t": "dict", "c": [[G.leaf_ir(i), v]]} for i, v in enumerate(seq)]}
    elif kind == "slice":
        n = {"t": "slice", "c": (seq + [{"t": "none"}, {"t": "none"}])[:3]}
    else:
        mk = kind[1:]
        if mk == "Dict" and len(seq) % 2:
            seq.append(G.leaf_ir(0))
        n = {"t": "mseq", "kind": mk, "c": seq}
    return n, inner


def gen_spine(g, rng, levels):
    """Failing boxes nested `levels` deep.  Returns (ir, [(label, n_children)] by level,
    labels of the wrappers between the levels)."""
    boxes, wrappers = [], []

    def mk(level):
        kids = [g.node(g.max_depth - 1, False, "mut") for _ in range(rng.randint(0, 2))]
        if level < levels - 1:
            w, inner = wrap(g, rng, lambda: mk(level + 1), rng.choice(WRAPS))
            if w is not inner:
                wrappers.append(g.label(w))
            kids.append(w)
        kids += [g.node(g.max_depth - 1, False, "mut") for _ in range(rng.randint(0, 1))]
        box = {"t": "failbox", "c": kids, "k": None}
        boxes.append((g.label(box), len(kids)))
        return box
    top, root = wrap(g, rng, lambda: mk(0), rng.choice(WRAPS))
    boxes.reverse()          # level 0 first
    if top is not root:
        wrappers.append(g.label(top))
    return top, boxes, wrappers


def probe_model(g, rng):
    if rng.random() < 0.5:
        return {"t": "mread", "src": rng.choice(MODEL_SRC)}
    old = g.max_depth
    g.max_depth = 2
    try:
        return g.finish(g.gen_mseq(0, False), False)
    finally:
        g.max_depth = old


def grid_histories(rng, tier):
    """One spine structure and, for each of its fault plans (k, d), a history."""
    levels = rng.randint(1, 5 if tier == "thorough" else 4)
    g = Gen28(rng, fail_p=0.0, max_depth=3, share_p=0.1)
    pre = [{"op": "repr", "v": g.value()} for _ in range(rng.randint(0, 2))]
    top, boxes, wrappers = gen_spine(g, rng, levels)
    extra_model = probe_model(g, rng)
    cont = g.value(want=rng.choice(["list", "dict", "tuple", "deque", "set"]))
    selfb = g.finish(g.gen_selfbox(1, False), False)
    tail = g.value()
    # probes that do not depend on the plan; the order of the probe block is drawn once
    for d, (lbl, n) in enumerate(boxes):
        for k in range(n + 1):
            ops = list(pre)
            ops.append({"op": "repr", "v": top})                       # no plan yet: succeeds
            ops.append({"op": "setk", "lbl": lbl, "k": k})              # arm box at level d
            ops.append({"op": "repr", "v": {"t": "share", "lbl": top["lbl"]} if "lbl" in top
                        else {"t": "share", "lbl": boxes[0][0]}})       # fails (unless caught)
            ops.append({"op": "repr", "v": extra_model})
            for w in wrappers:
                ops.append({"op": "repr", "v": {"t": "share", "lbl": w}})
            for bl, _ in boxes:
                ops.append({"op": "repr", "v": {"t": "share", "lbl": bl}})
            ops.append({"op": "repr", "v": cont})
            ops.append({"op": "setk", "lbl": lbl, "k": None})           # heal
            ops.append({"op": "repr", "v": {"t": "share", "lbl": boxes[0][0]}})
            for w in wrappers[-2:]:
                ops.append({"op": "repr", "v": {"t": "share", "lbl": w}})
            ops.append({"op": "repr", "v": selfb})
            ops.append({"op": "repr", "v": {"t": "mread", "src": "'(a [b] {c d})"}})
            ops.append({"op": "repr", "v": tail})
            yield {"ops": ops[:30], "kind": "grid", "plan": [k, d], "levels": levels,
                   "nchildren": n}


def random_history(rng, tier):
    g = Gen28(rng, fail_p=0.5, max_depth=rng.randint(2, 4), share_p=0.15,
              ref_p=0.05 if rng.random() < 0.4 else 0.0)
    nops = rng.randint(3, 30 if tier == "thorough" else 14)
    ops = []
    boxlabels = []
    for _ in range(nops):
        r = rng.random()
        if r < 0.12 and boxlabels:
            lbl, n = rng.choice(boxlabels)
            ops.append({"op": "setk", "lbl": lbl, "k": rng.choice([None, rng.randint(0, n)])})
            continue
        if r < 0.30:
            v = probe_model(g, rng)
        elif r < 0.45 and g.labels:
            cands = [l for l, h, nn in g.labels]
            v = {"t": "share", "lbl": rng.choice(cands)}
        elif r < 0.60:
            v = g.value(want=rng.choice(BOX_TYPES))
        else:
            v = g.value()
        for x in G.walk(v):
            if x["t"] == "failbox" and "lbl" in x:
                boxlabels.append((x["lbl"], len(x["c"])))
        ops.append({"op": "repr", "v": v})
    return {"ops": ops, "kind": "random"}


RWRAPS = ["list", "tuple", "dict", "deque", "odict", "mList", "mExpression", "mTuple", "mDict",
          "catchbox", "tempbox", "selfbox", "chainmap", "counter"]


def recover_histories(rng, tier):
    """A catching printer whose child's printer raises (a recovered nested failure),
    (a) inside a model sequence with further model siblings after it, (b) inside a
    self-referential container whose placeholder must still appear afterwards -- each at
    every nesting depth 0..D, with the raise propagating through 0-2 containers up to
    the catching printer."""
    D = 5 if tier == "thorough" else 4
    for depth in range(D):
        for variant in ("model", "cycle"):
            g = Gen28(rng, fail_p=0.0, max_depth=3, share_p=0.1)
            pre = [{"op": "repr", "v": g.value()}] if rng.random() < 0.5 else []

            def small():
                return g.node(2, False, "imm")

            def model():
                return probe_model(g, rng)

            made = {}

            def thrower(levels):
                if levels == 0:
                    kids = [rng.choice((small, model))() for _ in range(rng.randint(0, 3))]
                    bad = {"t": "failbox", "c": kids, "k": rng.randint(0, len(kids))}
                    g.label(bad)
                    made["bad"] = bad
                    return bad
                kind = rng.choice(["list", "tuple", "mList", "mExpression", "dict", "selfbox", "tempbox"])
                return wrap(g, rng, lambda: thrower(levels - 1), kind)[0]     # the raise passes through

            def catcher():
                # (nodes are generated in build order: a node may share only what is built before it)
                cbkids = [model() for _ in range(rng.randint(0, 1))]
                cbkids.append(thrower(rng.randint(0, 2)))
                if variant == "cycle":
                    cbkids.append({"t": "ref", "up": rng.randint(2, 2 + depth)})
                cbkids += [model() for _ in range(rng.randint(0, 2))]
                cb = {"t": "catchbox", "c": cbkids}
                g.label(cb)
                made["cb"] = cb
                return cb

            def core():
                if variant == "model":
                    seq = [model() for _ in range(rng.randint(0, 2))]
                    seq.append(catcher())
                    seq += [model() for _ in range(rng.randint(1, 3))]
                    seq.append({"t": "mseq", "kind": "Expression", "c": [model()]})
                    kind = rng.choice(["List", "Expression", "Tuple", "Set", "Dict"])
                    if kind == "Dict" and len(seq) % 2:
                        seq.append(model())
                    n = {"t": "mseq", "kind": kind, "c": seq}
                else:
                    seq = [small() for _ in range(rng.randint(0, 1))]
                    seq.append(catcher())
                    seq.append({"t": "ref", "up": rng.randint(1, 1 + depth)})
                    seq += [rng.choice((small, model))() for _ in range(rng.randint(0, 2))]
                    seq.append({"t": "ref", "up": 1})
                    kind = rng.choice(["list", "dict", "deque", "odict"])
                    if kind in ("list", "deque"):
                        n = {"t": kind, "c": seq}
                        if kind == "deque":
                            n["maxlen"] = None
                    else:
                        n = {"t": kind, "c": [[G.leaf_ir(f"k{j}"), v] for j, v in enumerate(seq)]}
                made["core"] = n
                return n

            def nest(d):
                if d == 0:
                    return core()
                return wrap(g, rng, lambda: nest(d - 1), rng.choice(RWRAPS))[0]
            top = nest(depth)
            # references count *frames*: a chainmap wrapper adds two, so clamp by building
            nframes = _frames_above(top, made["core"])
            for x in G.walk(made["core"]):
                if x["t"] == "ref":
                    x["up"] = min(x["up"], nframes + _depth_in(made["core"], x))
            ops = list(pre)
            ops.append({"op": "repr", "v": top})
            ops.append({"op": "repr", "v": model()})
            ops.append({"op": "repr", "v": {"t": "share", "lbl": made["cb"]["lbl"]}})
            ops.append({"op": "repr", "v": g.value(want=rng.choice(["list", "dict", "tuple"]))})
            ops.append({"op": "setk", "lbl": made["bad"]["lbl"], "k": None})
            ops.append({"op": "repr", "v": {"t": "share", "lbl": made["cb"]["lbl"]}})
            ops.append({"op": "setk", "lbl": made["bad"]["lbl"], "k": 0})
            ops.append({"op": "repr", "v": {"t": "mseq", "kind": "List",
                                            "c": [model(), {"t": "share", "lbl": made["cb"]["lbl"]}, model()]}})
            ops.append({"op": "repr", "v": model()})
            yield {"ops": ops, "kind": "recover-" + variant, "depth": depth}


def _frames_above(top, node):
    """Number of containers enclosing `node` inside `top` (builder frames)."""
    def rec(n, d):
        if n is node:
            return d
        if "c" in n:
            for k in G.kids(n):
                r = rec(k, d + 1)
                if r is not None:
                    return r
        return None
    return rec(top, 0) or 0


def _depth_in(core, ref):
    """Number of frames from `core` (inclusive) down to the slot holding `ref`."""
    def rec(n, d):
        if n is ref:
            return d
        if "c" in n:
            for k in G.kids(n):
                r = rec(k, d + 1)
                if r is not None:
                    return r
        return None
    return rec(core, 0) or 1


def cases(seed, tier, shard, nshards):
    i = 0
    while True:
        rng = rng_for(seed, ID, shard, i)
        i += 1
        if i % 4 in (1, 2):
            yield from grid_histories(rng, tier)
        elif i % 4 == 3:
            yield from recover_histories(rng, tier)
        else:
            for _ in range(8):
                yield random_history(rng, tier)


# ------------------------------------------------------------------- execution

class History:
    """Replays the non-hy.repr part of a history (building values, arming
    boxes) and performs hy.repr calls on request."""

    def __init__(self, ops):
        self.ops = ops
        self.b = G.Builder(ext=EXT)
        self.vals = {}

    def prepare(self, i):
        op = self.ops[i]
        if op["op"] == "setk":
            self.b.labels[op["lbl"]].k = op["k"]
            return None
        v = self.b.build(op["v"])
        self.vals[i] = v
        return v


def outcome(hy, v, mon=None):
    if mon is not None:
        mon.limit = 200000
    try:
        t = hy.repr(v)
        return ["ok", t] if isinstance(t, str) else ["exc", "not-a-str:" + type(t).__name__]
    except PrinterError:
        return ["exc", "PrinterError"]
    except G.EventBound:
        return ["exc", "EventBound"]
    except RecursionError:
        return ["exc", "RecursionError"]
    except Exception as e:
        return ["exc", type(e).__name__]
    finally:
        if mon is not None:
            mon.limit = None


def fresh_eval(arg):
    """In a brand-new interpreter: do everything the history did *except* its
    earlier hy.repr calls, then make the i-th call."""
    st = _setup()
    ops, i = arg["ops"], arg["i"]
    h = History(ops)
    v = None
    for j in range(i + 1):
        v = h.prepare(j)
    if arg.get("log") is not None:     # the same call without the nested calls that failed
        return with_log("replay", arg["log"], lambda: outcome(st["hy"], v))
    return outcome(st["hy"], v)


class Pristine:
    """The filter: the same object printed by a pristine instance of the
    printer module (fresh `_registry`, fresh whatever-state-it-keeps)."""

    def __init__(self, st):
        import importlib.util
        self.st = st
        HR = st["HR"]
        spec = importlib.util.find_spec(HR.__name__)
        self.code = spec.loader.get_code(HR.__name__)
        self.proto = {k: getattr(HR, k) for k in ("__name__", "__file__", "__package__", "__spec__",
                                                  "__loader__") if hasattr(HR, k)}

    def outcome(self, v, log=None):
        import types
        hy = self.st["hy"]
        m = types.ModuleType(self.proto["__name__"])
        m.__dict__.update(self.proto)
        exec(self.code, m.__dict__)
        m.hy_repr_register(FailBox, _print_fail)
        m.hy_repr_register(CatchBox, _print_catch)
        m.hy_repr_register(SelfBox, _print_self)
        m.hy_repr_register(SelfBoxP, _print_self, placeholder="<SELF>")
        m.hy_repr_register(TempBox, _print_temp)
        saved = hy.repr
        hy.repr = m.hy_repr
        try:
            if log is not None:
                return with_log("replay", log, lambda: outcome(hy, v))
            return outcome(hy, v)
        finally:
            hy.repr = saved


def secondary(st):
    HR = st["HR"]
    if not hasattr(HR, "_quoting") or not hasattr(HR, "_seen"):
        st["secondary_skipped"] = True
        return None
    st["counts"]["secondary_checks"] += 1
    dirty = []
    if HR._quoting:
        dirty.append("_quoting is true")
    try:
        if len(HR._seen):
            dirty.append(f"_seen holds {len(HR._seen)} ids")
    except TypeError:
        st["secondary_skipped"] = True
    if dirty:
        st["counts"]["secondary_dirty"] += 1
    return "; ".join(dirty) or None


def op_kind(v, defs):
    while v["t"] == "share" and v["lbl"] in defs:
        v = defs[v["lbl"]]
    if v["t"] in ("mread", "mseq"):
        return "model"
    if v["t"] in G.SEQ_TYPES or v["t"] in G.MAP_TYPES or v["t"] in ("chainmap",):
        return "container"
    if v["t"] in BOX_TYPES:
        return "box"
    return "other"


def run_case(case):
    st = _setup()
    if st["mon"] is None:
        st["mon"] = G.EntryMonitor("hy.core.hy_repr", "hy_repr", TOOL, "hv-c28")
    if "pristine" not in st:
        try:
            st["pristine"] = Pristine(st)
            st["pristine"].outcome(1)
        except Exception:
            st["pristine"] = None
            st["counts"]["reference_unavailable"] += 1
    hy, mon, ref = st["hy"], st["mon"], st["pristine"]
    ops = case["ops"]
    st["ncases"] += 1
    idx = [i for i, op in enumerate(ops) if op["op"] == "repr"]
    if ref is None:
        return {"ok": None, "classes": ["reference-unavailable"], "events": 0}
    # which entries are put to a brand-new process although the filter passes them
    sample = set()
    if st["ncases"] == 1 or st["ncases"] % 500 == 0:
        sample.add(idx[-1] if st["ncases"] % 1000 else idx[len(idx) // 2])

    defs = {}
    for op in ops:
        if op["op"] == "repr":
            defs.update(G.label_defs(op["v"]))
    h = History(ops)
    mon.count = 0
    classes = ["kind:" + case.get("kind", "?")]
    why = None
    failed_at = None
    model_after = cont_after = False
    notes = []
    for i, op in enumerate(ops):
        v = h.prepare(i)
        if op["op"] != "repr":
            classes.append("op:setk")
            continue
        exp = ref.outcome(v)                 # filter (touches no state of the module under test)
        n0 = mon.count
        log = []
        got = with_log("record", log, lambda: outcome(hy, v, mon))     # the call of the history
        sec = secondary(st)
        recovered = any_caught(log)
        if recovered:
            classes.append("nested-failure-recovered")
            if failed_at is None:
                failed_at = i
        kind = op_kind(op["v"], defs)
        classes.append("op:" + kind)
        classes.append("outcome:" + (got[0] if got[0] == "ok" else got[1]))
        if sec:
            notes.append(f"after call {i}: {sec}")
        if got[0] == "exc" and got[1] == "PrinterError":
            if failed_at is None:
                failed_at = i
        elif got[0] == "ok" and failed_at is not None:
            model_after |= kind == "model"
            cont_after |= kind == "container"
        if recovered and why is None:
            # The call made nested calls (from inside a printer) that failed and were
            # recovered from.  Its text must not depend on them: the same call with those
            # nested calls not made (the printer emits its recovery text directly) has to
            # give the same text.  Filter: pristine instance; verdict: brand-new processes.
            st["counts"]["twin_without_failed_nested_calls"] += 1
            twin = ref.outcome(v, log)
            if twin != got and (twin[0] == "ok" or got[0] == "ok"):
                f_orig = G.fresh_process("checks.c28", {"ops": ops, "i": i})
                f_twin = G.fresh_process("checks.c28", {"ops": ops, "i": i, "log": log})
                st["counts"]["fresh_process_confirmations"] += 2
                for f in (f_orig, f_twin):
                    if isinstance(f, dict):
                        raise RuntimeError("fresh process: " + str(f))
                if f_orig != f_twin and (f_orig[0] == "ok" or f_twin[0] == "ok"):
                    show = lambda o: repr(o[1][:300]) if o[0] == "ok" else "raises " + o[1]
                    why = (f"call {i}: a nested hy.repr call made from inside a printer failed and the printer "
                           f"recovered; the enclosing call then gives {show(f_orig)} in a fresh interpreter, but "
                           f"{show(f_twin)} when the failed nested call is not made at all: state of the call in "
                           f"progress was disturbed by the failed nested call")
                    break
                st["counts"]["filter_disagrees_with_fresh_process"] += 1
        if got == exp and i not in sample:
            continue
        # verdict: a brand-new interpreter process makes this one call
        fresh = G.fresh_process("checks.c28", {"ops": ops, "i": i})
        if isinstance(fresh, dict):
            raise RuntimeError("fresh process: " + str(fresh))
        if got == exp:
            st["counts"]["fresh_process_sampled"] += 1
            if fresh != exp:
                st["counts"]["filter_disagrees_with_fresh_process"] += 1
        else:
            st["counts"]["fresh_process_confirmations"] += 1
            if fresh == got:
                st["counts"]["filter_disagrees_with_fresh_process"] += 1
        exp = fresh
        if got == exp:
            continue
        if got[0] == "ok" and exp[0] == "ok":
            why = (f"call {i} of the history returned {got[1][:300]!r}; a fresh interpreter gives "
                   f"{exp[1][:300]!r} for the same value")
        elif got[0] == "ok":
            why = (f"call {i} of the history succeeded with {got[1][:300]!r}; in a fresh interpreter the "
                   f"same call raises {exp[1]}")
        elif exp[0] == "ok":
            why = (f"call {i} of the history raised {got[1]}; a fresh interpreter returns {exp[1][:300]!r}")
        else:
            classes.append("exc-type-differs")      # both fail: outside the statement
            continue
        break
    if notes and len(st.setdefault("graveyard", [])) < 20000:
        # ids were left behind (secondary monitor): keep this history's objects alive so that
        # the ids are not reused by later cases and the violation is reported by the history
        # that caused it.  (Never happens on a tree that cleans up.)
        st["graveyard"].append(h)
    if case.get("kind", "").startswith("recover"):
        classes.append(f"recover:d{case.get('depth')}")
    if case.get("kind") == "grid":
        classes.append("plan:raised" if failed_at is not None else "plan:not-raised")
        classes.append(f"plan:d{case['plan'][1]}")
        classes.append(f"plan:k{case['plan'][0]}")
    res = {"ok": why is None,
           "nontrivial": failed_at is not None and model_after and cont_after,
           "classes": sorted(set(classes)), "events": mon.count, "n": len(idx)}
    if why:
        if notes:
            why += " [secondary: " + "; ".join(notes[:3]) + "]"
        res["why"] = why
    return res
