"""C40 — the REPL evaluates incremental input and tracks *1 *2 *3 *e.

Two workloads, both against a real `hy.REPL` fed with `push(line)` under
captured stdout/stderr (no terminal), a sample also against a real `hy -i`
child process on a pipe:

1. *texts*: multi-line programs whose line structure is known — (a) evaluating
   programs laid out one sub-form per line with comment/blank lines (the
   layout knows on which line each top-level form closes; cross-checked with
   the independent scanner of hv/syntax_ir.py), (b) syntax-IR texts and (c)
   top-level forms of the repository's .hy files, every form wrapped in
   (quote ...) so that it evaluates (labels from the scanner).  Oracle: the
   more-flag of every `push` is true exactly while a form is open; the text
   printed for each input is what evaluating the same forms in order (read as
   one script, `hy.eval` in a fresh module) gives: prints, then `output_fn` of
   the input's last value unless it is None.

2. *histories* of 5-40 inputs: unique non-None values, None results, run-time
   failures, compile-time failures (macro error, syntax error in a special
   form, failed require), read-time failures (stray closer), empty inputs,
   values whose printing fails, each possibly split over several lines.  After
   EVERY input: more-flags, printed text, `*1 *2 *3` (slot oracle, see
   hv/replgen.py:slots_consistent) and `*e` (identity with the latest uncaught
   exception: unchanged by successful inputs, and for a failed input the very
   object the REPL handed to sys.excepthook, carrying the input's unique token).
"""
import ast
import contextlib
import io
import re
import sys
import types

from hv.common import rng_for
from hv import replgen as G
from hv import syntax_ir as S

ID = "C40"
LEVEL = "exploration"
RULE = ("(1) multi-line texts fed line by line: evaluating programs (2-5 interleaved snippet groups: setv/defn/"
        "defmacro/defclass/let/lfor/f-strings/strings and bracket strings with line breaks/discards/print) laid "
        "out one sub-form per line with blank and comment lines, syntax-IR texts and repository .hy forms wrapped "
        "in (quote ...); (2) histories of 5-40 inputs drawn from {unique value, None result, run-time failure, "
        "compile-time failure, read-time failure, empty, unprintable value}, 30% of them split over 2-4 lines, "
        "output functions hy.repr and repr, checked after every input; every 30th case is a history replayed through a real "
        "`hy -i` child on a pipe with probe inputs. Non-trivial = history with a failed input between two "
        "successful valued inputs, or text with an input spanning >= 2 lines followed by another input; "
        "distinct by case content.")
FLOOR = {"quick": 300, "thorough": 5000}
BUDGET = {"quick": 30, "thorough": 480}
CASE_TIMEOUT = 60
NEEDS_EVENTS = True
ANCHORS = ["hy.repl:REPL.runsource", "hy.repl:REPL.runcode", "hy.repl:REPL._error_wrap",
           "hy.repl:HyCompile.__call__", "hy.repl:HyCommandCompiler.__call__"]
ASSUMPTIONS = [
    "an input is the group of lines up to the first push that returns false; a failed or empty input may "
    "occupy a *k slot as None or be skipped, a successful input must occupy the next slot (DESIGN C40)",
    "expected printed text applies the tree's own output function (hy.repr / repr) to the reference value",
    "line-end labels (form open / closed) come from the generator's layout and hv/syntax_ir.py's scanner; a "
    "line ending inside a string whose prefix is not a premature end for the reader is outside the quantifier",
    "prompts of the child process are the documented defaults '=> ' and '... '",
]
MANIFEST = {
    "text": "A real hy.REPL is fed generated multi-line programs line by line (more-flag of every push vs. known "
            "form boundaries; printed text vs. evaluating the same forms in order) and histories of 5-40 "
            "succeeding, None-valued, failing (run/compile/read time), empty and multi-line inputs with unique "
            "values; after every input *1 *2 *3 must be explainable by the inputs so far (no value in two slots, "
            "none missing or out of order) and *e must be the identical latest uncaught exception. A sample of "
            "histories is replayed through a real `hy -i` child on a pipe. Exploration: held on the sessions run.",
    "note": "Trusted: layout/scanner line labels (cross-checked), hy.eval of the same forms as reference for "
            "printed text, the tree's hy.repr for rendering expected values. Bounds: histories <= 40 inputs, "
            "texts <= ~60 lines; no terminal, no readline, no startup file, no spy mode.",
    "technique": "runtime monitoring: REPL driven by push() with captured output; history oracle over unique "
                 "values for *1 *2 *3, identity oracle for *e",
}

_counts = {}
KEY_STALE = "repl-failed-input-shifts-stale-value"


def _bump(k, n=1):
    _counts[k] = _counts.get(k, 0) + n


def _sr(x):
    """repr that survives objects whose __repr__ raises (the unprintable values of the workload)."""
    try:
        return repr(x)
    except Exception:
        return f"<{type(x).__name__} n={getattr(x, 'n', '?')}>"


# ---------------------------------------------------------------------------
# case generation

_IR_CFGS = [dict(size=6, depth=3), dict(size=10, depth=4), dict(size=8, depth=3, fstring=3.0),
            dict(size=12, depth=4, noise=0.4)]


def _line_flags(text, cuts):
    """Expected more-flag after each line, or None when a line ends at an X cut."""
    flags, classes = [], []
    off = -1
    while True:
        nxt = text.find("\n", off + 1)
        end = nxt if nxt >= 0 else len(text)
        cls = cuts[end][0]
        if cls == "X":
            return None, None
        flags.append(cls != "T")
        classes.append(cls)
        if nxt < 0:
            break
        off = nxt
    return flags, classes


def _program_case(rng):
    from checks.c17 import Layout, parse
    forms = G.gen_program(rng)
    lay = Layout(rng, noise=rng.choice([0.0, 0.2, 0.4]), spread=rng.choice([0.5, 0.9, 1.0]))
    flags = {}
    if rng.random() < 0.4:
        lay.emit("; header comment ( [ \"")
        lay.newline(0)
    for i, ftxt in enumerate(forms):
        if i:
            if rng.random() < 0.15:
                lay.emit(" ")            # two top-level forms on one physical line
            else:
                lay.newline(0)
        start = lay.cur()
        for t in parse(ftxt):
            lay.render(t, 0, force=rng.random() < 0.7)
        for ln in range(start, lay.cur()):
            flags[ln] = True
    nlines = len(lay.lines)
    text = "\n".join(lay.lines)
    if rng.random() < 0.5:
        text += "\n"
        nlines += 1
    more = [bool(flags.get(i + 1, False)) for i in range(nlines)]
    return {"kind": "prog", "text": text, "more": more, "ofn": rng.choice(["hy.repr", "repr"])}


def cases(seed, tier, shard, nshards):
    corpus = []
    try:
        corpus = [c for i, c in enumerate(S.load_corpus(max_len=500)) if i % nshards == shard]
        rng_for(seed, ID, "corpus").shuffle(corpus)
    except Exception:
        corpus = []
    ci = 0
    i = 0
    maxlen = 40
    while True:
        rng = rng_for(seed, ID, shard, i)
        i += 1
        r = i % 15
        if r == 7 and (i // 15) % 2 == 0:
            hist = G.gen_history(rng, rng.randint(5, 14), probes=True, allow_p=False)
            yield {"kind": "sub", "hist": hist, "ofn": rng.choice(["hy.repr", "repr"])}
        elif r in (1, 4, 10):
            yield _program_case(rng)
        elif r == 12:
            cfg = S.GenConfig(multiline=0.5, top=(1, 4), **_IR_CFGS[rng.randrange(len(_IR_CFGS))])
            rd = S.render(S.gen_program(rng, cfg))
            if not rd.text.strip() or len(rd.text) > 400:
                continue
            try:
                text = G.quote_forms(rd.text, S.scan(rd.text))
                sc = S.scan(text)
            except (S.ScanError, AssertionError):
                continue
            yield {"kind": "ir", "text": text, "cuts": [c[0] for c in sc.cuts], "ofn": "hy.repr"}
        elif r == 13 and ci < len(corpus):
            c = corpus[ci]
            ci += 1
            try:
                text = G.quote_forms(c["text"], S.scan(c["text"]))
                sc = S.scan(text)
            except (S.ScanError, AssertionError):
                continue
            yield {"kind": "corpus", "text": text, "cuts": [c[0] for c in sc.cuts], "ofn": "hy.repr",
                   "src": f"{c['file']}#{c['index']}"}
        else:
            hist = G.gen_history(rng, rng.randint(5, maxlen))
            yield {"kind": "hist", "hist": hist, "ofn": rng.choice(["hy.repr", "repr"])}


# ---------------------------------------------------------------------------
# workload 1: texts

def _reference(text, groups, ofn):
    """Evaluate the forms of `text` (read as one script) in order; -> expected stdout per group,
    or None if the premise fails (unreadable / evaluation raises)."""
    import hy
    from hy.reader import read_many
    out_fn = G.output_function(ofn)
    try:
        forms = list(read_many(text))
    except Exception:
        return None
    name = "hvc40_ref_%d" % next(G._serial)
    mod = types.ModuleType(name)
    sys.modules[name] = mod
    expected = []
    try:
        fi = 0
        for (a, b) in groups:                  # 1-based inclusive line range of the group
            buf = io.StringIO()
            last = None
            with contextlib.redirect_stdout(buf):
                while fi < len(forms) and forms[fi].end_line <= b:
                    try:
                        last = hy.eval(forms[fi], locals=mod.__dict__, module=mod)
                    except Exception:
                        return None
                    fi += 1
                if last is not None:
                    print(out_fn(last))
            expected.append(buf.getvalue())
        if fi != len(forms):
            return None
    finally:
        sys.modules.pop(name, None)
    return expected


def _run_text(case):
    text, ofn = case["text"], case["ofn"]
    res = {"ok": True, "nontrivial": False, "classes": ["kind:" + case["kind"], "ofn:" + ofn], "events": 0}
    lines = text.split("\n")
    if case["kind"] == "prog":
        flags = case["more"]
        try:
            sflags, _ = _line_flags(text, S.scan(text).cuts)
        except (S.ScanError, AssertionError):
            sflags = None
        if sflags != flags:
            _bump("label_disagreement")
            res["ok"] = None
            res["classes"].append("skip:label-disagreement")
            return res
    else:
        flags, cls = _line_flags(text, [[c] for c in case["cuts"]])
        if flags is None:
            _bump("skip:x-cut")
            res["ok"] = None
            return res
        # a line ending inside a token (string): the prefix must be premature for the reader
        off = -1
        for i, c in enumerate(cls):
            off = text.find("\n", off + 1)
            if c == "M":
                o, _ = S.read_outcome(text[:off if off >= 0 else len(text)])
                if o != "premature":
                    _bump("skip:invalid-truncated-token")
                    res["ok"] = None
                    return res
    if len(flags) != len(lines):
        raise AssertionError("flags/lines mismatch")
    groups, start = [], 1
    for i, f in enumerate(flags):
        if not f:
            groups.append((start, i + 1))
            start = i + 2
    if start <= len(lines):
        # the text ends inside an open form: not a well-formed program
        _bump("skip:unterminated")
        res["ok"] = None
        return res
    expected = _reference(text, groups, ofn)
    if expected is None:
        _bump("skip:premise")
        res["ok"] = None
        res["classes"].append("skip:premise")
        return res
    recs, _ = G.drive([lines[a - 1:b] for a, b in groups], ofn)
    bad = []
    multi = 0
    for gi, ((a, b), rec, exp) in enumerate(zip(groups, recs, expected)):
        res["events"] += len(rec["more"])
        want = [True] * (b - a) + [False]
        if b > a:
            multi += 1
        if rec["more"] != want:
            k = next(j for j in range(len(want)) if rec["more"][j] != want[j])
            bad.append(f"line {a + k} {lines[a + k - 1]!r}: push returned more={rec['more'][k]} but the accumulated "
                       f"text is {'incomplete' if want[k] else 'complete'}")
            break          # the session is out of step from here on
        if rec["out"] != exp:
            bad.append(f"input at lines {a}-{b} printed {rec['out']!r}, evaluating the same forms in order gives "
                       f"{exp!r} (stderr {rec['err'][-200:]!r})")
    res["nontrivial"] = bool(multi and len(groups) >= 2 and any(b > a for (a, b) in groups[:-1]))
    res["classes"] += ["inputs:%d" % min(len(groups), 9)]
    if multi:
        res["classes"].append("multi-line-input")
    if any("M" == c for c in (case.get("cuts") or [])):
        res["classes"].append("has-multiline-token")
    res["sample"] = {"kind": case["kind"], "text": text[:600], "inputs": len(groups)}
    if bad:
        res.update(ok=False, why="; ".join(bad[:3]))
    return res


# ---------------------------------------------------------------------------
# workload 2: histories

def _expected_out(inp, ofn):
    if inp["kind"] == "V":
        return inp["out"] + str(G.output_function(ofn)(ast.literal_eval(inp["val"]))) + "\n"
    return inp["out"] or ""


def _check_e(inp, e_now, e_prev, hooked):
    """-> (problem or None, new e_prev)"""
    k = inp["kind"]
    if k in ("R", "C", "S"):
        if e_now is G.MISSING or not isinstance(e_now, BaseException):
            return f"*e is {e_now!r} after a failed input", e_now
        if e_now is e_prev:
            return f"*e still holds the previous exception {e_now!r} after the failed input {inp['lines']!r}", e_now
        if inp.get("etok") and inp["etok"] not in repr(e_now):
            return f"*e is {e_now!r}, which is not the exception of the failed input {inp['lines']!r}", e_now
        if k == "R" and type(e_now).__name__ != inp["exc"]:
            return f"*e is a {type(e_now).__name__}, the input raised {inp['exc']}", e_now
        if hooked and e_now is not hooked[-1]:
            return f"*e is not the exception object the REPL reported ({hooked[-1]!r})", e_now
        return None, e_now
    if k == "P":
        if e_now is e_prev:
            return None, e_prev
        if isinstance(e_now, BaseException) and ("repr" + inp["tok"]) in repr(e_now):
            return None, e_now
        return f"*e is {e_now!r} after an input whose value could not be printed", e_now
    if e_now is not e_prev:
        return (f"*e changed from {e_prev!r} to {e_now!r} although the input {inp['lines']!r} raised nothing "
                f"uncaught"), e_now
    return None, e_prev


def _check_history(hist, ofn):
    """-> (violations [(category, step, text)], info)"""
    recs, _ = G.drive([inp["lines"] for inp in hist], ofn)
    viol = []
    outs = []
    e_prev = G.MISSING
    events = 0
    stale_explains = True
    for step, (inp, rec) in enumerate(zip(hist, recs)):
        events += len(rec["more"])
        want = [True] * (len(inp["lines"]) - 1) + [False]
        if rec["more"] != want:
            viol.append(("more", step, f"input {inp['lines']!r}: push returned {rec['more']}, expected {want}"))
            break
        outs.append(G.outcome(inp))
        exp = _expected_out(inp, ofn)
        if rec["out"] != exp:
            viol.append(("stdout", step, f"input {inp['lines']!r} ({inp['kind']}) printed {rec['out']!r}, expected "
                         f"{exp!r}"))
        if not G.slots_consistent(rec["slots"], outs[::-1]):
            recent = [(h["kind"], h["lines"]) for h in hist[max(0, step - 4):step + 1]]
            viol.append(("slots", step, f"after inputs ...{recent} the REPL has *1={_sr(rec['slots'][0])} "
                         f"*2={_sr(rec['slots'][1])} *3={_sr(rec['slots'][2])}"))
            pred = G.stale_shift_model(outs)
            if not all(G.matches_descr(x, d) for x, d in zip(rec["slots"], pred)):
                stale_explains = False
        why, e_prev = _check_e(inp, rec["e"], e_prev, rec["hooked"])
        if why:
            viol.append(("e", step, why))
    return viol, {"events": events, "stale_explains": stale_explains}


def _normalise_failures(hist):
    """The finding's normaliser: every failed input becomes an input that succeeds with None."""
    out = []
    for inp in hist:
        if inp["kind"] in ("R", "C", "S"):
            out.append({"lines": ["None"], "kind": "N", "val": None, "out": "" if not inp.get("probe") else None,
                        "exc": None, "tok": inp["tok"]})
        else:
            out.append(inp)
    return out


def _hist_classes(hist):
    kinds = [h["kind"] for h in hist if not h.get("pre") and not h.get("probe")]
    cl = ["has:" + k for k in sorted(set(kinds))]
    if any(len(h["lines"]) > 1 for h in hist):
        cl.append("multi-line-input")
    # a failure between two valued successes
    nt = False
    seen_v = False
    seen_fail_after_v = False
    for k in kinds:
        if k == "V":
            if seen_fail_after_v:
                nt = True
            seen_v = True
        elif k in ("R", "C", "S") and seen_v:
            seen_fail_after_v = True
    return cl, nt


def _run_hist(case):
    hist, ofn = case["hist"], case["ofn"]
    cl, nt = _hist_classes(hist)
    res = {"ok": True, "nontrivial": nt, "classes": ["kind:hist", "ofn:" + ofn] + cl, "events": 0}
    viol, info = _check_history(hist, ofn)
    res["events"] = info["events"]
    res["sample"] = {"kind": "hist", "ofn": ofn, "inputs": [h["lines"] for h in hist][:12]}
    if viol:
        res.update(ok=False, why="; ".join(f"[{c}] step {s}: {t}" for c, s, t in viol[:3]) +
                   f" ({len(viol)} violating observations)")
        if all(c == "slots" for c, _, _ in viol) and info["stale_explains"] and \
                any(h["kind"] in ("R", "C", "S") for h in hist):
            v2, _ = _check_history(_normalise_failures(hist), ofn)
            if not v2:
                res["finding"] = KEY_STALE
    return res


# ---------------------------------------------------------------------------
# histories through a real child process

_PROBE_RE = re.compile(r"@@S (.*?) S@@\n@@E (.*?) E@@\n", re.S)


def _check_sub(hist, ofn):
    all_lines = [ln for inp in hist for ln in inp["lines"]]
    rc, out, err = G.drive_subprocess(all_lines, ofn)
    if rc is None:
        return None, {}
    viol = []
    probes = _PROBE_RE.findall(out)
    nprobe = sum(1 for h in hist if h.get("probe"))
    stripped = _PROBE_RE.sub("", out)
    expected = ""
    for inp in hist:
        for j, ln in enumerate(inp["lines"]):
            expected += "=> " if j == 0 else "... "
        expected += "" if inp.get("probe") else _expected_out(inp, ofn)
    expected += "=> "
    stale_explains = True
    if rc != 0:
        viol.append(("exit", 0, f"hy -i exited with status {rc}; stderr tail {err[-300:]!r}"))
    if stripped.rstrip("\n") != expected:
        # find first difference
        k = next((i for i, (a, b) in enumerate(zip(stripped, expected)) if a != b), min(len(stripped), len(expected)))
        viol.append(("stdout", 0, f"child stdout differs from the expected transcript at offset {k}: got "
                     f"{stripped[max(0, k - 40):k + 60]!r}, expected {expected[max(0, k - 40):k + 60]!r}"))
    if len(probes) != nprobe:
        viol.append(("probe", 0, f"{len(probes)} of {nprobe} probe outputs found"))
        return viol, {"stale_explains": False, "events": len(all_lines)}
    outs = []
    last_fail = None
    pi = 0
    for step, inp in enumerate(hist):
        if inp.get("probe"):
            ps, pe = probes[pi]
            pi += 1
            try:
                slots = ast.literal_eval(ps)
                einfo = None if pe == "None" else ast.literal_eval(pe)
            except Exception:
                viol.append(("probe", step, f"unparseable probe output {ps!r} / {pe!r}"))
                continue
            if not G.slots_consistent(slots, outs[::-1]):
                recent = [(h["kind"], h["lines"]) for h in hist[max(0, step - 6):step] if not h.get("probe")]
                viol.append(("slots", step, f"after inputs ...{recent} the child REPL has [*1 *2 *3] = {slots!r}"))
                pred = G.stale_shift_model(outs)
                if not all(G.matches_descr(x, d) for x, d in zip(slots, pred)):
                    stale_explains = False
            if last_fail is None:
                if einfo is not None:
                    viol.append(("e", step, f"*e is {einfo!r} although no input has failed"))
            else:
                if einfo is None or (last_fail.get("etok") and last_fail["etok"] not in einfo[1]) or \
                        (last_fail["kind"] == "R" and einfo[0] != last_fail["exc"]):
                    viol.append(("e", step, f"*e is {einfo!r}; the latest failed input was {last_fail['lines']!r}"))
        elif inp["kind"] in ("R", "C", "S"):
            last_fail = inp
        outs.append(G.outcome(inp))
    return viol, {"stale_explains": stale_explains, "events": len(all_lines)}


def _run_sub(case):
    hist, ofn = case["hist"], case["ofn"]
    cl, nt = _hist_classes(hist)
    res = {"ok": True, "nontrivial": nt, "classes": ["kind:sub", "ofn:" + ofn] + cl, "events": 0}
    viol, info = _check_sub(hist, ofn)
    if viol is None:
        # the child did not finish in time: this sub-check is skipped, never a violation
        _bump("sub:timeout")
        res["ok"] = None
        res["classes"].append("skip:child-timeout")
        return res
    _bump("sub:sessions")
    res["events"] = info.get("events", 0)
    res["sample"] = {"kind": "sub", "ofn": ofn, "inputs": [h["lines"] for h in hist if not h.get("probe")][:12]}
    if viol:
        res.update(ok=False, why="; ".join(f"[{c}] step {s}: {t}" for c, s, t in viol[:3]) +
                   f" ({len(viol)} violating observations)")
        if all(c == "slots" for c, _, _ in viol) and info["stale_explains"] and \
                any(h["kind"] in ("R", "C", "S") for h in hist):
            v2, _ = _check_sub(_normalise_failures(hist), ofn)
            if v2 == []:
                res["finding"] = KEY_STALE
    return res


def run_case(case):
    k = case["kind"]
    _bump("case:" + k)
    # no startup file, no spy, no inherited warning filter (see hv/replgen.py:clean_session)
    with G.clean_session():
        if k == "hist":
            return _run_hist(case)
        if k == "sub":
            return _run_sub(case)
        return _run_text(case)


def finish_worker():
    return {"c40": dict(_counts)}


def gate(tot, classes, extra, tier):
    c = extra.get("c40", {})
    if c.get("label_disagreement"):
        return f"layout-and-scanner-disagree-on-{c['label_disagreement']}-texts"
    for need in ("kind:hist", "kind:prog", "kind:ir", "has:R", "has:C", "has:S", "has:E", "has:N", "has:P",
                 "multi-line-input"):
        if not classes.get(need):
            return f"no-{need}-case-observed"
    return None
