"""C30 — `quote` reproduces its argument model exactly.

History observed: the model returned by evaluating (quote m). Oracle: deep typed
equality with m at every node, including brackets, conversion, expression and
is_tstring (NaN-aware).
"""
import types

from hv import gen_models as G
from hv.common import rng_for, same_model, MODEL_ATTRS

ID = "C30"
LEVEL = "exploration"
RULE = ("model trees from four sources: read from generated Hy source (random spellings), assembled "
        "with constructors from reader-valid parts, assembled with attribute combinations only "
        "constructors can express (any brackets / conversion / expression / is_tstring, dotted "
        "from_parser keywords, empty FComponent, FComponent outside an f-string), and every top-level "
        "form and distinct compound sub-form of the repository's own *.hy files; nesting <= 5. "
        "Non-trivial = the tree has >= 3 model types or an attribute-carrying node (brackets, "
        "conversion, expression, is_tstring); distinct by rendered case.")
FLOOR = {"quick": 1000, "thorough": 2000}
BUDGET = {"quick": 25, "thorough": 480}
CASE_TIMEOUT = 20
NEEDS_EVENTS = True
ANCHORS = ["hy.core.result_macros:render_quoted_form", "hy.core.result_macros:compile_quote"]
ASSUMPTIONS = [
    "every node of m is a model (quote of a tree holding plain Python values is not constrained)",
    "source positions are not compared; NaN equals NaN; sign of zero is not gating",
]
MANIFEST = {
    "text": "hy.eval of (quote m) is compared node by node with m (exact model type, brackets, "
            "conversion, expression, is_tstring, payload; NaN-aware) for models read from generated "
            "source, models assembled with constructors over every model type and attribute "
            "combination (incl. the empty keyword, dotted from_parser keywords, special-looking "
            "symbols, NaN/Inf/complex, bytes, empty sequences) and every form of the repository's own "
            "Hy files. Exploration: held on the models run, nothing beyond.",
    "note": "Trusted: the model constructors used to assemble the inputs and CPython's eval of the "
            "compiled constructor calls. Bounds: nesting <= 5, strings <= 10 chars.",
    "technique": "runtime monitoring: evaluate (quote m) and compare with m by deep typed equality "
                 "over generated, constructor-assembled and corpus models",
}

_state = {"mod": None, "events": 0, "patched": False}


def _mod():
    if _state["mod"] is None:
        _state["mod"] = types.ModuleType("hv_c30_eval")
    return _state["mod"]


def setup_worker(tier, seed):
    """Secondary monitor: count render_quoted_form entries (skipped if it moved)."""
    try:
        import hy.core.result_macros as R
        orig = R.render_quoted_form

        def counting(compiler, form, level):
            _state["events"] += 1
            return orig(compiler, form, level)
        R.render_quoted_form = counting
        _state["patched"] = True
    except Exception:
        _state["patched"] = False


def _sprinkle(rng, ir, p=0.15):
    """Replace some leaves by parts only constructors can make."""
    def f(j):
        if "c" not in j and rng.random() < p:
            return G.hostile_any(rng)
        return j
    return G.map_ir(ir, f)


def cases(seed, tier, shard, nshards):
    corpus = G.corpus_iter(shard, nshards)
    i = 0
    # fixed part: every hostile part and every atom pool entry, alone and in each container
    fixed = []
    for v in G.SPECIAL_SYMS + G.PLAIN_SYMS:
        fixed.append(G.sym(v))
    for v in G.KW_NAMES + ["a.b", ".", ".x"]:
        fixed.append({"t": "Kw", "v": v})
    for v in G.FLOATS:
        fixed.append({"t": "Float", "v": v})
    for v in G.COMPLEXES:
        fixed.append({"t": "Complex", "v": v})
    for v in G.BYTES:
        fixed.append({"t": "Bytes", "v": v})
    for b in [None] + G.DELIMS + G.FDELIMS:
        fixed.append({"t": "Str", "v": "s", "b": b})
        for ts in (False, True):
            fixed.append({"t": "FStr", "c": [], "b": b, "ts": ts})
            for conv in (None, "r", "s", "a", "z", ""):
                for ex in (None, "", "x y"):
                    fixed.append({"t": "FStr", "b": b, "ts": ts, "c": [
                        {"t": "Str", "v": "t", "b": None},
                        {"t": "FComp", "conv": conv, "expr": ex, "ts": ts, "c": [
                            G.sym("x"), {"t": "Str", "v": ">", "b": None},
                            {"t": "FComp", "conv": conv, "expr": ex, "ts": not ts, "c": [G.sym("w")]}]}]})
    for t in G.SEQ:
        fixed.append({"t": t, "c": []})
    for n, ir in enumerate(fixed):
        if n % nshards == shard:
            yield {"kind": "ir", "prof": "fixed", "m": ir}
            yield {"kind": "ir", "prof": "fixed", "m": G.expr(G.sym("f"), {"t": "List", "c": [ir]}, ir)}
    while True:
        rng = rng_for(seed, ID, shard, i)
        k = i % 6
        i += 1
        focus = G.FOCI[(i // 6) % len(G.FOCI)]
        if k == 0:
            item = next(corpus, None)
            if item is not None:
                yield {"kind": "corpus", "src": item[0], "m": item[1]}
            continue
        depth = rng.choice([1, 2, 3, 3, 4 if tier == "quick" else 5])
        if k == 1:
            try:
                yield {"kind": "text", "text": G.to_text(G.gen_ir(rng, min(depth, 3), "readable", focus), rng)}
            except G.Unprintable:
                pass
        elif k == 2:
            yield {"kind": "ir", "prof": "readable", "m": G.gen_ir(rng, depth, "readable", focus)}
        else:
            ir = G.gen_ir(rng, depth, "any", focus)
            yield {"kind": "ir", "prof": "any", "m": _sprinkle(rng, ir)}


ATTR_FEATS = {"attr:brackets", "attr:conversion", "attr:expression", "attr:tstring"}
CLASS_FEATS = ("fstring", "tstring", "bracket-string", "sugar", "fspec", "multi-spec", "nested-spec",
               "empty-seq", "odd-dict", "kw-empty", "special-symbol", "nan-inf", "fcomp-outside-fstring")


def quote_of(m):
    import hy
    import hy.models as M
    return hy.eval(M.Expression([M.Symbol("quote"), m]), module=_mod())


def run_case(case):
    import hy
    kind = case["kind"]
    ev0 = _state["events"]
    if kind == "text":
        try:
            m = hy.read(case["text"])
            ir = G.enc(m)
        except Exception:
            return {"ok": None, "classes": ["skip:generated-text-unreadable"]}
    else:
        ir = case["m"]
        try:
            m = G.dec(ir)
        except ValueError:
            # the constructor itself refuses this combination (e.g. "]x]" inside brackets "x")
            return {"ok": None, "classes": ["skip:constructor-refused"]}
    feats = G.features(ir)
    types_ = {f for f in feats if f.startswith("T:")}
    classes = ["kind:" + kind + (":" + case["prof"] if "prof" in case else "")] + sorted(
        f for f in feats if f.startswith(("T:", "attr:")) or f in CLASS_FEATS)
    classes.append("depth:%d" % min(G.ir_depth(ir), 7))
    res = {"ok": True, "nontrivial": len(types_) >= 3 or bool(feats & ATTR_FEATS), "classes": classes,
           "sample": {"kind": kind, "model": repr(m)[:300].replace("\n", " "), "src": case.get("src")}}
    try:
        got = quote_of(m)
    except Exception as e:
        res.update(ok=False, why=f"(quote m) raised {type(e).__name__}: {str(e)[:600]}")
    else:
        d = same_model(m, got, attrs=MODEL_ATTRS)
        if d:
            res.update(ok=False, why=f"(quote m) differs from m at {d}")
    if not _state["patched"]:
        _state["events"] += 1
    res["events"] = _state["events"] - ev0
    return res


def finish_worker():
    return {"render_quoted_form_counter_attached": bool(_state["patched"])}
