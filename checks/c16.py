"""C16 — compile-time staging: eval-when-compile / eval-and-compile / do-mac.

Every staging body logs through `STAGE`, a logger the child driver installs in
`builtins` before importing the generated module; it appends "<phase> <id>" to a
scratch file, <phase> coming from an environment variable the harness sets per
process (p1 = import from source, p2 = import from the cached byte-code).  The
module's first run-time form logs a marker, so process 1's log splits into its
compile-time part (before the marker) and its run-time part.

Oracle (counting): the expected multiset of ids per phase is computed from the
IR by a small compositional reference (compile = evaluate the staging bodies,
evaluate = compile then run).  Run-time multisets (process 1 after the marker,
process 2) are exact.  Compile-time counts are exact for every staging form
that is not nested inside an `eval-and-compile`; under an `eval-and-compile`
the docs do not say whether its body is compiled once or twice, so the count
must lie between the two readings.  Process 2 must log nothing before the
marker.  Values (`eval-when-compile` -> None, `eval-and-compile` -> last form,
`do-mac` -> value of the result code) are compared at run time in both processes.
The byte-code path is positively detected as in C15.
"""
import json
import os
from collections import Counter

from hv.common import rng_for
from hv.proc import CaseDir, compiled_paths, python

ID = "C16"
LEVEL = "exploration"
RULE = ("generated modules with eval-when-compile / eval-and-compile / do-mac forms at top level, in `do`, as "
        "assigned values, in list literals, inside functions called 0-3 times and inside one another (depth <= 3), "
        "do-mac results that are themselves staging forms; imported from source then from the byte-code cache. "
        "Three modules share one pair of child processes (each module is one evaluation). "
        "Non-trivial = >= 2 staging forms, at least one of them inside a function, byte-code path detected; "
        "distinct by module text.")
FLOOR = {"quick": 150, "thorough": 150}
BUDGET = {"quick": 35, "thorough": 420}
CASE_TIMEOUT = 120
NEEDS_EVENTS = True     # events = STAGE log lines read back
ANCHORS = []   # the mechanisms run in child processes; in-process line probes cannot see them.
               # Reach is shown instead by what the children report (Compiling <path>, sys.argv, STAGE log).
ASSUMPTIONS = [
    "CPython's .pyc machinery; HY_MESSAGE_WHEN_COMPILING reports exactly the files compiled from source",
    "the importer compiles the whole module before executing it (so a run-time marker splits process 1's log)",
    "evaluation order inside list literals is not constrained (multisets, not sequences, are compared)",
]
MANIFEST = {
    "text": "Generated modules whose eval-when-compile / eval-and-compile / do-mac bodies log (id, phase) to a scratch file through a builtins-installed logger are imported in a fresh process from source and again from the cached byte-code; the multiset of executed ids per phase (compile, run, cached run) is compared with the multiset a compositional reference computes from the IR and the call counts, and the run-time values of the forms with None / last form / value of the result code. Exploration: held on the modules run, nothing beyond.",
    "note": "Trusted: CPython pyc machinery; the 60-line reference (compile = evaluate staging bodies; evaluate = compile then run). Under eval-and-compile the compile-time count is only bounded (body compiled once or twice is unspecified). Bounds: nesting <= 3, <= 3 calls per function.",
    "technique": "runtime monitoring: builtins-installed effect logger with per-process phase, counting oracle from the IR, source run then cached run with positive byte-code-path detection",
}

MARK = 0


# ---------------------------------------------------------------------------
# IR

def n_log(ctr, rng):
    # ids of the j-th module of a batch start at j*1000 (far fewer than 1000 logging sites each)
    ctr[0] += 1
    return {"k": "log", "id": ctr[0], "v": rng.choice([None, ctr[0] * 10, ctr[0] * 10 + 1])}


def gen_stage(rng, ctr, depth, kinds=("ewc", "eac", "dm")):
    k = rng.choice(kinds)
    if rng.random() < 0.04:
        return {"k": k, "body": [], "res": None} if k == "dm" else {"k": k, "body": []}
    body = gen_body(rng, ctr, depth + 1)
    if k != "dm":
        return {"k": k, "body": body}
    r = rng.random()
    if r < 0.45:
        res = n_log(ctr, rng)
    elif r < 0.6:
        res = {"k": "lit", "v": rng.choice([None, 7, 42])}
    elif r < 0.75 or depth >= 2:
        res = {"k": "vec", "body": [n_log(ctr, rng), {"k": "lit", "v": 5}]}
    else:
        res = gen_stage(rng, ctr, depth + 1)
    return {"k": "dm", "body": body, "res": res, "q": rng.random() < 0.5}


def gen_body(rng, ctr, depth):
    out = []
    for _ in range(rng.randint(1, 3)):
        r = rng.random()
        if r < 0.6 or depth >= 3:
            out.append(n_log(ctr, rng))
        elif r < 0.7:
            out.append({"k": "lit", "v": rng.randint(1, 9)})
        elif r < 0.78:
            out.append({"k": "do", "body": gen_body(rng, ctr, depth + 1)})
        else:
            out.append(gen_stage(rng, ctr, depth))
    return out


def gen_expr(rng, ctr, depth=0):
    r = rng.random()
    if r < 0.7:
        return gen_stage(rng, ctr, depth)
    if r < 0.85:
        return {"k": "vec", "body": [gen_stage(rng, ctr, depth + 1), n_log(ctr, rng),
                                     gen_stage(rng, ctr, depth + 1)][:rng.randint(2, 3)]}
    return {"k": "do", "body": [n_log(ctr, rng), gen_stage(rng, ctr, depth + 1)]}


def gen_module(rng, tier, ctr=None):
    ctr = ctr if ctr is not None else [0]
    top = []
    nv = 0
    nf = rng.choice([1, 1, 1, 2, 0])
    items = rng.randint(1, 4)
    plan = ["expr"] * items + ["defn"] * nf
    rng.shuffle(plan)
    for what in plan:
        if what == "expr":
            nv += 1
            e = gen_expr(rng, ctr)
            top.append({"k": "top", "var": f"r{nv}" if rng.random() < 0.7 else None, "node": e})
        else:
            name = f"f{len([t for t in top if t['k'] == 'defn']) + 1}"
            body = []
            for _ in range(rng.randint(1, 3)):
                body.append(gen_expr(rng, ctr, 1) if rng.random() < 0.8 else n_log(ctr, rng))
            top.append({"k": "defn", "name": name, "body": body})
            for _ in range(rng.choice([0, 1, 1, 2, 3])):
                nv += 1
                top.append({"k": "call", "name": name, "var": f"c{nv}"})
    return top


def render(n):
    k = n["k"]
    if k == "log":
        return f"(STAGE {n['id']} {hv(n['v'])})"
    if k == "lit":
        return hv(n["v"])
    if k == "do":
        return "(do " + " ".join(render(c) for c in n["body"]) + ")"
    if k == "vec":
        return "[" + " ".join(render(c) for c in n["body"]) + "]"
    if k == "ewc":
        return "(eval-when-compile " + " ".join(render(c) for c in n["body"]) + ")"
    if k == "eac":
        return "(eval-and-compile " + " ".join(render(c) for c in n["body"]) + ")"
    if k == "dm":
        parts = [render(c) for c in n["body"]]
        if n["res"] is not None:
            r = render(n["res"])
            if n["res"]["k"] == "lit" and not n.get("q"):
                parts.append(r)             # a plain value is promoted to code
            else:
                parts.append("'" + r)
        return "(do-mac " + " ".join(parts) + ")"
    if k == "top":
        r = render(n["node"])
        return f"(setv {n['var']} {r})" if n["var"] else r
    if k == "defn":
        return f"(defn {n['name']} []\n  " + "\n  ".join(render(c) for c in n["body"]) + ")"
    if k == "call":
        return f"(setv {n['var']} ({n['name']}))"
    raise ValueError(k)


def hv(v):
    return "None" if v is None else str(v)


def render_module(top, mark=MARK):
    return f"(STAGE {mark} None)\n" + "\n".join(render(t) for t in top) + "\n"


def count_stage(n, in_fn=False):
    """(number of staging forms, number of them inside a function)"""
    k = n["k"]
    tot = fn = 0
    if k in ("ewc", "eac", "dm"):
        tot += 1
        fn += in_fn
    kids = list(n.get("body", []))
    if k == "dm" and n.get("res"):
        kids.append(n["res"])
    if k == "top":
        kids = [n["node"]]
    for c in kids:
        a, b = count_stage(c, in_fn or k == "defn")
        tot += a
        fn += b
    return tot, fn


# ---------------------------------------------------------------------------
# reference: compile(node) -> (compile-time events, program); program() -> (events, value)

def comp(n, twice, funcs, env):
    k = n["k"]
    if k == "log":
        return Counter(), (lambda: (Counter({n["id"]: 1}), n["v"]))
    if k == "lit":
        return Counter(), (lambda: (Counter(), n["v"]))
    if k in ("do", "vec"):
        parts = [comp(c, twice, funcs, env) for c in n["body"]]
        cev = sum((p[0] for p in parts), Counter())

        def prog(parts=parts, k=k):
            ev, vals = Counter(), []
            for _, p in parts:
                e, v = p()
                ev += e
                vals.append(v)
            return ev, (vals if k == "vec" else (vals[-1] if vals else None))
        return cev, prog
    body = {"k": "do", "body": n.get("body", [])}
    if k == "ewc":
        c, p = comp(body, twice, funcs, env)
        e, _ = p()
        return c + e, (lambda: (Counter(), None))
    if k == "eac":
        c1, p1 = comp(body, twice, funcs, env)
        e, _ = p1()
        if twice:
            c2, p2 = comp(body, twice, funcs, env)
            return c1 + e + c2, p2
        return c1 + e, p1
    if k == "dm":
        c1, p1 = comp(body, twice, funcs, env)
        e, _ = p1()
        res = n["res"] if n["res"] is not None else {"k": "lit", "v": None}
        c2, p2 = comp(res, twice, funcs, env)
        return c1 + e + c2, p2
    if k == "top":
        c, p = comp(n["node"], twice, funcs, env)

        def prog(p=p, var=n["var"]):
            e, v = p()
            if var:
                env[var] = v
            return e, None
        return c, prog
    if k == "defn":
        c, p = comp({"k": "do", "body": n["body"]}, twice, funcs, env)
        funcs[n["name"]] = p
        return c, (lambda: (Counter(), None))
    if k == "call":
        def prog(name=n["name"], var=n["var"]):
            e, v = funcs[name]()
            env[var] = v
            return e, None
        return Counter(), prog
    raise ValueError(k)


def reference(top, twice):
    funcs, env = {}, {}
    c, p = comp({"k": "do", "body": top}, twice, funcs, env)
    e, _ = p()
    return c, e, env


# ---------------------------------------------------------------------------

BATCH = 3                 # modules per pair of child processes (each one is a sub-evaluation)
MODNAMES = ["stg_mod", "stage_m2", "m"]


def cases(seed, tier, shard, nshards):
    i = 0
    while True:
        mods = []
        while len(mods) < BATCH:
            rng = rng_for(seed, ID, shard, i)
            i += 1
            j = len(mods)
            ctr = [j * 1000]              # ids of module j are j*1000+1 ...; its marker is j*1000
            top = gen_module(rng, tier, ctr)
            tot, infn = count_stage({"k": "do", "body": top})
            if tot == 0:
                continue
            mods.append({"ir": top, "text": render_module(top, j * 1000), "nstage": tot, "infn": infn,
                         "modname": MODNAMES[j], "mark": j * 1000})
        yield {"mods": mods}


def case_key(case):
    return [m["text"] for m in case["mods"]]


DRIVER = r"""
import builtins, json, os, sys
LOG = os.environ["VERIF_STAGE_LOG"]
PHASE = os.environ["VERIF_STAGE_PHASE"]
def STAGE(i, v=None):
    with open(LOG, "a") as f:
        f.write("%s %s\n" % (PHASE, i))
    return v
builtins.STAGE = STAGE
sys.path.insert(0, sys.argv[1])
outs = {}
import importlib
import hy
for name in sys.argv[2:]:
    try:
        m = importlib.import_module(name)
        out = {"ok": True, "values": {k: v for k, v in vars(m).items()
                                      if k[0] in "rc" and k[1:].isdigit()}}
        json.dumps(out)
    except BaseException as e:
        import traceback
        out = {"ok": False, "error": [type(e).__name__, str(e)[:400]], "tb": traceback.format_exc()[-1500:]}
    outs[name] = out
sys.stdout.write("@@DUMP@@" + json.dumps(outs, default=repr) + "\n")
"""


def parse_dump(out):
    for line in out.splitlines():
        if line.startswith("@@DUMP@@"):
            try:
                return json.loads(line[len("@@DUMP@@"):])
            except ValueError:
                return None
    return None


def fmt(c):
    return "{" + ", ".join(f"{k}:{c[k]}" for k in sorted(c)) + "}"


def classes_of(mod):
    top = mod["ir"]
    classes = ["n%d" % min(mod["nstage"], 8)]
    kinds = set()

    def walk(n, under):
        k = n["k"]
        if k in ("ewc", "eac", "dm"):
            kinds.add(k)
            if under:
                kinds.add(f"{k}-in-{under}")
        kids = list(n.get("body", []))
        if k == "dm" and n.get("res"):
            if n["res"]["k"] in ("ewc", "eac", "dm"):
                kinds.add("dm-result-is-staging")
            kids.append(n["res"])
        if k == "top":
            kids = [n["node"]]
        for c in kids:
            walk(c, k if k in ("ewc", "eac", "dm", "defn") else under)
    for t in top:
        walk(t, None)
    classes += sorted(kinds)
    ncalls = Counter(t["name"] for t in top if t["k"] == "call")
    for t in top:
        if t["k"] == "defn":
            classes.append("calls:%d" % ncalls[t["name"]])
    return classes


def judge(mod, path, events, dumps, comp):
    """One module of the batch -> (ok True/False/None, why, extra class)."""
    top, mark, text = mod["ir"], mod["mark"], mod["text"]
    hi_c, run_e, env_hi = reference(top, True)
    lo_c, run_lo, env_lo = reference(top, False)
    assert run_e == run_lo and env_hi == env_lo
    d1, d2 = dumps[0].get(mod["modname"]), dumps[1].get(mod["modname"])
    if d1 is None or d2 is None:
        return False, "module missing from a child's dump", None
    if not d1["ok"]:
        return False, (f"importing the module from source failed: {d1['error']}\n"
                       f"{d1.get('tb', '')[-600:]}\n{text}"), None
    if path not in comp[0] or path in comp[1]:
        return None, f"compiled p1={comp[0]} p2={comp[1]}", "inconclusive:bytecode-path-not-detected"
    if not d2["ok"]:
        return False, f"import from cached byte-code failed: {d2['error']}\n{text}", "bytecode-path-detected"
    mine = lambda evs: [i for i in evs if mark <= i < mark + 1000]
    e1, e2 = mine(events["p1"]), mine(events["p2"])
    for name, e in (("source", e1), ("cached", e2)):
        if e.count(mark) != 1:
            return False, f"{name} run: run-time marker logged {e.count(mark)} times: {e}\n{text}", "bytecode-path-detected"
    cut, cut2 = e1.index(mark), e2.index(mark)
    c1, r1 = Counter(e1[:cut]), Counter(e1[cut + 1:])
    c2, r2 = Counter(e2[:cut2]), Counter(e2[cut2 + 1:])

    def where(i):
        return f"(STAGE {i} …) in\n{text}"
    tag = "bytecode-path-detected"
    for i in sorted(set(hi_c) | set(c1)):
        if not (lo_c[i] <= c1[i] <= hi_c[i]):
            want = str(hi_c[i]) if lo_c[i] == hi_c[i] else f"{lo_c[i]}..{hi_c[i]}"
            return False, (f"compile time (source import): id {i} executed {c1[i]}x, expected {want}; "
                           f"observed {fmt(c1)} expected {fmt(hi_c)} {where(i)}"), tag
    if r1 != run_e:
        i = sorted(k for k in set(r1) | set(run_e) if r1[k] != run_e[k])[0]
        return False, (f"run time (source import): id {i} executed {r1[i]}x, expected {run_e[i]}; "
                       f"observed {fmt(r1)} expected {fmt(run_e)} {where(i)}"), tag
    if c2:
        return False, (f"cached run executed compile-time code: {fmt(c2)} before the module "
                       f"started running\n{text}"), tag
    if r2 != run_e:
        i = sorted(k for k in set(r2) | set(run_e) if r2[k] != run_e[k])[0]
        return False, (f"run time (cached import): id {i} executed {r2[i]}x, expected {run_e[i]}; "
                       f"observed {fmt(r2)} expected {fmt(run_e)} {where(i)}"), tag
    for k, d in enumerate((d1, d2)):
        got = d["values"]
        for var, want in env_hi.items():
            if var not in got:
                return False, f"process {k + 1}: {var} not set; expected {want!r}\n{text}", tag
            if got[var] != want or type(got[var]) is not type(want):
                return False, f"process {k + 1}: {var} = {got[var]!r}, expected {want!r}\n{text}", tag
    return True, None, tag


def run_case(case):
    mods = case["mods"]
    res = {"ok": True, "nontrivial": False, "classes": [], "events": 0, "n": 0, "nt_keys": [],
           "sample": {"text": mods[0]["text"]}}
    with CaseDir("c16") as cd:
        src = os.path.join(cd.path, "src")
        paths = [cd.write(os.path.join("src", m["modname"] + ".hy"), m["text"]) for m in mods]
        drv = cd.write("_drv.py", DRIVER)
        log = os.path.join(cd.path, "stage.log")
        runs = []
        for phase in ("p1", "p2"):
            env = cd.env({"VERIF_STAGE_LOG": log, "VERIF_STAGE_PHASE": phase})
            r = cd.run([python(), drv, src] + [m["modname"] for m in mods], env=env, timeout=60)
            if r["rc"] is None:
                res.update(ok=None, classes=["inconclusive:child-timeout"])
                return res
            runs.append(r)
        try:
            with open(log) as f:
                lines = f.read().split("\n")
        except FileNotFoundError:
            lines = []
    events = {"p1": [], "p2": []}
    for ln in lines:
        if ln:
            ph, i = ln.split(" ", 1)
            events[ph].append(int(i))
    res["events"] = len(events["p1"]) + len(events["p2"])
    dumps = [parse_dump(r["out"]) for r in runs]
    if any(d is None for d in dumps):
        k = [d is None for d in dumps].index(True)
        res.update(ok=False, n=1, why=f"process {k + 1} produced no dump: rc={runs[k]['rc']} "
                   f"stderr={runs[k]['err'][-400:]}")
        return res
    comp = [compiled_paths(r["err"]) for r in runs]
    whys = []
    for m, path in zip(mods, paths):
        ok, why, tag = judge(m, path, events, dumps, comp)
        res["classes"] += classes_of(m) + ([tag] if tag else [])
        if ok is None:
            continue
        res["n"] += 1
        if tag == "bytecode-path-detected" and m["nstage"] >= 2 and m["infn"] >= 1:
            res["nt_keys"].append(m["text"])
        if ok is False:
            whys.append(why)
    if res["n"] == 0:
        res["ok"] = None
        return res
    res["nontrivial"] = bool(res["nt_keys"])
    if whys:
        res.update(ok=False, why=whys[0])
    return res


def gate(tot, classes, extra, tier):
    if not classes.get("bytecode-path-detected"):
        return "bytecode-path-never-detected"
    n = sum(v for k, v in classes.items() if k.startswith("n") and k[1:].isdigit())
    if classes.get("inconclusive:bytecode-path-not-detected", 0) > 0.2 * max(n, 1):
        return "bytecode-path-not-detected-in-%d-modules" % classes["inconclusive:bytecode-path-not-detected"]
    return None
