"""C16 — compile-time staging: eval-when-compile / eval-and-compile / do-mac.

Every staging body logs through `STAGE`, a logger the child driver installs in
`builtins` before importing the generated module; it appends "<phase> <id>" to a
scratch file, <phase> coming from an environment variable the harness sets per
process (p1 = import from source, p2 = import from the cached byte-code).  The
module's first run-time form logs a marker, so process 1's log splits into its
compile-time part (before the marker) and its run-time part.

Oracle (counting): the expected multiset of ids per phase is computed from the
IR by a small compositional reference (compile = evaluate the staging bodies,
evaluate = compile then run).  Run-time multisets (process 1 after the marker,
process 2) are exact.  Compile-time counts are exact for every staging form
that is not nested inside an `eval-and-compile`; under an `eval-and-compile`
the docs do not say whether its body is compiled once or twice, so the count
must lie between the two readings.  Process 2 must log nothing before the
marker.  Values (`eval-when-compile` -> None, `eval-and-compile` -> last form,
`do-mac` -> value of the result code) are compared at run time in both processes.
The byte-code path is positively detected as in C15.

Staging forms are also nested in the sub-form slots of other core forms ("hosts":
`with` with 1-3 managers incl. statement-producing manager expressions, `try` /
`except` / `else` / `finally`, `if` / `when` / `cond`, `let`, `for` / `while`,
`lfor` / `gfor` in both compilation strategies, `match`, `defclass` bodies,
decorators / parameter defaults / bodies of `defn`), and hosts inside staging
bodies: a host that compiles a slot twice breaks the "once at compile time" count.
The reference compiles every slot exactly once and runs it as often as the host's
documented semantics say.

Second history shape (every 4th case): the module is a script run twice with the
real `hy FILE` (logger installed through a sitecustomize.py on PYTHONPATH).
docs/semantics.rst "When bytecode is regenerated" promises that the first direct
execution writes byte-code and that the unchanged file is then loaded from it; so
a second run that recompiles the script *and* re-runs compile-time code is a
violation (a second run that recompiles without observable compile-time effects
is merely inconclusive).
"""
import ast
import json
import os
from collections import Counter

from hv.common import rng_for
from hv.proc import CaseDir, child_problem, compiled_paths, hy_script, python, skip_gate

ID = "C16"
LEVEL = "exploration"
RULE = ("generated modules with eval-when-compile / eval-and-compile / do-mac forms at top level, in `do`, as "
        "assigned values, in list literals, inside functions called 0-3 times and inside one another (depth <= 3), "
        "do-mac results that are themselves staging forms, and nested in the slots of host forms (with 1-3 managers, "
        "try/except/else/finally, if/when/cond, let, for/while, lfor/gfor both strategies, match, defclass, defn "
        "decorators/defaults/bodies); imported from source then from the byte-code cache, or (every 4th case) run "
        "twice as a script with `hy FILE`. "
        "Values: literals of every kind incl. each falsy one (0, 0.0, 0j, \"\", b\"\", False, [], {}, #(), None) as do-mac results "
        "(quoted and unquoted) and as last forms, used as assigned value / argument / keyword argument / `if` test / "
        "function result / list element, compared as typed tokens in both processes. "
        "Three modules share one pair of child processes (each module is one evaluation). "
        "Non-trivial = >= 2 staging forms, at least one of them inside a function, byte-code path detected; "
        "distinct by module text.")
FLOOR = {"quick": 40, "thorough": 150}
BUDGET = {"quick": 35, "thorough": 420}
CASE_TIMEOUT = 120      # > 2 children x 50 s
NEEDS_EVENTS = True     # events = STAGE log lines read back
ANCHORS = []   # the mechanisms run in child processes; in-process line probes cannot see them.
               # Reach is shown instead by what the children report (Compiling <path>, sys.argv, STAGE log).
ASSUMPTIONS = [
    "CPython's .pyc machinery; HY_MESSAGE_WHEN_COMPILING reports exactly the files compiled from source",
    "the importer compiles the whole module before executing it (so a run-time marker splits process 1's log)",
    "evaluation order inside list literals is not constrained (multisets, not sequences, are compared)",
]
MANIFEST = {
    "text": "Generated modules whose eval-when-compile / eval-and-compile / do-mac bodies log (id, phase) to a scratch file through a builtins-installed logger (at top level, in functions, inside one another and inside the sub-form slots of with/try/if/cond/let/for/while/comprehensions/match/defclass/defn) are imported in a fresh process from source and again from the cached byte-code, or run twice as a script with hy FILE; the multiset of executed ids per phase (compile, run, cached run) is compared with the multiset a compositional reference computes from the IR and the call counts, and the run-time values of the forms with None / last form / value of the result code. Exploration: held on the modules run, nothing beyond.",
    "note": "Trusted: CPython pyc machinery; the 60-line reference (compile = evaluate staging bodies; evaluate = compile then run). Under eval-and-compile the compile-time count is only bounded (body compiled once or twice is unspecified). Bounds: nesting <= 3, <= 3 calls per function.",
    "technique": "runtime monitoring: builtins-installed effect logger with per-process phase, counting oracle from the IR, source run then cached run with positive byte-code-path detection",
}

MARK = 0


# ---------------------------------------------------------------------------
# IR

# Literals of every kind (Hy text, Python literal text), the falsy one of each kind included.
LITS = [("None", "None"), ("0", "0"), ("7", "7"), ("42", "42"), ("0.0", "0.0"), ("2.5", "2.5"),
        ('""', "''"), ('"s"', "'s'"), ("False", "False"), ("True", "True"), ('b""', "b''"),
        ('b"x"', "b'x'"), ("[]", "[]"), ("[0]", "[0]"), ("{}", "{}"), ('{"a" 1}', "{'a': 1}"),
        ("#()", "()"), ("#(1 2)", "(1, 2)"), ("0j", "0j"), ("-1", "-1")]
FALSY = [l for l in LITS if not ast.literal_eval(l[1])]


def n_lit(rng):
    t, py = rng.choice(FALSY if rng.random() < 0.5 else LITS)
    return {"k": "lit", "t": t, "py": py}


def lit_value(n):
    return ast.literal_eval(n["py"]) if "py" in n else n["v"]


def tok(v):
    """Typed token of a value; the children compute the same (TOK_SRC)."""
    if isinstance(v, (bool, int, float, str, bytes, type(None), complex)):
        return [type(v).__name__, repr(v)]
    if isinstance(v, (list, tuple)):
        return [type(v).__name__, [tok(x) for x in v]]
    if isinstance(v, dict):
        return ["dict", [[tok(k), tok(x)] for k, x in v.items()]]
    if isinstance(v, (set, frozenset)):
        return [type(v).__name__, sorted(repr(x) for x in v)]
    return ["object", type(v).__name__]


TOK_SRC = r"""
def tok(v):
    if isinstance(v, (bool, int, float, str, bytes, type(None), complex)):
        return [type(v).__name__, repr(v)]
    if isinstance(v, (list, tuple)):
        return [type(v).__name__, [tok(x) for x in v]]
    if isinstance(v, dict):
        return ["dict", [[tok(k), tok(x)] for k, x in v.items()]]
    if isinstance(v, (set, frozenset)):
        return [type(v).__name__, sorted(repr(x) for x in v)]
    return ["object", type(v).__name__]
"""


def n_log(ctr, rng):
    # ids of the j-th module of a batch start at j*1000 (far fewer than 1000 logging sites each)
    ctr[0] += 1
    return {"k": "log", "id": ctr[0], "v": rng.choice([None, 0, ctr[0] * 10, ctr[0] * 10 + 1])}


def gen_stage(rng, ctr, depth, kinds=("ewc", "eac", "dm")):
    k = rng.choice(kinds)
    if rng.random() < 0.04:
        return {"k": k, "body": [], "res": None} if k == "dm" else {"k": k, "body": []}
    body = gen_body(rng, ctr, depth + 1)
    if k != "dm":
        if rng.random() < 0.3:
            body.append(n_lit(rng))       # the value of eval-and-compile; ignored by eval-when-compile
        return {"k": k, "body": body}
    r = rng.random()
    if r < 0.35:
        res = n_log(ctr, rng)
    elif r < 0.62:
        res = n_lit(rng)
    elif r < 0.75 or depth >= 2:
        res = {"k": "vec", "body": [n_log(ctr, rng), {"k": "lit", "v": 5}]}
    else:
        res = gen_stage(rng, ctr, depth + 1)
    return {"k": "dm", "body": body, "res": res, "q": rng.random() < 0.5}


HOSTS = ["with", "with", "with", "try", "if", "when", "cond", "let", "for", "while", "lfor", "lfor",
         "match", "defclass", "defn"]


def gen_part(rng, ctr, depth, force_stage=False):
    """Body of a host slot: a few nodes, usually with a staging form among them."""
    out = []
    if rng.random() < 0.4:
        out.append(n_log(ctr, rng))
    if force_stage or rng.random() < 0.6:
        out.append(gen_stage(rng, ctr, depth))
    if not out or rng.random() < 0.3:
        out.append(n_log(ctr, rng))
    return out


def gen_host(rng, ctr, depth):
    """A core form hosting staging forms in its sub-form slots.  Every host is
    self-contained (refers only to names it binds itself and to builtins), so it
    can also sit inside a staging body that is evaluated at compile time."""
    h = rng.choice(HOSTS)
    ctr[0] += 1
    n = {"k": "host", "h": h, "id": ctr[0], "parts": {}}
    d = depth + 1
    P = n["parts"]
    if h == "with":
        n["n"] = rng.choice([1, 2, 2, 3, 3])
        n["anon"] = [rng.random() < 0.4 for _ in range(n["n"])]
        n["stmt"] = rng.randrange(n["n"]) if rng.random() < 0.5 else None   # statement-producing manager
        if rng.random() < 0.35:
            n["mgr_at"] = rng.randrange(n["n"])
            P["mgr"] = gen_part(rng, ctr, d)
        P["body"] = gen_part(rng, ctr, d, True)
    elif h == "try":
        n["raises"] = rng.random() < 0.4
        P["body"] = gen_part(rng, ctr, d)
        P["handler"] = gen_part(rng, ctr, d)
        if rng.random() < 0.5:
            P["else"] = gen_part(rng, ctr, d)
        if rng.random() < 0.6:
            P["finally"] = gen_part(rng, ctr, d)
    elif h in ("if", "when"):
        P["cond"] = [rng.choice([n_log(ctr, rng), {"k": "lit", "v": rng.choice([None, 1])}])]
        if rng.random() < 0.3:
            P["cond"] = [gen_stage(rng, ctr, d)]
        P["then"] = gen_part(rng, ctr, d)
        if h == "if":
            P["else"] = gen_part(rng, ctr, d)
    elif h == "cond":
        P["c1"] = [rng.choice([n_log(ctr, rng), {"k": "lit", "v": rng.choice([None, 1])}])]
        P["b1"] = gen_part(rng, ctr, d)
        P["c2"] = [rng.choice([n_log(ctr, rng), {"k": "lit", "v": rng.choice([None, 1])}])]
        P["b2"] = gen_part(rng, ctr, d)
        P["b3"] = gen_part(rng, ctr, d)
    elif h == "let":
        P["init"] = gen_part(rng, ctr, d)
        P["body"] = gen_part(rng, ctr, d)
    elif h in ("for", "while"):
        n["n"] = rng.choice([0, 1, 2, 3])
        P["body"] = gen_part(rng, ctr, d, True)
    elif h == "lfor":
        n["n"] = rng.choice([0, 1, 2])
        n["form"] = rng.choice(["lfor", "lfor-do", "gfor", "lfor-if"])
        P["body"] = gen_part(rng, ctr, d, True)
    elif h == "match":
        n["subj"] = rng.choice([1, 2, 3])
        for b in ("b1", "b2", "b3"):
            P[b] = gen_part(rng, ctr, d)
    elif h == "defclass":
        P["body"] = gen_part(rng, ctr, d, True)
    elif h == "defn":
        n["calls"] = rng.choice([0, 1, 2])
        P["deco"] = gen_part(rng, ctr, d)
        P["default"] = gen_part(rng, ctr, d)
        P["fbody"] = gen_part(rng, ctr, d)
    return n


def gen_body(rng, ctr, depth):
    out = []
    for _ in range(rng.randint(1, 3)):
        r = rng.random()
        if r < 0.55 or depth >= 3:
            out.append(n_log(ctr, rng))
        elif r < 0.63:
            out.append(n_lit(rng))
        elif r < 0.70:
            out.append({"k": "do", "body": gen_body(rng, ctr, depth + 1)})
        elif r < 0.80 and depth <= 1:
            out.append(gen_host(rng, ctr, depth + 1))
        else:
            out.append(gen_stage(rng, ctr, depth))
    return out


def gen_expr(rng, ctr, depth=0):
    r = rng.random()
    if r < 0.4:
        return gen_host(rng, ctr, depth)
    if r < 0.7:
        return gen_stage(rng, ctr, depth)
    if r < 0.85:
        return {"k": "vec", "body": [gen_stage(rng, ctr, depth + 1), n_log(ctr, rng),
                                     gen_stage(rng, ctr, depth + 1)][:rng.randint(2, 3)]}
    return {"k": "do", "body": [n_log(ctr, rng), gen_stage(rng, ctr, depth + 1)]}


def gen_module(rng, tier, ctr=None):
    ctr = ctr if ctr is not None else [0]
    top = []
    nv = 0
    nf = rng.choice([1, 1, 1, 2, 0])
    items = rng.randint(1, 4)
    plan = ["expr"] * items + ["defn"] * nf
    rng.shuffle(plan)
    for what in plan:
        if what == "expr":
            nv += 1
            e = gen_expr(rng, ctr)
            var = f"r{nv}" if rng.random() < 0.8 else None
            use = rng.choice(["setv", "setv", "arg", "iftest", "kwarg"]) if var else "setv"
            top.append({"k": "top", "var": var, "node": e, "use": use})
        else:
            name = f"f{len([t for t in top if t['k'] == 'defn']) + 1}"
            body = []
            for _ in range(rng.randint(1, 3)):
                body.append(gen_expr(rng, ctr, 1) if rng.random() < 0.8 else n_log(ctr, rng))
            top.append({"k": "defn", "name": name, "body": body})
            for _ in range(rng.choice([0, 1, 1, 2, 3])):
                nv += 1
                top.append({"k": "call", "name": name, "var": f"c{nv}"})
    return top


def render(n):
    k = n["k"]
    if k == "log":
        return f"(STAGE {n['id']} {hv(n['v'])})"
    if k == "lit":
        return n["t"] if "t" in n else hv(n["v"])
    if k == "do":
        return "(do " + " ".join(render(c) for c in n["body"]) + ")"
    if k == "vec":
        return "[" + " ".join(render(c) for c in n["body"]) + "]"
    if k == "ewc":
        return "(eval-when-compile " + " ".join(render(c) for c in n["body"]) + ")"
    if k == "eac":
        return "(eval-and-compile " + " ".join(render(c) for c in n["body"]) + ")"
    if k == "dm":
        parts = [render(c) for c in n["body"]]
        if n["res"] is not None:
            r = render(n["res"])
            if n["res"]["k"] == "lit" and not n.get("q"):
                parts.append(r)             # a plain value is promoted to code
            else:
                parts.append("'" + r)
        return "(do-mac " + " ".join(parts) + ")"
    if k == "host":
        return render_host(n)
    if k == "top":
        r = render(n["node"])
        use = n.get("use", "setv")
        if use == "arg":
            r = f"(IDENT {r})"
        elif use == "kwarg":
            r = f"(IDENT :x {r})"
        elif use == "iftest":
            r = f'(if {r} "T" "F")'
        return f"(setv {n['var']} {r})" if n["var"] else r
    if k == "defn":
        return f"(defn {n['name']} []\n  " + "\n  ".join(render(c) for c in n["body"]) + ")"
    if k == "call":
        return f"(setv {n['var']} ({n['name']}))"
    raise ValueError(k)


def rs(nodes):
    return " ".join(render(c) for c in nodes)


def render_host(n):
    h, i, P = n["h"], n["id"], n["parts"]
    if h == "with":
        ms = []
        for j in range(n["n"]):
            e = "(CM)"
            if n.get("mgr_at") == j and "mgr" in P:
                e = f"(do {rs(P['mgr'])} (CM))"
            elif n.get("stmt") == j:
                e = f"(do (setv t{i} {j}) (CM))"
            ms.append((("_" if n["anon"][j] else f"w{i}_{j}"), e))
        if n["n"] == 1 and n["anon"][0]:
            mgrs = ms[0][1]
        else:
            mgrs = "  ".join(f"{v} {e}" for v, e in ms)
        return f"(with [{mgrs}] {rs(P['body'])})"
    if h == "try":
        out = f"(try {rs(P['body'])}"
        if n["raises"]:
            out += ' (raise (ValueError "r"))'
        out += f" (except [ValueError] {rs(P['handler'])})"
        if "else" in P:
            out += f" (else {rs(P['else'])})"
        if "finally" in P:
            out += f" (finally {rs(P['finally'])})"
        return out + ")"
    if h == "if":
        return f"(if {rs(P['cond'])} (do {rs(P['then'])}) (do {rs(P['else'])}))"
    if h == "when":
        return f"(when {rs(P['cond'])} {rs(P['then'])})"
    if h == "cond":
        return (f"(cond {rs(P['c1'])} (do {rs(P['b1'])}) {rs(P['c2'])} (do {rs(P['b2'])}) "
                f"True (do {rs(P['b3'])}))")
    if h == "let":
        return f"(let [l{i} (do {rs(P['init'])})] {rs(P['body'])})"
    if h == "for":
        return f"(do (for [i{i} (range {n['n']})] {rs(P['body'])}) None)"
    if h == "while":
        return (f"(do (setv w{i} 0) (while (< w{i} {n['n']}) {rs(P['body'])} "
                f"(setv w{i} (+ w{i} 1))) None)")
    if h == "lfor":
        b = f"(do {rs(P['body'])})"
        f = n["form"]
        if f == "lfor":
            return f"(lfor i{i} (range {n['n']}) {b})"
        if f == "lfor-do":
            return f"(lfor i{i} (range {n['n']}) :do (setv z{i} i{i}) {b})"
        if f == "lfor-if":
            return f"(lfor i{i} (range {n['n']}) :if True {b})"
        return f"(list (gfor i{i} (range {n['n']}) {b}))"
    if h == "match":
        return (f"(match {n['subj']} 1 (do {rs(P['b1'])}) 2 (do {rs(P['b2'])}) "
                f"_ (do {rs(P['b3'])}))")
    if h == "defclass":
        return f"(do (defclass K{i} [] {rs(P['body'])}) None)"
    if h == "defn":
        calls = " ".join(f"(g{i})" for _ in range(n["calls"]))
        return (f"(do (defn [(do {rs(P['deco'])} IDENT)] g{i} [[x{i} (do {rs(P['default'])} 5)]] "
                f"{rs(P['fbody'])} x{i}) {calls} None)")
    raise ValueError(h)


def children(n):
    k = n["k"]
    if k == "host":
        return [c for part in n["parts"].values() for c in part]
    if k == "top":
        return [n["node"]]
    kids = list(n.get("body", []))
    if k == "dm" and n.get("res"):
        kids.append(n["res"])
    return kids


def hv(v):
    return "None" if v is None else str(v)


def render_module(top, mark=MARK):
    return f"(STAGE {mark} None)\n" + "\n".join(render(t) for t in top) + "\n"


def count_stage(n, in_fn=False):
    """(number of staging forms, number of them inside a function)"""
    k = n["k"]
    tot = fn = 0
    if k in ("ewc", "eac", "dm"):
        tot += 1
        fn += in_fn
    for c in children(n):
        a, b = count_stage(c, in_fn or k == "defn" or (k == "host" and n["h"] == "defn"))
        tot += a
        fn += b
    return tot, fn


# ---------------------------------------------------------------------------
# reference: compile(node) -> (compile-time events, program); program() -> (events, value)

def comp(n, twice, funcs, env):
    k = n["k"]
    if k == "log":
        return Counter(), (lambda: (Counter({n["id"]: 1}), n["v"]))
    if k == "lit":
        return Counter(), (lambda: (Counter(), lit_value(n)))
    if k in ("do", "vec"):
        parts = [comp(c, twice, funcs, env) for c in n["body"]]
        cev = sum((p[0] for p in parts), Counter())

        def prog(parts=parts, k=k):
            ev, vals = Counter(), []
            for _, p in parts:
                e, v = p()
                ev += e
                vals.append(v)
            return ev, (vals if k == "vec" else (vals[-1] if vals else None))
        return cev, prog
    if k == "host":
        parts = {name: comp({"k": "do", "body": nodes}, twice, funcs, env)
                 for name, nodes in n["parts"].items()}
        cev = sum((p[0] for p in parts.values()), Counter())   # every slot is compiled exactly once
        return cev, (lambda: run_host(n, {name: p[1] for name, p in parts.items()}))
    body = {"k": "do", "body": n.get("body", [])}
    if k == "ewc":
        c, p = comp(body, twice, funcs, env)
        e, _ = p()
        return c + e, (lambda: (Counter(), None))
    if k == "eac":
        c1, p1 = comp(body, twice, funcs, env)
        e, _ = p1()
        if twice:
            c2, p2 = comp(body, twice, funcs, env)
            return c1 + e + c2, p2
        return c1 + e, p1
    if k == "dm":
        c1, p1 = comp(body, twice, funcs, env)
        e, _ = p1()
        res = n["res"] if n["res"] is not None else {"k": "lit", "v": None}
        c2, p2 = comp(res, twice, funcs, env)
        return c1 + e + c2, p2
    if k == "top":
        c, p = comp(n["node"], twice, funcs, env)

        def prog(p=p, var=n["var"], use=n.get("use", "setv")):
            e, v = p()
            if use == "iftest":
                v = "T" if v else "F"
            if var:
                env[var] = v
            return e, None
        return c, prog
    if k == "defn":
        c, p = comp({"k": "do", "body": n["body"]}, twice, funcs, env)
        funcs[n["name"]] = p
        return c, (lambda: (Counter(), None))
    if k == "call":
        def prog(name=n["name"], var=n["var"]):
            e, v = funcs[name]()
            env[var] = v
            return e, None
        return Counter(), prog
    raise ValueError(k)


def run_host(n, P):
    """Run-time meaning of a host: which slots run how often, and its value."""
    h = n["h"]
    ev = Counter()

    def run(name):
        nonlocal ev
        e, v = P[name]()
        ev += e
        return v
    val = None
    if h == "with":
        if "mgr" in P:
            run("mgr")
        val = run("body")
    elif h == "try":
        val = run("body")
        if n["raises"]:
            val = run("handler")
        elif "else" in P:
            val = run("else")
        if "finally" in P:
            run("finally")
    elif h == "if":
        val = run("then") if run("cond") else run("else")
    elif h == "when":
        val = run("then") if run("cond") else None
    elif h == "cond":
        if run("c1"):
            val = run("b1")
        elif run("c2"):
            val = run("b2")
        else:
            val = run("b3")
    elif h == "let":
        run("init")
        val = run("body")
    elif h in ("for", "while"):
        for _ in range(n["n"]):
            run("body")
    elif h == "lfor":
        val = [run("body") for _ in range(n["n"])]
    elif h == "match":
        val = run("b%d" % n["subj"])
    elif h == "defclass":
        run("body")
    elif h == "defn":
        run("deco")
        run("default")
        for _ in range(n["calls"]):
            run("fbody")
    else:
        raise ValueError(h)
    return ev, val


def reference(top, twice):
    funcs, env = {}, {}
    c, p = comp({"k": "do", "body": top}, twice, funcs, env)
    e, _ = p()
    return c, e, env


# ---------------------------------------------------------------------------

BATCH = 3                 # modules per pair of child processes (each one is a sub-evaluation)
MODNAMES = ["stg_mod", "stage_m2", "m"]


def cases(seed, tier, shard, nshards):
    i = k = 0
    while True:
        k += 1
        # every 4th case is a script run twice with `hy FILE` (one module); the others are
        # BATCH modules imported from source and then from the cache
        # (the gate-bearing FILE class comes first in every shard)
        want = 1 if k % 4 == 1 else BATCH
        mods = []
        while len(mods) < want:
            rng = rng_for(seed, ID, shard, i)
            i += 1
            j = len(mods)
            ctr = [j * 1000]              # ids of module j are j*1000+1 ...; its marker is j*1000
            top = gen_module(rng, tier, ctr)
            tot, infn = count_stage({"k": "do", "body": top})
            if tot == 0:
                continue
            mods.append({"ir": top, "text": render_module(top, j * 1000), "nstage": tot, "infn": infn,
                         "modname": MODNAMES[j], "mark": j * 1000})
        yield {"mods": mods, "mode": "file" if want == 1 else "import"}


def case_key(case):
    return [case.get("mode", "import")] + [m["text"] for m in case["mods"]]


# Installed in every child through a sitecustomize.py placed first on PYTHONPATH, so that it is
# also there when the real `hy` script runs a file.
HARNESS = r"""
import builtins, json, os
_LOG = os.environ.get("VERIF_STAGE_LOG")
if _LOG:
    _PHASE = os.environ["VERIF_STAGE_PHASE"]
    def STAGE(i, v=None):
        with open(_LOG, "a") as f:
            f.write("%s %s\n" % (_PHASE, i))
        return v
    class CM:
        def __enter__(self):
            return self
        def __exit__(self, *exc):
            return False
    def IDENT(x):
        return x
    TOKSRC
    def DUMPVALS(g):
        vals = {k: tok(v) for k, v in g.items() if k[0] in "rc" and k[1:].isdigit()}
        with open(os.environ["VERIF_STAGE_VALS"], "a") as f:
            f.write(json.dumps({"phase": _PHASE, "values": vals}, default=repr) + "\n")
    builtins.STAGE, builtins.CM, builtins.IDENT, builtins.DUMPVALS = STAGE, CM, IDENT, DUMPVALS
"""

HARNESS = HARNESS.replace("    TOKSRC\n", "".join("    " + ln + "\n" for ln in TOK_SRC.strip().split("\n")))

DRIVER = r"""
import json, os, sys
""" + TOK_SRC + r"""
sys.path.insert(0, sys.argv[1])
outs = {}
import importlib
import hy
for name in sys.argv[2:]:
    try:
        m = importlib.import_module(name)
        out = {"ok": True, "values": {k: tok(v) for k, v in vars(m).items()
                                      if k[0] in "rc" and k[1:].isdigit()}}
        json.dumps(out)
    except BaseException as e:
        import traceback
        out = {"ok": False, "error": [type(e).__name__, str(e)[:400]], "tb": traceback.format_exc()[-1500:]}
    outs[name] = out
sys.stdout.write("@@DUMP@@" + json.dumps(outs, default=repr) + "\n")
"""


def parse_dump(out):
    for line in out.splitlines():
        if line.startswith("@@DUMP@@"):
            try:
                return json.loads(line[len("@@DUMP@@"):])
            except ValueError:
                return None
    return None


def fmt(c):
    return "{" + ", ".join(f"{k}:{c[k]}" for k in sorted(c)) + "}"


def classes_of(mod):
    top = mod["ir"]
    classes = ["n%d" % min(mod["nstage"], 8)]
    kinds = set()

    def walk(n, under):
        k = n["k"]
        if k in ("ewc", "eac", "dm"):
            kinds.add(k)
            if under:
                kinds.add(f"{k}-in-{under}")
        if k == "dm" and n.get("res") and n["res"]["k"] in ("ewc", "eac", "dm"):
            kinds.add("dm-result-is-staging")
        if k == "host":
            kinds.add("host:" + n["h"])
            if n["h"] == "with":
                kinds.add("with-managers:%d" % n["n"])
            if under in ("ewc", "eac", "dm"):
                kinds.add("host-in-" + under)
            for name, part in n["parts"].items():
                for c in part:
                    walk(c, f"{n['h']}.{name}")
            return
        for c in children(n):
            walk(c, k if k in ("ewc", "eac", "dm", "defn") else under)
    for t in top:
        walk(t, None)
    classes += sorted(kinds)
    ncalls = Counter(t["name"] for t in top if t["k"] == "call")
    for t in top:
        if t["k"] == "defn":
            classes.append("calls:%d" % ncalls[t["name"]])
    return classes


def judge(mod, path, events, dumps, comp, file_mode=False):
    """One module of the batch -> (ok True/False/None, why, extra class)."""
    top, mark, text = mod["ir"], mod["mark"], mod["text"]
    hi_c, run_e, env_hi = reference(top, True)
    lo_c, run_lo, env_lo = reference(top, False)
    assert run_e == run_lo and env_hi == env_lo
    d1, d2 = dumps[0].get(mod["modname"]), dumps[1].get(mod["modname"])
    if d1 is None or d2 is None:
        return False, "module missing from a child's dump", None
    if not d1["ok"]:
        return False, (f"importing the module from source failed: {d1['error']}\n"
                       f"{d1.get('tb', '')[-600:]}\n{text}"), None
    if path not in comp[0]:
        return None, f"compiled p1={comp[0]} p2={comp[1]}", "inconclusive:bytecode-path-not-detected"
    if path in comp[1]:
        before = [i for i in events["p2"] if mark < i < mark + 1000]
        if mark in events["p2"]:
            before = [i for i in events["p2"][:events["p2"].index(mark)] if mark < i < mark + 1000]
        if file_mode and before:
            # docs/semantics.rst "When bytecode is regenerated": the first direct execution of a
            # file produces a bytecode file; "subsequently, if the source file hasn't changed, Hy
            # will load the bytecode instead of recompiling"
            return False, (f"second `hy FILE` run of the unchanged script recompiled it (Compiling {path}) "
                           f"and ran compile-time code again: {fmt(Counter(before))}; byte-code writing was "
                           f"enabled and the first run compiled it\n{text}"), "script-not-cached"
        return None, f"compiled p1={comp[0]} p2={comp[1]}", "inconclusive:bytecode-path-not-detected"
    if not d2["ok"]:
        return False, f"import from cached byte-code failed: {d2['error']}\n{text}", "bytecode-path-detected"
    mine = lambda evs: [i for i in evs if mark <= i < mark + 1000]
    e1, e2 = mine(events["p1"]), mine(events["p2"])
    for name, e in (("source", e1), ("cached", e2)):
        if e.count(mark) != 1:
            return False, f"{name} run: run-time marker logged {e.count(mark)} times: {e}\n{text}", "bytecode-path-detected"
    cut, cut2 = e1.index(mark), e2.index(mark)
    c1, r1 = Counter(e1[:cut]), Counter(e1[cut + 1:])
    c2, r2 = Counter(e2[:cut2]), Counter(e2[cut2 + 1:])

    def where(i):
        return f"(STAGE {i} …) in\n{text}"
    tag = "bytecode-path-detected"
    for i in sorted(set(hi_c) | set(c1)):
        if not (lo_c[i] <= c1[i] <= hi_c[i]):
            want = str(hi_c[i]) if lo_c[i] == hi_c[i] else f"{lo_c[i]}..{hi_c[i]}"
            return False, (f"compile time (source import): id {i} executed {c1[i]}x, expected {want}; "
                           f"observed {fmt(c1)} expected {fmt(hi_c)} {where(i)}"), tag
    if r1 != run_e:
        i = sorted(k for k in set(r1) | set(run_e) if r1[k] != run_e[k])[0]
        return False, (f"run time (source import): id {i} executed {r1[i]}x, expected {run_e[i]}; "
                       f"observed {fmt(r1)} expected {fmt(run_e)} {where(i)}"), tag
    if c2:
        return False, (f"cached run executed compile-time code: {fmt(c2)} before the module "
                       f"started running\n{text}"), tag
    if r2 != run_e:
        i = sorted(k for k in set(r2) | set(run_e) if r2[k] != run_e[k])[0]
        return False, (f"run time (cached import): id {i} executed {r2[i]}x, expected {run_e[i]}; "
                       f"observed {fmt(r2)} expected {fmt(run_e)} {where(i)}"), tag
    for k, d in enumerate((d1, d2)):
        got = d["values"]
        for var, want in env_hi.items():
            if var not in got:
                return False, f"process {k + 1}: {var} not set; expected {want!r}\n{text}", tag
            if got[var] != tok(want):
                return False, (f"process {k + 1} ({'source' if k == 0 else 'cached'}): {var} = {got[var]!r}, "
                               f"expected {tok(want)!r}\n{text}"), tag
    return True, None, tag


def run_case(case):
    mods = case["mods"]
    file_mode = case.get("mode") == "file"
    res = {"ok": True, "nontrivial": False, "classes": ["mode:" + case.get("mode", "import")],
           "events": 0, "n": 0, "nt_keys": [], "sample": {"text": mods[0]["text"]}}
    with CaseDir("c16") as cd:
        src = os.path.join(cd.path, "src")
        tail = "(DUMPVALS (globals))\n" if file_mode else ""
        paths = [cd.write(os.path.join("src", m["modname"] + ".hy"), m["text"] + tail) for m in mods]
        site = os.path.dirname(cd.write(os.path.join("site", "sitecustomize.py"), HARNESS))
        drv = cd.write("_drv.py", DRIVER)
        log = os.path.join(cd.path, "stage.log")
        vals = os.path.join(cd.path, "vals.jsonl")
        runs = []
        for phase in ("p1", "p2"):
            env = cd.env({"VERIF_STAGE_LOG": log, "VERIF_STAGE_PHASE": phase, "VERIF_STAGE_VALS": vals},
                         pythonpath_first=[site])
            if file_mode:
                cmd = [hy_script(), paths[0]]
            else:
                cmd = [python(), drv, src] + [m["modname"] for m in mods]
            r = cd.run(cmd, env=env, timeout=50)
            if child_problem(r):
                res.update(ok=None, classes=res["classes"] + [child_problem(r)])
                return res
            runs.append(r)
        lines, vlines = [], []
        for pth, dst in ((log, lines), (vals, vlines)):
            try:
                with open(pth) as f:
                    dst.extend(f.read().split("\n"))
            except FileNotFoundError:
                pass
    events = {"p1": [], "p2": []}
    for ln in lines:
        if ln:
            ph, i = ln.split(" ", 1)
            events[ph].append(int(i))
    res["events"] = len(events["p1"]) + len(events["p2"])
    if file_mode:
        got = {}
        for ln in vlines:
            if ln:
                d = json.loads(ln)
                got[d["phase"]] = d["values"]
        dumps = []
        for ph, r in zip(("p1", "p2"), runs):
            if r["rc"] == 0 and ph in got:
                dumps.append({mods[0]["modname"]: {"ok": True, "values": got[ph]}})
            else:
                dumps.append({mods[0]["modname"]: {
                    "ok": False, "error": [f"hy FILE exit status {r['rc']}", r["err"][-500:]]}})
    else:
        dumps = [parse_dump(r["out"]) for r in runs]
    if any(d is None for d in dumps):
        # the driver catches every exception: no dump means the interpreter itself died -> skip
        res.update(ok=None, classes=res["classes"] + ["child-no-dump"])
        return res
    comp = [compiled_paths(r["err"]) for r in runs]
    whys = []
    for m, path in zip(mods, paths):
        ok, why, tag = judge(m, path, events, dumps, comp, file_mode)
        res["classes"] += classes_of(m) + ([tag] if tag else [])
        if ok is None:
            continue
        res["n"] += 1
        if tag == "bytecode-path-detected":
            res["classes"].append("bytecode-path-detected:" + case.get("mode", "import"))
        if tag in ("bytecode-path-detected", "script-not-cached") and m["nstage"] >= 2 and m["infn"] >= 1:
            res["nt_keys"].append([case.get("mode", "import"), m["text"]])
        if ok is False:
            whys.append(why)
    if res["n"] == 0:
        res["ok"] = None
        return res
    res["nontrivial"] = bool(res["nt_keys"])
    if whys:
        res.update(ok=False, why=whys[0])
    return res


def gate(tot, classes, extra, tier):
    # `classes` is the histogram of the whole run (all shards)
    lost = skip_gate(tot, classes)
    if lost:
        return lost
    if not classes.get("bytecode-path-detected:import"):
        return "bytecode-path-never-detected"
    if not classes.get("bytecode-path-detected:file") and not classes.get("script-not-cached"):
        return "cached-hy-FILE-run-never-detected"
    n = sum(v for k, v in classes.items() if k.startswith("n") and k[1:].isdigit())
    if classes.get("inconclusive:bytecode-path-not-detected", 0) > 0.2 * max(n, 1):
        return "bytecode-path-not-detected-in-%d-modules" % classes["inconclusive:bytecode-path-not-detected"]
    return None
