"""C20 — whitespace, comments, discards and reader sugar are transparent.

Observation: the model lists the tree's reader returns (compared by deep typed
equality, positions ignored).  Four case kinds:

  ir             one syntax-IR tree rendered four ways — single-space baseline,
                 rich separators at every boundary between sibling forms at every
                 depth (space, tab, LF, CR, CRLF, FF, VT, ; comments, #_ FORM
                 discards incl. nested ones; the same mix between a sugar prefix and
                 its operand), all-long-form, all-sugar.  All four
                 must read to the same models, and to the IR's expected models.
  concat         two trees A, B: read(A + sep + B) == read(A) ++ read(B); sep may be
                 empty where that is token-safe.
  corpus         a top-level form of the repository's .hy files with separators
                 inserted at the scanner's sibling-form gaps vs. the form as written.
  corpus-concat  two corpus forms juxtaposed.
"""
from hv.common import rng_for, same_model
from hv import syntax_ir as S

ID = "C20"
LEVEL = "exploration"
RULE = ("form sequences from the syntax IR (all form kinds, nested) rendered with a random mix of "
        "space/tab/LF/CR/CRLF/FF/VT, ';' comments and '#_ FORM' discards at every sibling boundary at "
        "every depth vs the single-space rendering, long form vs sugar for ' ` ~ ~@ #* #** #^, "
        "token-safe concatenations, and repository .hy forms with separators inserted at sibling gaps. "
        "Non-trivial = >= 3 forms with >= 1 comment or discard inside a nested sequence; distinct by text.")
FLOOR = {"quick": 2000, "thorough": 2000}
BUDGET = {"quick": 25, "thorough": 420}
CASE_TIMEOUT = 30
NEEDS_EVENTS = True
ANCHORS = ["hy.reader.hy_reader:HyReader.discard", "hy.reader.hy_reader:HyReader.line_comment",
           "hy.reader.reader:Reader.slurp_space", "hy.reader.hy_reader:HyReader.unquote",
           "hy.reader.hy_reader:HyReader.hash_star", "hy.reader.hy_reader:HyReader.annotate",
           "hy.reader.hy_reader:HyReader.parse_forms_until"]
ASSUMPTIONS = [
    "separators are inserted between sibling forms (and before the first / after the last form of a "
    "sequence) and between a sugar prefix (' ` ~ ~@ #* #** #^ #_) and its operand(s); after a '#' prefix "
    "at least one whitespace character precedes a '#_' (otherwise '#*#_' is one tag)",
    "a comment is terminated by LF or CRLF (a lone CR does not end a comment in Hy; docs say 'end of line')",
    "direct juxtaposition only where the left text ends in a closer, a closing quote or whitespace that "
    "is not part of an unterminated comment, or the right text begins with whitespace",
    "FComponent.expression (verbatim field text) is not compared: separators inside a field's form change it",
]
MANIFEST = {
    "text": "Generated form sequences (all form kinds, nested) are read in a single-space rendering, with "
            "random whitespace/comment/discard separators at every sibling boundary at every depth, in "
            "all-long-form and in all-sugar spelling; all must give the same models and the IR's expected "
            "models. Token-safe concatenations must give the concatenated model lists. The repository's own "
            ".hy forms are re-read with separators inserted at sibling gaps. Held on the texts read, no more.",
    "note": "Trusted: the syntax IR's expected models and separator placement (hv/syntax_ir.py), CPython's "
            "int/float/complex for numeric expectations. Bounds: nesting <= 5, <= ~40 forms per text.",
    "technique": "runtime monitoring: metamorphic re-reading under separator insertion / sugar expansion, "
                 "deep typed model equality",
}
ATTRS = ("brackets", "conversion", "is_tstring")

_counts = {}


def _bump(k, n=1):
    _counts[k] = _counts.get(k, 0) + n


_SEPS = [" ", "  ", "\t", "\n", "\r\n", "\r", "\f", "\v", "\n  ", " ;c\n", " ; (unclosed \"x\n",
         "\t;#_ y\r\n", " #_ junk ", " #_ (a #_ b c) ", "\n#_ #_ a \"b\" ", " #_;c\n x ", "\v#_ [1 :k] \f"]
_CFGS = [dict(size=10, depth=4), dict(size=18, depth=5), dict(size=26, depth=5, noise=0.4),
         dict(size=14, depth=4, fstring=2.5), dict(size=8, depth=3, noise=0.5)]


def _gen(rng, multiline=0.3, top=(1, 4)):
    cfg = S.GenConfig(multiline=multiline, top=top, **_CFGS[rng.randrange(len(_CFGS))])
    return S.gen_program(rng, cfg)


def _strip(specs):
    """Expected specs without layout facts (smaller cases)."""
    out = []
    for s in specs:
        d = {k: v for k, v in s.items() if k in ("t", "v", "a")}
        if "c" in s:
            d["c"] = _strip(s["c"])
        out.append(d)
    return out


def _count_forms(specs):
    return sum(1 + _count_forms(s.get("c", [])) for s in specs)


def _join_ok(a_text, a_tail_comment, b_text):
    if a_tail_comment:
        return False
    if not a_text or not b_text:
        return True
    return a_text[-1] in ")]}\"" + S.WS or b_text[0] in S.WS


def cases(seed, tier, shard, nshards):
    corpus = S.load_corpus(max_len=1500 if tier == "quick" else 6000)
    mine = [c for i, c in enumerate(corpus) if i % nshards == shard]
    rng_for(seed, ID, "corpus").shuffle(mine)
    ci = 0
    i = 0
    while True:
        rng = rng_for(seed, ID, shard, i)
        i += 1
        m = i % 8
        if m in (3, 7) and mine:
            c = mine[ci % len(mine)]
            ci += 1
            try:
                sc = S.scan(c["text"])
            except S.ScanError:
                continue
            src = f"{c['file']}#{c['index']}"
            if m == 3 or len(corpus) < 2:
                gaps = [g for g in sc.gaps if not g[2]]
                if not gaps:
                    continue
                k = rng.randint(1, min(len(gaps), 12))
                chosen = sorted(rng.sample(gaps, k), key=lambda g: -g[0])
                text = c["text"]
                noise = 0
                for off, depth, _ in chosen:
                    sep = rng.choice(_SEPS)
                    if depth >= 1 and ("#_" in sep.split(";")[0] or ";" in sep):
                        noise += 1
                    text = text[:off] + sep + text[off:]
                yield {"kind": "corpus", "src": src, "base": c["text"], "rich": text, "noise": noise,
                       "inserted": k}
            else:
                d = corpus[rng.randrange(len(corpus))]
                sep = rng.choice(["", "", " ", "\n", " ;c\n", " #_ x ", "\r\n\f"])
                if not _join_ok(c["text"], False, d["text"]) and not sep:
                    sep = " "
                yield {"kind": "corpus-concat", "src": src, "a": c["text"], "b": d["text"], "sep": sep}
            continue
        if m == 5:
            ta, tb = _gen(rng, top=(0, 3)), _gen(rng, top=(0, 3))
            a, b = S.render(ta, cuts=False), S.render(tb, cuts=False)
            sep = rng.choice(["", "", "", " ", "\n", "\r", "\f", " ;c\n", " #_ x ", "\v\t"])
            if a.tail_comment:
                sep = "\n" + sep
            elif not sep and not _join_ok(a.text, False, b.text):
                sep = rng.choice([" ", "\n", "\t"])
            yield {"kind": "concat", "a": a.text, "b": b.text, "sep": sep,
                   "expected": _strip(a.models + b.models), "tags": sorted(set(a.tags) | set(b.tags))}
            continue
        tree = _gen(rng, multiline=rng.choice([0.1, 0.4]))
        rich = S.render(tree, "rich", "chosen", cuts=False)
        base = S.render(tree, "single", "chosen", cuts=False)
        long_ = S.render(tree, "single", "long", cuts=False)
        short = S.render(tree, "single", "short", cuts=False)
        yield {"kind": "ir", "base": base.text, "rich": rich.text, "long": long_.text, "short": short.text,
               "expected": _strip(base.models), "noise": rich.noise, "tags": rich.tags}


def _read(text, res):
    out, val = S.read_outcome(text)
    res["events"] += 1
    return out, val


def _same_lists(a, b):
    if len(a) != len(b):
        return f"{len(a)} models != {len(b)} models"
    for i, (x, y) in enumerate(zip(a, b)):
        d = same_model(x, y, f"[{i}]", ATTRS)
        if d:
            return d
    return None


def run_case(case):
    kind = case["kind"]
    res = {"ok": True, "nontrivial": False, "classes": [kind] + ["has:" + t for t in case.get("tags", [])],
           "events": 0}

    def fail(why):
        res["ok"] = False
        res["why"] = why
        return res

    if kind == "ir":
        out, base = _read(case["base"], res)
        if out != "ok":
            return fail(f"single-space rendering {case['base']!r} raised {S.describe_exc(base)}")
        d = S.specs_diff(base, case["expected"], attrs=ATTRS)
        if d:
            return fail(f"single-space rendering {case['base']!r} differs from the expected models: {d}")
        for name in ("rich", "long", "short"):
            out, ms = _read(case[name], res)
            if out != "ok":
                return fail(f"{name} rendering {case[name]!r} raised {S.describe_exc(ms)} "
                            f"(baseline {case['base']!r} reads)")
            d = _same_lists(ms, base) or S.specs_diff(ms, case["expected"], attrs=ATTRS)
            if d:
                return fail(f"{name} rendering {case[name]!r} reads differently from baseline "
                            f"{case['base']!r}: {d}")
        if case["long"] != case["short"]:
            res["classes"].append("sugar-vs-long")
            _bump("sugar_pairs")
        nforms = _count_forms(case["expected"])
        res["nontrivial"] = nforms >= 3 and case["noise"] >= 1
        res["nt_keys"] = [case["rich"]]
        res["sample"] = {"kind": kind, "base": case["base"], "rich": case["rich"]}
        _bump("ir")
        return res

    if kind in ("concat", "corpus-concat"):
        oa, a = _read(case["a"], res)
        ob, b = _read(case["b"], res)
        if oa != "ok" or ob != "ok":
            if kind == "concat":
                return fail(f"generated text does not read: {case['a']!r} / {case['b']!r}")
            res["ok"] = None
            return res
        text = case["a"] + case["sep"] + case["b"]
        oc, c = _read(text, res)
        if oc != "ok":
            return fail(f"concatenation {text!r} raised {S.describe_exc(c)} (both parts read)")
        d = _same_lists(c, a + b)
        if not d and "expected" in case:
            d = S.specs_diff(c, case["expected"], attrs=ATTRS)
        if d:
            return fail(f"concatenation {case['a']!r} + {case['sep']!r} + {case['b']!r} does not read as "
                        f"the concatenated model lists: {d}")
        res["classes"].append("juxtaposed" if not case["sep"] else "separated")
        res["nontrivial"] = len(a) + len(b) >= 3 and (";" in text or "#_" in text)
        res["nt_keys"] = [text]
        _bump(kind)
        return res

    # corpus
    ob, base = _read(case["base"], res)
    if ob != "ok":
        res["ok"] = None
        return res
    orr, rich = _read(case["rich"], res)
    if orr != "ok":
        return fail(f"{case['src']}: with separators inserted {case['rich']!r} raised {S.describe_exc(rich)}")
    d = _same_lists(rich, base)
    if d:
        return fail(f"{case['src']}: inserting separators changed the models: {d}; text {case['rich']!r}")
    res["nontrivial"] = case["noise"] >= 1 and sum(1 for _ in _walk(base)) >= 3
    res["nt_keys"] = [case["rich"]]
    res["sample"] = {"kind": kind, "src": case["src"], "rich": case["rich"][:400]}
    _bump("corpus")
    _bump("corpus_separators_inserted", case["inserted"])
    return res


def _walk(models):
    import hy.models as M
    for m in models:
        yield m
        if isinstance(m, M.Sequence):
            yield from _walk(m)


def finish_worker():
    return {"kinds": dict(_counts)}


def gate(tot, classes, extra, tier):
    k = extra.get("kinds", {})
    for need in ("ir", "concat", "sugar_pairs"):
        if not k.get(need):
            return f"no-{need}-cases"
    for need in ("has:comment", "has:discard", "has:ws:CR", "has:ws:FF", "has:ws:VT", "juxtaposed",
                 "has:sugar-ws", "has:sugar-noise"):
        if not classes.get(need):
            return f"class-{need}-never-generated"
    return None
