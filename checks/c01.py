"""C01 — compiled code means what the Hy program means.

History observed per program: result value, escaping exception, final values of
the program's variables and the ordered trace of logged side effects.
Oracle: direct big-step reference interpreter over the program IR (no
compilation, no statement lifting) producing a series-parallel trace structure;
the observed flat trace must be a linearisation of it (DESIGN 6.3).
"""
import ast

from hv import gen_prog as G
from hv.common import Trace, exec_hy, rng_for, same_value

ID = "C01"
LEVEL = "exploration"
RULE = ("random programs from the typed program IR (do if cond when and or setv setx let fn calls "
        "operators collections get cut while for lfor/sfor/dfor/gfor with try raise return break continue), "
        "depth <= 5/6, <= 60 nodes, a logging site in every slot, statement-producing forms forced into "
        "expression slots; each run at module level and inside ((fn [] ...)), result used and discarded. "
        "Non-trivial = compiled AST hoists a statement out of expression position (a _hy_ temporary) and "
        "the reference trace has >= 3 events; distinct by program text+mode.")
FLOOR = {"quick": 300, "thorough": 5000}
BUDGET = {"quick": 34, "thorough": 600}
CASE_TIMEOUT = 20
NEEDS_EVENTS = True
ANCHORS = [
    "hy.compiler:Result.__add__", "hy.compiler:Result.expr_as_stmt", "hy.compiler:Result.rename",
    "hy.compiler:HyASTCompiler._compile_branch", "hy.compiler:HyASTCompiler._compile_collect",
    "hy.core.result_macros:compile_if", "hy.core.result_macros:compile_assign",
    "hy.core.result_macros:compile_while_expression", "hy.core.result_macros:compile_with_expression",
    "hy.core.result_macros:compile_try_expression", "hy.core.result_macros:compile_logical_or_and_and_operator",
    "hy.core.result_macros:compile_function_lambda", "hy.core.result_macros:compile_let",
]
ASSUMPTIONS = [
    "the reference interpreter (hv/gen_prog.py Interp) encodes the documented semantics of the generated forms",
    "order among children of forms whose order Hy leaves unspecified is free (docs/semantics.rst); siblings "
    "there are effect-disjoint by construction so that freedom cannot change values",
    "CPython 3.12.1 executes the emitted AST as documented",
]
MANIFEST = {
    "text": "Tens of thousands of generated programs over the core expression forms are compiled by the working "
            "tree's compiler and executed under a trace logger; value, escaping exception, final variable values "
            "and the effect trace are checked against an independent direct interpreter, the trace as a "
            "linearisation of a series-parallel order (documented orders strict, unspecified orders free). "
            "Exploration level: held on the programs run.",
    "note": "Trusted: my reference interpreter's reading of the docs; CPython 3.12.1. Bounds: depth<=5 (quick) / 6 "
            "(thorough), <=60 nodes, loops <=3 iterations, no async, no classes, comprehension bodies do not assign "
            "outer names (C04's subject).",
    "technique": "runtime monitoring: effect-trace logger + value/exception/namespace observation vs reference "
                 "interpreter with series-parallel trace acceptance",
}


def cases(seed, tier, shard, nshards):
    i = 0
    depth = 5 if tier == "quick" else 6
    while True:
        rng = rng_for(seed, ID, shard, i)
        i += 1
        prog = G.gen_program(rng, max_depth=rng.choice([3, 4, depth]), max_nodes=rng.choice([25, 40, 60]))
        mode = "module" if i % 2 else "fn"
        use = rng.random() < 0.8
        yield {"prog": prog, "mode": mode, "use": use, "text": G.render_program(prog, mode, use)}


def _hoisted(tree, nforms):
    for node in ast.walk(tree):
        if isinstance(node, ast.Name) and node.id.startswith("_hy_"):
            return True
        if isinstance(node, (ast.FunctionDef,)) and node.name.startswith("_hy_"):
            return True
    return False


def _feature_ifstar_else(n):
    """Does the program contain an `if` whose else-branch is headed by the callee `if*`?"""
    if isinstance(n, dict):
        if n.get("op") == "if" and isinstance(n.get("b"), dict) and n["b"].get("op") == "F" \
                and n["b"].get("nm") == "if*":
            return True
        return any(_feature_ifstar_else(v) for v in n.values())
    if isinstance(n, list):
        return any(_feature_ifstar_else(v) for v in n)
    return False


def _rename_ifstar(n):
    if isinstance(n, dict):
        out = {k: _rename_ifstar(v) for k, v in n.items()}
        if out.get("op") == "F" and out.get("nm") == "if*":
            out["nm"] = "F"
        return out
    if isinstance(n, list):
        return [_rename_ifstar(v) for v in n]
    return n


COMP_OPS = ("lfor", "sfor", "gfor", "dfor")
JUMP_OPS = ("return", "break", "continue")


def _has_jump(n):
    if isinstance(n, dict):
        if n.get("op") in JUMP_OPS:
            return True
        if n.get("op") in ("fn", "defn", "setfn"):
            return False          # a nested function is its own jump target
        return any(_has_jump(v) for v in n.values())
    if isinstance(n, list):
        return any(_has_jump(v) for v in n)
    return False


def _feature_jump_in_comp_iterable(n):
    """A comprehension whose first iterable contains return/break/continue aimed at the
    enclosing function or loop (the iterable belongs to the enclosing scope)."""
    if isinstance(n, dict):
        if n.get("op") in COMP_OPS and _has_jump(n.get("it")):
            return True
        return any(_feature_jump_in_comp_iterable(v) for v in n.values())
    if isinstance(n, list):
        return any(_feature_jump_in_comp_iterable(v) for v in n)
    return False


def _strip_jumps(n):
    if isinstance(n, dict):
        if n.get("op") == "return":
            return _strip_jumps(n["e"])
        if n.get("op") in ("break", "continue"):
            return {"op": "none"}
        if n.get("op") in ("fn", "defn", "setfn"):
            return n
        return {k: _strip_jumps(v) for k, v in n.items()}
    if isinstance(n, list):
        return [_strip_jumps(v) for v in n]
    return n


def _normalise_comp_iterables(n):
    if isinstance(n, dict):
        out = {k: _normalise_comp_iterables(v) for k, v in n.items()}
        if out.get("op") in COMP_OPS:
            out["it"] = _strip_jumps(out["it"])
        return out
    if isinstance(n, list):
        return [_normalise_comp_iterables(v) for v in n]
    return n


def check(prog, mode, use, text):
    """Returns (why|None, info)"""
    try:
        ref = G.Interp().run(prog)
    except G.Budget:
        return "SKIP", {}
    tr = Trace()
    m, exc, tree, phase = exec_hy(text, G.make_env(tr))
    info = {"events": len(tr.events), "tree": tree, "ref": ref}
    if phase == "compile":
        return f"compilation failed: {type(exc).__name__}: {str(exc)[:300]}", info
    got_exc = None if exc is None else [type(exc).__name__, list(getattr(exc, "args", ()))]
    if ref["exc"] is None and got_exc is not None:
        return f"escaping exception {got_exc} but reference completes with value {ref['value']!r}", info
    if ref["exc"] is not None and got_exc != ref["exc"]:
        return f"escaping exception {got_exc}, reference expects {ref['exc']}", info
    ok, pos = G.accepts(ref["trace"], tr.events)
    if ok is None:
        return "SKIP", info
    if not ok:
        return (f"effect trace is not a linearisation of the reference order: first bad event at #{pos}: "
                f"{tr.events[pos] if pos < len(tr.events) else 'trace ended early'}; observed keys "
                f"{tr.keys()[:60]}; reference {str(G.norm(ref['trace']))[:600]}"), info
    if ref["exc"] is None:
        if use:
            d = same_value(ref["value"], m.__dict__.get("RESULT", "<unset>"))
            if d:
                return f"result value differs from reference: {d}", info
        d = same_value(ref["final"], m.__dict__.get("FINAL", "<unset>"))
        if d:
            return f"final variable values differ from reference: {d}", info
    return None, info


def _paths(n, path=()):
    """Paths to every IR node (dicts with an "op")."""
    if isinstance(n, dict):
        if "op" in n and path:
            yield path
        for k, v in n.items():
            yield from _paths(v, path + (k,))
    elif isinstance(n, list):
        for i, v in enumerate(n):
            yield from _paths(v, path + (i,))


def _get(n, path):
    for k in path:
        n = n[k]
    return n


def _replaced(n, path, new):
    import copy
    n = copy.deepcopy(n)
    parent = _get(n, path[:-1])
    parent[path[-1]] = new
    return n


def shrink(prog, mode, use, still_bad, max_checks=80):
    """Greedy witness shrinking (DESIGN 3): replace sub-forms by a literal, drop top-level forms,
    keep a change while the case still violates. Bounded number of re-checks."""
    checks = 0
    changed = True
    while changed and checks < max_checks:
        changed = False
        for i in range(len(prog["forms"]) - 1, -1, -1):
            cand = dict(prog, forms=prog["forms"][:i] + prog["forms"][i + 1:])
            checks += 1
            if still_bad(cand):
                prog, changed = cand, True
            if checks >= max_checks:
                return prog
        paths = sorted(_paths(prog["last"], ("last",)), key=len) + sorted(_paths(prog["forms"], ("forms",)), key=len)
        for path in paths:
            try:
                node = _get(prog, path)
            except (KeyError, IndexError, TypeError):
                continue
            if not isinstance(node, dict) or node.get("op") == "lit":
                continue
            if len(path) >= 2 and path[-2] in ("ps", "bs", "hs", "ms", "cl", "defs") and isinstance(path[-1], int) and path[-1] == 0:
                continue        # names, not nodes
            cand = _replaced(prog, path, {"op": "lit", "v": 0})
            checks += 1
            if still_bad(cand):
                prog, changed = cand, True
                break
            if checks >= max_checks:
                return prog
    return prog


def run_case(case):
    prog, mode, use, text = case["prog"], case["mode"], case["use"], case["text"]
    why, info = check(prog, mode, use, text)
    if why == "SKIP":
        return {"ok": None}
    tree = info.get("tree")
    nev = G.count_events(info["ref"]["trace"]) if "ref" in info else 0
    nontrivial = bool(tree is not None and _hoisted(tree, 0) and nev >= 3)
    classes = ["mode:" + mode, "use:" + str(use)]
    ops = set()
    _ops(prog, ops)
    classes += ["op:" + o for o in sorted(ops)]
    if info.get("ref", {}).get("exc"):
        classes.append("escaping-exception")
    res = {"ok": why is None, "nontrivial": nontrivial, "classes": classes,
           "events": info.get("events", 0), "sample": {"text": text, "mode": mode}}
    if why is not None:
        res["why"] = why
        try:
            def still_bad(p):
                try:
                    w, _ = check(p, mode, use, G.render_program(p, mode, use))
                except Exception:
                    return False
                return w not in (None, "SKIP")
            small = shrink(prog, mode, use, still_bad)
            st = G.render_program(small, mode, use)
            if len(st) < len(text):
                w2, _ = check(small, mode, use, st)
                res["shrunk"] = {"text": st, "why": str(w2)[:400]}
                res["why"] = why + " || shrunk witness: " + st.replace("\n", " ") + " => " + str(w2)[:300]
        except Exception:
            pass
        # attribution: legacy `if*` special case in compile_if
        if _feature_ifstar_else(prog):
            p2 = _rename_ifstar(prog)
            why2, _ = check(p2, mode, use, G.render_program(p2, mode, use))
            if why2 is None:
                res["finding"] = "if-else-branch-headed-by-ifstar"
        # attribution: the generator-function strategy evaluates the first iterable inside the
        # generated function (C04's recorded mechanism), so a jump there aims at the wrong target
        if "finding" not in res and _feature_jump_in_comp_iterable(prog):
            p2 = _normalise_comp_iterables(prog)
            why2, _ = check(p2, mode, use, G.render_program(p2, mode, use))
            if why2 is None:
                res["finding"] = "genfn-first-iterable-evaluated-inside-function"
    return res


def _ops(n, acc):
    if isinstance(n, dict):
        if "op" in n:
            acc.add(n["op"])
        for v in n.values():
            _ops(v, acc)
    elif isinstance(n, list):
        for v in n:
            _ops(v, acc)


def case_key(case):
    return [case["text"], case["mode"]]
