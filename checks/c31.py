"""C31 — quasiquote substitutes unquotes at the right nesting level.

History observed: the value of (quasiquote template) evaluated with the unquoted
names bound to generated values. Oracle: an independent reference evaluator
over model trees implementing the level-counting rule of the property
statement; comparison by deep typed equality after promoting plain values to
models on both sides.
"""
import json
import types

from hv import gen_models as G
from hv.common import rng_for, same_model, MODEL_ATTRS

ID = "C31"
LEVEL = "exploration"
RULE = ("templates of depth <= 4 over Expression/List/Tuple/Set/Dict/FString/FComponent with "
        "unquote / unquote-splice (also spelled unquote_splice, ~, ~@) at random places, nested "
        "quasiquotes up to level 2, unquotes inside nested levels that return to level 0, (quote ...) "
        "wrappers, splices of lists/tuples/generators/dicts/strings/bytes/models/None/empty/falsy "
        "values, substituted values of every representable type, level-0 unquote arguments that are "
        "names, literals, list displays or nested quote/quasiquote forms; plus templates read from "
        "source text and wrong-arity unquotes (outcome recorded, not judged). Non-trivial = template with a splice or a nesting "
        "level >= 1; distinct by rendered case.")
FLOOR = {"quick": 800, "thorough": 2000}
BUDGET = {"quick": 25, "thorough": 480}
CASE_TIMEOUT = 20
NEEDS_EVENTS = True
ANCHORS = ["hy.core.result_macros:render_quoted_form", "hy.core.result_macros:compile_quote"]
ASSUMPTIONS = [
    "the reference evaluator (qq/ev/promote below, ~40 lines) states the documented rule",
    "a substituted plain value and its promoted model are not distinguished (both sides are promoted "
    "before comparison): Hy promotes lazily and the docs do not say when",
    "a splice needs a parent sequence (a top-level ~@ is not constrained); ~@ of #* is not generated",
    "a spliced value is never an FString assembled by a nested quasiquote (FString joins adjacent "
    "strings at construction, so what the splice iterates over would depend on promotion timing)",
    "splice values are iterables or false values; unquote arguments are effect-free",
]
MANIFEST = {
    "text": "Generated quasiquote templates (every sequence model kind, unquote and unquote-splice at "
            "random depth, nested quasiquotes up to level 2 with unquotes returning to level 0, splices "
            "of every iterable kind and of false values, substituted values of every representable "
            "type) are evaluated by hy and by an independent 40-line reference evaluator of the "
            "level-counting rule; results are compared by deep typed equality (all model attributes, "
            "NaN-aware) after promotion. The outcome of wrong-arity level-0 unquotes is only recorded. "
            "Exploration: held on the templates run, nothing beyond.",
    "note": "Trusted: the reference evaluator and the model constructors. Bounds: depth <= 4, nesting "
            "level <= 2, values of size <= 4.",
    "technique": "runtime monitoring: differential evaluation of generated quasiquote templates "
                 "against an independent reference evaluator of the level-counting rule",
}

_state = {"mod": None, "events": 0, "patched": False}


def _mod():
    if _state["mod"] is None:
        _state["mod"] = types.ModuleType("hv_c31_eval")
    return _state["mod"]


def setup_worker(tier, seed):
    try:
        import hy.core.result_macros as R
        orig = R.render_quoted_form

        def counting(compiler, form, level):
            _state["events"] += 1
            return orig(compiler, form, level)
        R.render_quoted_form = counting
        _state["patched"] = True
    except Exception:
        _state["patched"] = False


# ------------------------------------------------------------ reference model

class Arity(Exception):
    pass


def promote(v):
    """Plain value -> model, recursively (models keep type and attributes)."""
    import hy.models as M
    if isinstance(v, M.FString):
        return M.FString([promote(x) for x in v], brackets=v.brackets, is_tstring=v.is_tstring)
    if isinstance(v, M.FComponent):
        return M.FComponent([promote(x) for x in v], conversion=v.conversion,
                            expression=v.expression, is_tstring=v.is_tstring)
    if isinstance(v, M.Sequence):
        return type(v)([promote(x) for x in v])
    if isinstance(v, M.Object):
        return v
    if v is None or isinstance(v, bool):
        return M.Symbol(str(v))
    for py, model in ((int, M.Integer), (float, M.Float), (complex, M.Complex), (str, M.String),
                      (bytes, M.Bytes)):
        if isinstance(v, py):
            return model(v)
    if isinstance(v, dict):
        return M.Dict([promote(x) for kv in v.items() for x in kv])
    for py, model in ((list, M.List), (tuple, M.Tuple), (set, M.Set)):
        if isinstance(v, py):
            return model([promote(x) for x in v])
    raise TypeError(f"not representable: {type(v).__name__}")


def head(form):
    import hy.models as M
    if isinstance(form, M.Expression) and form and type(form[0]) is M.Symbol:
        h = str(form[0]).replace("_", "-")
        return h if h in ("unquote", "unquote-splice", "quasiquote", "quote") else None


def ev(form, env):
    """The value of a level-0 unquote argument (names, literals, displays, quotes)."""
    import hy.models as M
    if type(form) is M.Symbol:
        return {"None": None, "True": True, "False": False}[str(form)] if str(form) in (
            "None", "True", "False") else env[str(form)]
    if head(form) == "quote":
        return form[1]
    if head(form) == "quasiquote":
        return qq(form[1], 0, env)[0]
    if type(form) is M.List:
        return [ev(x, env) for x in form]
    for model, py in ((M.Integer, int), (M.Float, float), (M.Complex, complex), (M.String, str),
                      (M.Bytes, bytes)):
        if type(form) is model:
            return py(form)
    return form     # keywords evaluate to themselves


def qq(form, level, env):
    """Reference expansion: the list of models `form` contributes to its parent."""
    import hy.models as M
    h = head(form)
    if h in ("unquote", "unquote-splice"):
        if level == 0:
            if len(form) != 2:
                raise Arity(h)
            v = ev(form[1], env)
            return [promote(v)] if h == "unquote" else [promote(x) for x in (v or [])]
        level -= 1
    elif h == "quasiquote":
        level += 1
    if isinstance(form, M.Sequence):
        kids = [y for x in form for y in qq(x, level, env)]
        if isinstance(form, M.FString):
            return [M.FString(kids, brackets=form.brackets, is_tstring=form.is_tstring)]
        if isinstance(form, M.FComponent):
            return [M.FComponent(kids, conversion=form.conversion, expression=form.expression,
                                 is_tstring=form.is_tstring)]
        return [type(form)(kids)]
    return [form]


# ------------------------------------------------------------------ generator

VALUES = [
    {"p": "int", "v": 5}, {"p": "int", "v": 0}, {"p": "int", "v": -3}, {"p": "float", "v": "2.5"},
    {"p": "float", "v": "nan"}, {"p": "float", "v": "-inf"}, {"p": "float", "v": "0.0"},
    {"p": "complex", "v": ["1.0", "-2.0"]}, {"p": "str", "v": "ab"}, {"p": "str", "v": ""},
    {"p": "str", "v": "{x}\n"}, {"p": "bytes", "v": "xy"}, {"p": "bytes", "v": ""},
    {"p": "none"}, {"p": "bool", "v": True}, {"p": "bool", "v": False},
]
UQ_SPELL = ["unquote", "unquote", "unquote"]
SPLICE_SPELL = ["unquote-splice", "unquote-splice", "unquote_splice"]


def gen_value(rng, depth=2, splice=False):
    """JSON description of a Python value. splice=True: an iterable or a false value."""
    r = rng.random()
    if depth > 0 and (splice or r < 0.45):
        k = rng.choice(["list", "list", "tuple", "dict", "model", "set"]
                       + (["gen", "gen", "str", "bytes", "falsy", "falsy"] if splice else []))
        n = rng.choice([0, 1, 2, 2, 3])
        if k == "falsy":
            return rng.choice([{"p": "none"}, {"p": "int", "v": 0}, {"p": "bool", "v": False},
                               {"p": "str", "v": ""}, {"p": "float", "v": "0.0"},
                               {"p": "model", "m": {"t": "List", "c": []}}, {"p": "tuple", "v": []}])
        if k == "str":
            return {"p": "str", "v": rng.choice(["ab", "x", "q r"])}
        if k == "bytes":
            return {"p": "bytes", "v": rng.choice(["ab", "\x00"])}
        if k == "model":
            m = G.gen_ir(rng, 1, "any", rng.choice(["seq", "atom", "fstring"]))
            if splice and "c" not in m:
                m = {"t": rng.choice(["List", "Expr", "Tuple"]), "c": [m]}
            return {"p": "model", "m": m}
        if k == "dict":
            return {"p": "dict", "v": [[gen_value(rng, 0), gen_value(rng, depth - 1)] for _ in range(n)]}
        if k == "set":
            return {"p": "set", "v": [{"p": "int", "v": x} for x in rng.sample(range(9), n)]}
        return {"p": k, "v": [gen_value(rng, depth - 1) for _ in range(n)]}
    if r < 0.6:
        return {"p": "model", "m": G.gen_atom(rng, "readable")}
    return rng.choice(VALUES)


def dec_value(j):
    import hy.models as M
    p = j["p"]
    if p in ("int", "bool", "str"):
        return j["v"]
    if p == "none":
        return None
    if p == "float":
        return float(j["v"])
    if p == "complex":
        return complex(float(j["v"][0]), float(j["v"][1]))
    if p == "bytes":
        return j["v"].encode("latin-1")
    if p == "model":
        return G.dec(j["m"])
    if p == "dict":
        out = {}
        for k, v in j["v"]:
            k = dec_value(k)
            try:
                hash(k)
            except TypeError:
                k = repr(k)
            if k != k:          # NaN keys make dict order/equality murky
                k = "nan"
            out[k] = dec_value(v)
        return out
    vals = [dec_value(x) for x in j["v"]]
    if p == "list":
        return vals
    if p == "tuple":
        return tuple(vals)
    if p == "set":
        return set(vals)
    if p == "gen":
        return (x for x in vals)
    raise ValueError(p)


SAFE_HEADS = ["f", "a", "setv", "+", "foo-bar", "do", "None", "hy"]


class TGen:
    def __init__(self, rng):
        self.rng = rng
        self.env = {}
        self.feat = set()
        self.under = 0          # > 0 while generating beneath an FString/FComponent template node

    def var(self, splice):
        name = "v%d" % len(self.env)
        self.env[name] = gen_value(self.rng, 2, splice)
        return G.sym(name)

    def arg0(self, splice, depth):
        """A level-0 unquote argument: code whose value the reference can compute."""
        rng, r = self.rng, self.rng.random()
        if self.under and rng.random() < 0.25:
            # unquoted code that itself holds FComponent models, beneath an f-string template
            self.feat.add("arg:fcomponent-in-code")
            fs = {"t": "FStr", "b": rng.choice([None, None, "f"]), "ts": rng.random() < 0.3,
                  "c": [{"t": "FComp", "c": [G.gen_sym(rng, "plain")] + (
                            [{"t": "Str", "v": rng.choice([">5", "x", "^"]), "b": None}] if rng.random() < 0.3 else []),
                         "conv": rng.choice([None, "r", "s", "a"]), "expr": rng.choice([None, "e"]),
                         "ts": rng.random() < 0.3} for _ in range(rng.choice([1, 1, 2]))]}
            k = rng.randrange(3)
            if k == 0 and not splice:
                return G.expr(G.sym("quote"), fs)
            if k == 1 and not splice:
                return G.expr(G.sym("quasiquote"), fs)
            return {"t": "List", "c": [G.expr(G.sym("quote"), fs)] + ([self.var(False)] if rng.random() < 0.3 else [])}
        if r < 0.7:
            return self.var(splice)
        if r < 0.8:
            self.feat.add("arg:list-display")
            return {"t": "List", "c": [self.var(False) if rng.random() < 0.6 else
                                       rng.choice([{"t": "Int", "v": "7"}, {"t": "Str", "v": "s", "b": None},
                                                   G.sym("None"), {"t": "Kw", "v": "k"}])
                                       for _ in range(rng.choice([0, 1, 2]))]}
        if r < 0.9:
            self.feat.add("arg:nested-quasiquote")
            # a *spliced* value is never an FString built by a nested quasiquote: FString joins
            # adjacent String children when constructed, so the number of elements the splice
            # sees would depend on when plain strings are promoted, which Hy leaves open
            return G.expr(G.sym("quasiquote"), self.seq(depth - 1, 0, no_fstr=splice))
        if splice:
            self.feat.add("arg:quoted-seq")
            return G.expr(G.sym("quote"), {"t": rng.choice(["List", "Expr"]),
                                           "c": [G.gen_atom(rng) for _ in range(rng.choice([0, 1, 2]))]})
        self.feat.add("arg:literal")
        return rng.choice([{"t": "Int", "v": "5"}, {"t": "Float", "v": "nan"}, {"t": "Str", "v": "lit", "b": None},
                           G.sym("True"), G.sym("None"), {"t": "Kw", "v": "kw"}, {"t": "Bytes", "v": "b"},
                           G.expr(G.sym("quote"), G.gen_ir(rng, 1, "readable"))])

    def node(self, depth, level, in_seq):
        rng, r = self.rng, self.rng.random()
        if depth <= 0:
            r = 0.3 + r * 0.7 if level else r
        if r < 0.2 or (depth <= 0 and r < 0.45):
            self.feat.add("unquote@%d" % level)
            h = G.sym(rng.choice(UQ_SPELL))
            if level == 0:
                return G.expr(h, self.arg0(False, depth))
            if level - 1 == 0:
                self.feat.add("return-to-level-0")
            return G.expr(h, self.node(depth - 1, level - 1, True))
        if r < 0.33 and in_seq:
            self.feat.add("splice@%d" % level)
            h = G.sym(rng.choice(SPLICE_SPELL))
            if "_" in h["v"]:
                self.feat.add("underscore-spelling")
            if level == 0:
                return G.expr(h, self.arg0(True, depth))
            if level - 1 == 0:
                self.feat.add("return-to-level-0")
            return G.expr(h, self.node(depth - 1, level - 1, True))
        if depth <= 0:
            a = G.gen_atom(rng, "readable")
            return a
        if r < 0.42 and level < 3:
            self.feat.add("nested-quasiquote")
            return G.expr(G.sym("quasiquote"), self.node(depth - 1, level + 1, True))
        if r < 0.47:
            self.feat.add("quote-wrapper")
            return G.expr(G.sym("quote"), self.node(depth - 1, level, True))
        return self.seq(depth, level)

    def seq(self, depth, level, no_fstr=False):
        rng = self.rng
        t = rng.choice(["Expr", "Expr", "List", "Tuple", "Set", "Dict", "FComp", "FComp"]
                       + ([] if no_fstr else ["FStr", "FStr"]))
        n = rng.choice([0, 1, 2, 2, 3, 4])
        self.under += t in ("FStr", "FComp")
        kids = [self.node(depth - 1, level, True) for _ in range(n)]
        self.under -= t in ("FStr", "FComp")
        self.feat.add("in:" + t)
        if t == "Expr":
            if rng.random() < 0.7:
                kids.insert(0, G.sym(rng.choice(SAFE_HEADS)))
            elif kids and kids[0]["t"] == "Sym" and kids[0]["v"].replace("_", "-") in G.QQ_HEADS:
                kids.insert(0, G.sym("f"))     # never an accidental quoting form
            return {"t": t, "c": kids}
        if t == "FStr":
            return {"t": t, "c": kids, "b": rng.choice([None, None, "f", "f-x", ""]),
                    "ts": rng.random() < 0.2}
        if t == "FComp":
            return {"t": t, "c": kids, "conv": rng.choice([None, "r", "s", "z"]),
                    "expr": rng.choice([None, "", "x y"]), "ts": rng.random() < 0.2}
        return {"t": t, "c": kids}


def scan_feats(j, level=0, out=None, sp=0):
    """Input classes a template (IR) actually reaches, by the level rule. `sp` is the highest
    level at which an unquote-splice operator was passed on the way down to this node."""
    out = set() if out is None else out
    h = None
    if j["t"] == "Expr" and j["c"] and j["c"][0]["t"] == "Sym":
        h = j["c"][0]["v"].replace("_", "-")
    if h in ("unquote", "unquote-splice"):
        out.add(("splice@%d" if h.endswith("splice") else "unquote@%d") % level)
        if level == 0:
            if sp >= 2:
                out.add("splice@>=2-reaching-level-0")
            return out
        if h.endswith("splice"):
            sp = max(sp, level)
        level -= 1
        if level == 0:
            out.add("return-to-level-0")
    elif h == "quasiquote":
        out.add("nested-quasiquote")
        if level + 1 >= 3:
            out.add("quasiquote-level>=3")
        level += 1
    if "c" in j:
        out.add("in:" + j["t"])
    for c in j.get("c", ()):
        scan_feats(c, level, out, sp)
    return out


def _arity_break(rng, tmpl):
    """Give one level-0 unquote the wrong number of arguments."""
    sites = []

    def scan(j, level, path):
        h = None
        if j["t"] == "Expr" and j["c"] and j["c"][0]["t"] == "Sym":
            h = j["c"][0]["v"].replace("_", "-")
        if h in ("unquote", "unquote-splice"):
            if level == 0:
                sites.append(path)
                return
            level -= 1
        elif h == "quasiquote":
            level += 1
        for i, c in enumerate(j.get("c", ())):
            scan(c, level, path + [i])
    scan(tmpl, 0, [])
    if not sites:
        return None
    path = rng.choice(sites)

    def edit(j, p):
        if not p:
            extra = [] if rng.random() < 0.5 else j["c"][1:] + [G.sym("extra")]
            return dict(j, c=j["c"][:1] + extra)
        return dict(j, c=[edit(c, p[1:]) if i == p[0] else c for i, c in enumerate(j["c"])])
    return edit(tmpl, path)


# Deterministic regression inputs for the repaired mechanism (known_findings.json, status fixed):
# FComponent models inside unquoted code beneath an FString/FComponent template keep their
# conversion / expression / is_tstring. (text, env)
_Y = "'f\"{y !r}\""
REGRESS = {
    "fcomponent-attrs-clobbered-in-unquote": [
        ('f"{~' + _Y + '}"', {}), ('f"{~`f"{y !r}"}"', {}), ('f"{~[' + _Y.replace("!r", "!s") + '] !r}"', {}),
        ('t"{~' + _Y + '}"', {}), ('f"a{~\'f"{y :>{w}}" !s :{~\'f"{z !a}"}}"', {}),
        ('#[f[{~' + _Y + '}]f]', {}), ('[f"{~' + _Y + '}" 1]', {}), ('f"{(f ~' + _Y + ' 2)}"', {}),
        ('f"{~@[' + _Y + ' \'f"{z !s}"]}"', {}), ('f"{x !r}{~\'t"{y}"}"', {}),
        ('f"{~`f"{~v0 !r}"}"', {"v0": {"p": "int", "v": 5}}), ('f"{\'~' + _Y + '}"', {}),
        ('`f"{~~' + _Y + '}"', {}), ('f"{~' + _Y + ' !a}{~`f"{q !s :{~v0}}"}"', {"v0": {"p": "str", "v": ">4"}}),
        ('f"{~' + _Y + ' = }"', {}), ('{f"{~' + _Y + '}" f"{~\'f"{y = }"}"}', {}),
    ],
}
REGRESS_TOTAL = {k: len(v) for k, v in REGRESS.items()}


def gate(tot, classes, extra, tier):
    missing = [k for k, n in REGRESS_TOTAL.items() if classes.get("regress:" + k, 0) < n]
    if missing:
        return "regression-inputs-did-not-all-run:" + ",".join(missing)
    if not classes.get("splice@>=2-reaching-level-0"):
        return "no-case-with-a-splice-at-level>=2-that-reaches-level-0"


def chain_cases():
    """Deterministic part: N = 1..3 nested quasiquotes inside the template (levels 1..3) and every
    chain of N+1 unquote / unquote-splice operators, in every order, that returns to level 0
    (~@~~x, ~~@~x, ~~~@x, ~@~@~x ...), in each sequence kind, long form and sugar."""
    import itertools
    import random
    kinds = ["Expr", "List", "Tuple", "Set", "Dict", "FComp", "FStr"]
    n = 0
    for depth in (1, 2, 3):
        for ops in itertools.product(("unquote", "unquote-splice"), repeat=depth + 1):
            for variant in range(4):
                n += 1
                rng = random.Random(f"chain:{n}")
                last_splice = ops[-1] == "unquote-splice"
                env = {"v0": gen_value(rng, 1, last_splice) if variant else
                       ({"p": "list", "v": [{"p": "int", "v": 1}, {"p": "str", "v": "s"}]} if last_splice
                        else {"p": "int", "v": 7})}
                form = G.sym("v0")
                for i, op in enumerate(reversed(ops)):
                    name = "unquote_splice" if op == "unquote-splice" and (n + i) % 5 == 0 else op
                    form = G.expr(G.sym(name), form)
                k1, k2 = kinds[(n + variant) % len(kinds)], kinds[(n // 2 + 3 * variant) % len(kinds)]

                def box(kind, kids):
                    if kind == "Expr":
                        return G.expr(G.sym("c"), *kids)
                    if kind == "FComp":
                        return {"t": "FComp", "c": kids, "conv": "r", "expr": "e", "ts": False}
                    if kind == "FStr":
                        return {"t": "FStr", "c": kids, "b": None, "ts": False}
                    return {"t": kind, "c": kids}
                inner = box(k1, [G.sym("a"), form, {"t": "Int", "v": "2"}][: 3 if variant % 2 else 2][::-1 if variant == 2 else 1])
                for _ in range(depth):
                    inner = G.expr(G.sym("quasiquote"), inner)
                tmpl = box(k2, [{"t": "Kw", "v": "k"}, inner]) if variant != 3 else inner
                case = {"tmpl": tmpl, "env": env, "feat": ["chain:depth%d" % (depth + 1)]}
                yield case
                try:
                    yield dict(case, text=G.to_text(tmpl, random.Random(f"chainsp:{n}")))
                except G.Unprintable:
                    pass


def cases(seed, tier, shard, nshards):
    n = 0
    for key, items in REGRESS.items():
        for text, env in items:
            n += 1
            if n % nshards == shard:
                yield {"tmpl": None, "text": text, "env": env, "regress": key}
    for n, case in enumerate(chain_cases()):
        if n % nshards == shard:
            yield case
    i = 0
    while True:
        rng = rng_for(seed, ID, shard, i)
        i += 1
        g = TGen(rng)
        depth = rng.choice([1, 2, 2, 3, 3, 4])
        tmpl = g.seq(depth, 0) if rng.random() < 0.9 else g.node(depth, 0, False)
        case = {"tmpl": tmpl, "env": g.env, "feat": sorted(g.feat)}
        k = i % 10
        if k == 0:
            broken = _arity_break(rng, tmpl)
            if broken is not None:
                case.update(tmpl=broken, arity=True)
        elif k in (1, 2):
            # the same template spelled as source text (sugar ~ ~@ ` ' etc.) and read back
            try:
                case["text"] = G.to_text(tmpl, rng)
            except G.Unprintable:
                pass
        yield case


def judge(tmpl, env_json):
    """Run hy and the reference on one template. Returns (status, why, tags):
    status True = agree, False = violation, None = not constrained (skip)."""
    import hy
    import hy.models as M
    from hy.errors import HyError
    env_h = {k: dec_value(v) for k, v in env_json.items()}
    env_r = {k: dec_value(v) for k, v in env_json.items()}
    for k, v in env_h.items():          # share everything but one-shot generators
        if not isinstance(v, types.GeneratorType):
            env_r[k] = v
    try:
        r = qq(tmpl, 0, env_r)
        if len(r) != 1:
            return None, None, ["skip:top-level-splice"]
        exp, exp_exc = r[0], None
    except Arity as e:
        exp, exp_exc = None, e
    except (TypeError, ValueError):
        # e.g. FString(brackets=...) refusing a spliced string: not a property of quasiquote
        return None, None, ["skip:reference-constructor-refused"]
    try:
        got = hy.eval(M.Expression([M.Symbol("quasiquote"), tmpl]), locals=env_h, module=_mod())
        got_exc = None
    except Exception as e:
        got, got_exc = None, e
    if not _state["patched"]:
        _state["events"] += 1
    if exp_exc is not None:
        # A level-0 unquote with a wrong number of arguments has no reference result; the
        # statement does not say what must happen, so the outcome is only recorded.
        outcome = "accepted" if got_exc is None else (
            ("hy-error:" if isinstance(got_exc, HyError) else "other-error:") + type(got_exc).__name__)
        return None, None, ["observed:wrong-arity-unquote:" + outcome]
    if got_exc is not None:
        return False, (f"quasiquote raised {type(got_exc).__name__}: {str(got_exc)[:500]}; "
                       f"reference gives {exp!r}")[:1200], []
    try:
        got_p = promote(got)
    except TypeError as e:
        return False, f"result holds a non-representable value: {e}", []
    tags = ["result-held-unpromoted-values"] if same_model(got, got_p, attrs=MODEL_ATTRS) else []
    d = same_model(exp, got_p, attrs=MODEL_ATTRS)
    if d:
        return False, f"differs from the reference at {d}: got {got!r} expected {exp!r}"[:1500], tags
    return True, None, tags


# --- mechanism attribution ---------------------------------------------------

def _clobber(j, level=0, under=False, fix=False, found=None):
    """FComponent nodes inside a level-0 unquote argument that sits beneath an
    FString/FComponent template node. fix=True: rewrite them as Lists."""
    h = None
    if j["t"] == "Expr" and j["c"] and j["c"][0]["t"] == "Sym":
        h = j["c"][0]["v"].replace("_", "-")
    if h in ("unquote", "unquote-splice"):
        if level == 0:
            if not under:
                # the argument is code; a (quasiquote T) in it is a template of its own
                code = lambda c: dict(c, c=[c["c"][0], _clobber(c["c"][1], 0, False, fix, found)]) \
                    if c["t"] == "Expr" and len(c["c"]) == 2 and c["c"][0] == G.sym("quasiquote") else c
                return dict(j, c=j["c"][:1] + [code(c) for c in j["c"][1:]])
            if found is not None:
                found.extend(n for c in j["c"][1:] for n, _, _ in G.walk(c) if n["t"] == "FComp")
            if fix:
                strip = lambda n: {"t": "List", "c": n["c"]} if n["t"] == "FComp" else n
                return dict(j, c=j["c"][:1] + [G.map_ir(c, strip) for c in j["c"][1:]])
            return j
        level -= 1
    elif h == "quasiquote":
        level += 1
    if "c" in j:
        u = under or j["t"] in ("FStr", "FComp")
        return dict(j, c=[_clobber(c, level, u, fix, found) for c in j["c"]])
    return j


def _has_clobber(ir):
    found = []
    _clobber(ir, found=found)
    return bool(found)


def _splices_fstring(j, level=0):
    """A level-0 ~@ whose argument is a nested quasiquote of an FString (not constrained, see
    ASSUMPTIONS)."""
    h = None
    if j["t"] == "Expr" and j["c"] and j["c"][0]["t"] == "Sym":
        h = j["c"][0]["v"].replace("_", "-")
    if h in ("unquote", "unquote-splice"):
        if level == 0:
            for c in j["c"][1:]:
                if c["t"] == "Expr" and len(c["c"]) == 2 and c["c"][0] == G.sym("quasiquote"):
                    if (h == "unquote-splice" and c["c"][1]["t"] == "FStr") or _splices_fstring(c["c"][1], 0):
                        return True
            return False
        level -= 1
    elif h == "quasiquote":
        level += 1
    return any(_splices_fstring(c, level) for c in j.get("c", ()))


NORMALISERS = [
    ("fcomponent-attrs-clobbered-in-unquote", _has_clobber, lambda ir: _clobber(ir, fix=True)),
]


def run_case(case):
    import hy
    ev0 = _state["events"]
    classes = ["regress:" + case["regress"]] if "regress" in case else []
    if "text" in case:
        try:
            tmpl = hy.read(case["text"])
        except Exception:
            return {"ok": None, "classes": ["skip:generated-text-unreadable"]}
        classes.append("kind:text")
        if "regress" in case and not _has_clobber(G.enc(tmpl)):
            return {"ok": None, "classes": ["skip:regression-input-lost-its-shape"]}
    else:
        try:
            tmpl = G.dec(case["tmpl"])
        except ValueError:
            return {"ok": None, "classes": ["skip:constructor-refused"]}
        classes.append("kind:ir")
    ir = G.enc(tmpl)
    feat = scan_feats(ir) | {f for f in case.get("feat", ()) if f.startswith(("arg:", "chain:"))
                             or f in ("underscore-spelling", "quote-wrapper")}
    classes += sorted(feat)
    if _splices_fstring(ir):
        return {"ok": None, "classes": ["skip:splice-of-nested-quasiquoted-fstring"]}
    status, why, tags = judge(tmpl, case["env"])
    classes += tags
    if status is None:
        return {"ok": None, "classes": classes}
    res = {"ok": status, "classes": classes,
           "nontrivial": any(f.startswith("splice@") or f == "nested-quasiquote" for f in feat),
           "sample": {"template": case.get("text") or repr(tmpl)[:400].replace("\n", " "),
                      "env": {k: json.dumps(v)[:80] for k, v in case["env"].items()}}}
    if status is False:
        res["why"] = why
        key, causes = G.attribute(ir, lambda j: judge(G.dec(j), case["env"])[0] is False, NORMALISERS, ID)
        if key:
            res["finding"] = key
            res["why"] += f" [mechanisms: {', '.join(causes)}]"
            classes.append("finding:" + key)
    res["events"] = _state["events"] - ev0
    return res


def finish_worker():
    return {"render_quoted_form_counter_attached": bool(_state["patched"])}
