"""C12 — compiler-introduced names are reserved and never clash.

History observed per program: the compiled AST (every identifier position), the
module namespace after the run (sentinels pre-bound to near-miss names), value /
final variables / effect trace / escaping exception of the run.

Oracles
  static   every identifier of the AST that is not a (mangled) name of the source is `hy` or
           starts with `_hy_`; attribute names must occur in the source unless the chain is
           rooted at the name `hy`; no two `_hy_`-named function definitions of one
           compilation unit share a name (own corpora only).
  dynamic  sentinels bound to pool names the source never mentions are intact after the run;
           the run with hostile user names behaves like the run with benign names
           (alpha-renaming invariance: value, final variables, trace, exception type);
           gen_prog programs and the nested-same-name `let` programs are also compared with
           their reference (interpreter / closed form) - a mismatch is a C12 violation only
           when it depends on the user names or when the secondary monitor saw the compiler
           issue one temporary name twice (otherwise it is C01/C06's subject and is skipped).
  secondary (skipped if the method is gone) every `HyASTCompiler.get_anon_var` return value
           and every `ScopeLet.add` fresh name of one compiler instance is distinct.
"""
import ast

from hv import gen_prog as G
from hv import outgen as O
from hv.common import Trace, exec_hy, rng_for, same_value

ID = "C12"
LEVEL = "exploration"
RULE = ("four corpora, user names drawn from a hostile near-miss pool (anon_1 _anon_1 hy_anon_1 let_x_1 exc_e_1 "
        "local_macro__m, let_<user name>_<k> ..., never starting with _hy_), all pool names pre-bound to sentinels: "
        "(a) gen_prog programs, injectively renamed, module and function mode; (b) template programs over with/try/"
        "let/match/lfor-sfor-dfor-gfor (incl. clause-less and #** forms)/while/fn/defn/defclass/local macros/import :as/"
        "nonlocal-global/assert/chainc/require, rendered with hostile and with benign names, with two user variables that "
        "are bound once and only read afterwards and `with ... as v` variables read right after the form (closed-form "
        "expected values); (c) nested lets binding "
        "one hostile name with a closed-form trace, and chains of 10-45 simultaneously live let / except bindings in "
        "one unit with digit-suffixed user names chosen so that name+serial of one temporary reads like another's "
        "(total1 as no. 1 and total as no. 11), each variable logged at the end (closed form), and single lets that bind "
        "one name 2-4 times (also through unpacking targets) with closures and reads between the bindings, and try "
        "forms nested 2-3 deep inside except handlers that bind the same (or a different) handler variable, the inner "
        "handler firing or not, each outer handler reading its variable before and after the inner try; (d) the let/comprehension/nonlocal/match sources of the C04 C06 "
        "C07 C08 generators when importable (static oracle only). Non-trivial = the compiled AST contains >= 2 "
        "distinct _hy_ names; distinct by program text.")
FLOOR = {"quick": 400, "thorough": 1000}
BUDGET = {"quick": 24, "thorough": 480}
CASE_TIMEOUT = 20
NEEDS_EVENTS = True
ANCHORS = ["hy.compiler:HyASTCompiler.get_anon_var", "hy.scoping:ScopeLet.add", "hy.macros:local_macro_name",
           "hy.compiler:Result.rename", "hy.core.result_macros:compile_with_expression",
           "hy.core.result_macros:compile_match_expression", "hy.core.result_macros:compile_comprehension"]
ASSUMPTIONS = [
    "a program's own names are the symbols (split at dots) and keywords of its source, mangled",
    "an injective renaming of user variables (no dunder-leading names, no builtins) preserves a program's meaning",
    "the reference interpreter of hv/gen_prog.py and the closed form of the nested-let programs encode the "
    "documented semantics (used only to detect, never alone to attribute a C12 violation)",
]
MANIFEST = {
    "text": "Programs over every construct that makes the compiler invent a name are compiled with user names chosen "
            "as near-misses of the compiler's own names and all near-miss names pre-bound to sentinels. Every "
            "identifier position of the emitted AST is checked against the source's own names, the namespace is "
            "checked for clobbered sentinels, and each run is compared with the same program under benign names. "
            "Exploration level: held on the programs run.",
    "note": "Trusted: the mangling function for computing the source's names; alpha-renaming invariance. Secondary "
            "monitor on get_anon_var / ScopeLet.add only attributes, it never decides. The premise excludes user "
            "names starting with _hy_. Documented implicit names of defreader (&reader, &key) and export (__all__) "
            "are outside the workload.",
    "technique": "runtime monitoring: AST identifier census vs source names + sentinel namespace + alpha-renaming "
                 "differential, per-compiler uniqueness monitor on issued temporaries",
}

KEY_GFOR = "empty-gfor-underscore-variable"
KEY_SFOR = "empty-sfor-dunder-class-attribute"
KEY_ITEMS = "dfor-unpack-mapping-items-attribute"
KEY_DEBUG = "assert-with-statements-debug-name"


# ---------------------------------------------------------------------------
# secondary monitor: names issued per compiler instance

_LOG = {}
_MON = {"installed": False, "anon": False, "let": False, "anon_calls": 0, "let_calls": 0, "dups": 0}


def install_monitor():
    if _MON["installed"]:
        return
    _MON["installed"] = True
    try:
        from hy.compiler import HyASTCompiler
        orig = HyASTCompiler.get_anon_var

        def get_anon_var(self, *a, **kw):
            r = orig(self, *a, **kw)
            _LOG.setdefault(id(self), {"anon": [], "let": []})["anon"].append(r)
            _MON["anon_calls"] += 1
            return r
        HyASTCompiler.get_anon_var = get_anon_var
        _MON["anon"] = True
    except Exception:
        pass
    try:
        from hy.scoping import ScopeLet
        from hy.models import Symbol
        orig_add = ScopeLet.add

        def add(self, target, new_name=None):
            r = orig_add(self, target, new_name)
            if isinstance(target, (str, Symbol)) and new_name is None:
                _LOG.setdefault(id(self.compiler), {"anon": [], "let": []})["let"].append(str(r))
                _MON["let_calls"] += 1
            return r
        ScopeLet.add = add
        _MON["let"] = True
    except Exception:
        pass


def issued_duplicates():
    """names issued twice by one compiler instance since the last reset"""
    out = []
    for log in _LOG.values():
        for kind in ("anon", "let"):
            seen = set()
            for n in log[kind]:
                if n in seen:
                    out.append(n)
                seen.add(n)
    return out


def setup_worker(tier, seed):
    install_monitor()


def finish_worker():
    return {"secondary_monitor": {"get_anon_var_wrapped": _MON["anon"], "ScopeLet_add_wrapped": _MON["let"],
                                  "get_anon_var_calls": _MON["anon_calls"], "ScopeLet_add_calls": _MON["let_calls"],
                                  "duplicate_issues": _MON["dups"]},
            "unattributed_reference_mismatches": _MON.get("unattributed", 0)}


# ---------------------------------------------------------------------------
# cases

def cases(seed, tier, shard, nshards):
    i = 0
    foreign = O.foreign_texts(seed, shard, nshards)
    depth = 4 if tier == "quick" else 5
    while True:
        rng = rng_for(seed, ID, shard, i)
        i += 1
        r = i % 10
        if r in (0, 1, 2, 3):
            prog = G.gen_program(rng, max_depth=rng.choice([3, 4, depth]), max_nodes=rng.choice([25, 40, 60]))
            mode = "module" if rng.random() < 0.65 else "fn"
            use = rng.random() < 0.8
            orig = G.render_program(prog, mode, use)
            text, mp = O.rename_gen_prog(orig, rng, "hostile")
            yield {"kind": "prog", "prog": prog, "mode": mode, "use": use, "orig": orig, "text": text,
                   "watch": watch_names(rng, list(mp.values()))}
        elif r in (4, 5, 6, 7):
            t = O.gen_template(rng, max_depth=rng.choice([2, 3, 3]), budget=rng.choice([14, 22, 30]))
            names = O.pick_names(rng, t["n"], "hostile")
            yield {"kind": "tmpl", "tmpl": t["tmpl"], "names": names, "feats": t["feats"],
                   "keep": t["keep"], "inv": t["inv"],
                   "text": O.subst(t["tmpl"], names), "watch": watch_names(rng, names)}
        elif r == 8 and i % 20 == 8:
            tmpl, names, exp, variant = O.digit_program(rng)
            yield {"kind": "shadow", "tmpl": tmpl, "names": names, "exp": exp, "text": O.subst(tmpl, names),
                   "feats": ["digit-suffixed-names", "digits-" + variant], "watch": watch_names(rng, names[:3])}
        elif r == 8 and i % 40 == 38:
            tmpl, n, exp = O.nested_except_program(rng)
            names = O.pick_names(rng, n, "hostile")
            yield {"kind": "shadow", "tmpl": tmpl, "names": names, "exp": exp, "text": O.subst(tmpl, names),
                   "feats": ["try-nested-in-except-handler"], "watch": watch_names(rng, names[:3])}
        elif r == 8 and i % 20 == 18 and i % 40 == 18:
            tmpl, n, exp = O.rebind_program(rng)
            names = O.pick_names(rng, n, "hostile")
            yield {"kind": "shadow", "tmpl": tmpl, "names": names, "exp": exp, "text": O.subst(tmpl, names),
                   "feats": ["rebinding-in-one-let"], "watch": watch_names(rng, names[:3])}
        elif r == 8:
            tmpl, exp = O.shadow_program(rng)
            names = O.pick_names(rng, 1, "hostile")
            yield {"kind": "shadow", "tmpl": tmpl, "names": names, "exp": exp, "text": O.subst(tmpl, names),
                   "watch": watch_names(rng, names)}
        else:
            try:
                origin, text = next(foreign)
            except StopIteration:
                continue
            yield {"kind": "foreign", "origin": origin, "text": text, "watch": watch_names(rng, ["x", "a"])}


def watch_names(rng, used):
    w = list(O.NEARMISS) + O.derived(used or ["x"], rng, 8)
    return O.injective(w)


def case_key(case):
    return [case["kind"], case["text"]]


# ---------------------------------------------------------------------------
# oracles

class Sentinel:
    def __init__(self, n):
        self.n = n

    def __repr__(self):
        return f"<sentinel {self.n}>"


def known_shape_nodes(tree):
    """AST nodes of the exact shapes the compiler emits for the recorded literal-reading
    findings -> {key: set of node ids whose identifiers are excused when normalising}."""
    out = {KEY_GFOR: set(), KEY_SFOR: set(), KEY_ITEMS: set(), KEY_DEBUG: set()}
    for node in ast.walk(tree):
        if (isinstance(node, ast.GeneratorExp) and isinstance(node.elt, ast.Name) and node.elt.id == "_"
                and len(node.generators) == 1 and isinstance(node.generators[0].target, ast.Name)
                and node.generators[0].target.id == "_" and isinstance(node.generators[0].iter, ast.List)
                and not node.generators[0].iter.elts and not node.generators[0].ifs):
            out[KEY_GFOR].update({id(node.elt), id(node.generators[0].target)})
        if (isinstance(node, ast.Call) and not node.args and not node.keywords
                and isinstance(node.func, ast.Attribute) and node.func.attr == "__class__"
                and isinstance(node.func.value, ast.Set) and len(node.func.value.elts) == 1
                and isinstance(node.func.value.elts[0], ast.Constant) and node.func.value.elts[0].value == 1):
            out[KEY_SFOR].add(id(node.func))
        if (isinstance(node, ast.For) and isinstance(node.target, ast.Name) and node.target.id.startswith("_hy_")
                and isinstance(node.iter, ast.Call) and not node.iter.args and not node.iter.keywords
                and isinstance(node.iter.func, ast.Attribute) and node.iter.func.attr == "items"):
            out[KEY_ITEMS].add(id(node.iter.func))
        if isinstance(node, ast.If) and isinstance(node.test, ast.Name) and node.test.id == "__debug__":
            out[KEY_DEBUG].add(id(node.test))
    return out


def foreign_identifiers(tree, src, excused=()):
    """identifiers of the AST that are neither of the source nor reserved; returns [(cat, name)]"""
    bad = []

    def ok(n):
        return n in src or n == "hy" or n.startswith("_hy_")
    for node in ast.walk(tree):
        if id(node) in excused:
            continue
        if isinstance(node, ast.Name):
            ids = [("name", node.id)]
        elif isinstance(node, ast.arg):
            ids = [("arg", node.arg)]
        elif isinstance(node, (ast.FunctionDef, ast.AsyncFunctionDef, ast.ClassDef)):
            ids = [("def", node.name)]
        elif isinstance(node, ast.alias):
            ids = [("alias", node.asname)] if node.asname else \
                ([("alias", node.name.split(".")[0])] if node.name != "*" else [])
        elif isinstance(node, ast.ExceptHandler):
            ids = [("handler", node.name)] if node.name else []
        elif isinstance(node, (ast.Global, ast.Nonlocal)):
            ids = [("decl", n) for n in node.names]
        elif isinstance(node, (ast.MatchAs, ast.MatchStar)):
            ids = [("capture", node.name)] if node.name else []
        elif isinstance(node, ast.MatchMapping):
            ids = [("capture", node.rest)] if node.rest else []
        elif isinstance(node, ast.Attribute):
            ids = [] if O.is_hy_rooted(node.value) else [("attr", node.attr)]
        else:
            continue
        bad.extend(x for x in ids if not ok(x[1]))
    return bad


def duplicate_hy_defs(tree):
    seen, dup = set(), []
    for node in ast.walk(tree):
        if isinstance(node, (ast.FunctionDef, ast.AsyncFunctionDef)) and node.name.startswith("_hy_"):
            if node.name in seen:
                dup.append(node.name)
            seen.add(node.name)
    return dup


def run(text, watch, src):
    """compile+run under a trace logger with sentinels; returns observation dict"""
    _LOG.clear()
    tr = Trace()
    env = O.tmpl_env(tr)
    sent = {}
    for n in watch:
        k = O.mangle(n)
        if src is None or k not in src:
            sent[k] = env[k] = Sentinel(k)
    m, exc, tree, phase = exec_hy(text, env)
    dups = issued_duplicates()
    clobbered = [k for k, s in sent.items() if m.__dict__.get(k, None) is not s]
    return {"phase": phase, "exc": exc, "tree": tree, "events": tr.events, "mod": m,
            "dups": dups, "clobbered": clobbered, "nsent": len(sent)}


def obs_tuple(o):
    exc = o["exc"]
    et = None if exc is None else type(exc).__name__
    args = list(getattr(exc, "args", ())) if et in ("EA", "EB") else None
    d = o["mod"].__dict__
    return (o["phase"], et, args, o["events"], d.get("RESULT", "<unset>"), d.get("FINAL", "<unset>"))


def diff_obs(a, b):
    ta, tb = obs_tuple(a), obs_tuple(b)
    for name, x, y in zip(("phase", "exception type", "exception args", "trace", "RESULT", "FINAL"), ta, tb):
        if name in ("RESULT", "FINAL"):
            d = same_value(x, y) if not (callable(x) or callable(y)) else (None if type(x) is type(y) else "type")
            if d:
                return f"{name} differs: {d}"
        elif x != y:
            return f"{name} differs: {str(x)[:200]} vs {str(y)[:200]}"
    return None


def ref_mismatch_prog(case, o):
    """compare a gen_prog run with the reference interpreter; returns why or None / 'SKIP'"""
    try:
        ref = G.Interp().run(case["prog"])
    except G.Budget:
        return "SKIP"
    exc = o["exc"]
    if o["phase"] == "compile":
        return f"compilation failed: {type(exc).__name__}: {str(exc)[:200]}"
    got_exc = None if exc is None else [type(exc).__name__, list(getattr(exc, "args", ()))]
    if ref["exc"] is None and got_exc is not None:
        return f"escaping exception {got_exc} but reference completes with {ref['value']!r}"
    if ref["exc"] is not None and got_exc != ref["exc"]:
        return f"escaping exception {got_exc}, reference expects {ref['exc']}"
    ok, pos = G.accepts(ref["trace"], o["events"])
    if ok is None:
        return "SKIP"
    if not ok:
        return f"effect trace is not a linearisation of the reference order (first bad event #{pos})"
    if ref["exc"] is None:
        d = o["mod"].__dict__
        if case["use"]:
            dd = same_value(ref["value"], d.get("RESULT", "<unset>"))
            if dd:
                return f"result value differs from reference: {dd}"
        dd = same_value(ref["final"], d.get("FINAL", "<unset>"))
        if dd:
            return f"final variable values differ from reference: {dd}"
    return None


def closed_form(case, o):
    """user variables the program binds once and never assigns again keep their values; a
    `with ... as v` variable still holds the manager's value right after the form"""
    fin = o["mod"].__dict__.get("FINAL")
    if o["exc"] is None and isinstance(fin, list):
        for i, v in enumerate(case.get("keep", ())):
            if i >= len(fin) or type(fin[i]) is not int or fin[i] != v:
                return (f"user variable {case['names'][i]!r} is bound to {v} at the top and never assigned again, "
                        f"but holds {fin[i] if i < len(fin) else '<missing>'!r} at the end")
    inv = {k: tok for k, tok in case.get("inv", ())}
    for e in o["events"]:
        if e[0] in inv and e[1] != inv[e[0]]:
            return (f"`with` bound its `as` variable to {inv[e[0]][1]} but right after the form the variable "
                    f"holds {e[1]} (site {e[0]})")
    return None


def ref_mismatch_shadow(case, o):
    if o["exc"] is not None:
        return f"{o['phase']} raised {type(o['exc']).__name__}: {str(o['exc'])[:200]}"
    got = [e for e in o["events"] if isinstance(e[0], int)]
    if got != case["exp"]:
        return f"closed-form let program ({", ".join(case.get("feats", ["nested same-name lets"]))}): observed {got} expected {case["exp"]}"
    return None


def run_case(case):
    install_monitor()
    kind, text = case["kind"], case["text"]
    src = O.source_names(text)
    if src is None:
        return {"ok": None}
    o = run(text, case["watch"], src) if kind != "foreign" else compile_only(text)
    tree = o["tree"]
    classes = ["kind:" + kind] + ["feat:" + f for f in case.get("feats", ())]
    if kind == "foreign":
        classes.append("origin:" + case["origin"])
    if kind == "prog":
        classes.append("mode:" + case["mode"])
    if o["dups"]:
        _MON["dups"] += 1
    res = {"ok": True, "nontrivial": False, "classes": classes, "events": 0,
           "sample": {"kind": kind, "text": text}}
    why = None
    finding = None

    # ---- behaviour (needs the benign twin for attribution)
    if kind != "foreign":
        benign_text = case["orig"] if kind == "prog" else O.subst(case["tmpl"], O.BENIGN)
        if o["phase"] == "compile":
            b = run(benign_text, case["watch"], None)
            if b["phase"] == "compile":
                return {"ok": None, "classes": classes + ["rejected-by-compiler"]}
            why = (f"compiles with benign names but with hostile names: {type(o['exc']).__name__}: "
                   f"{str(o['exc'])[:200]}")
        else:
            mism = None
            if kind == "prog":
                mism = ref_mismatch_prog(case, o)
            elif kind == "shadow":
                mism = ref_mismatch_shadow(case, o)
            if mism == "SKIP":
                mism = None
            b = None
            if kind in ("tmpl", "shadow") or mism:
                b = run(benign_text, case["watch"], None)
                d = diff_obs(o, b)
                if d:
                    why = f"behaviour depends on the user's variable names (hostile vs benign rendering): {d}"
                    if mism:
                        why += f"; hostile run vs reference: {mism}"
            if why is None and mism:
                if o["dups"]:
                    why = (f"the compiler issued the temporary name(s) {sorted(set(o['dups']))[:4]} twice in one "
                           f"compilation unit and the program misbehaves: {mism}")
                else:
                    _MON["unattributed"] = _MON.get("unattributed", 0) + 1
                    return {"ok": None, "classes": classes + ["reference-mismatch-not-attributable-to-names"]}
        if why is None and kind == "tmpl" and o["phase"] != "compile":
            why = closed_form(case, o)
        if why is None and o["clobbered"]:
            why = (f"sentinel(s) bound to names the program never mentions were clobbered: {o['clobbered'][:5]}")

    if tree is None and why is None:
        return {"ok": None, "classes": classes + ["rejected-by-compiler"]}

    # ---- static
    if tree is not None:
        hyn = O.hy_names(tree)
        res["nontrivial"] = len(hyn) >= 2
        res["events"] = len(O.identifiers(tree)) + o.get("nsent", 0)
        if why is None:
            bad = foreign_identifiers(tree, src)
            if bad:
                why = (f"identifier(s) in the compiled code that are neither of the source nor hy/_hy_*: "
                       f"{sorted(set(bad))[:6]}")
                shapes = known_shape_nodes(tree)
                present = [k for k, ids in shapes.items() if ids]
                if present:
                    allids = set().union(*shapes.values())
                    if not foreign_identifiers(tree, src, allids):
                        necessary = [k for k in present
                                     if foreign_identifiers(tree, src, allids - shapes[k])]
                        finding = (necessary or present)[0]
                        classes.append("known-shape:" + finding)
        if why is None and kind != "foreign":
            dup = duplicate_hy_defs(tree)
            if dup:
                why = f"two compiler-made function definitions of one compilation unit share the name {dup[:3]}"
    if why is not None:
        res.update(ok=False, why=why + f" | program: {text[:700]}")
        if finding:
            res["finding"] = finding
    return res


def compile_only(text):
    import sys
    from hv.common import compile_hy, fresh_module
    _LOG.clear()
    m = fresh_module()
    sys.modules[m.__name__] = m
    try:
        try:
            tree = compile_hy(text, m)
            compile(tree, "<hvcase>", "exec")
        except BaseException as e:
            if type(e).__name__ == "CaseTimeout":
                raise
            return {"phase": "compile", "exc": e, "tree": None, "events": [], "mod": m, "dups": issued_duplicates(),
                    "clobbered": [], "nsent": 0}
        return {"phase": None, "exc": None, "tree": tree, "events": [], "mod": m, "dups": issued_duplicates(),
                "clobbered": [], "nsent": 0}
    finally:
        sys.modules.pop(m.__name__, None)
