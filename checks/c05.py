"""C05 — fn/defn bind arguments exactly like the equivalent Python def.

History observed: for every call, the dict of values bound to the parameters
(or the escaping exception type) of the Hy function and of a CPython `def` twin
rendered from the same lambda-list IR; `inspect.signature` of both; for the
body-rule cases the returned value / yielded values / `__doc__` / effect trace.
"""
import asyncio
import inspect
import itertools

from hv.common import Trace, exec_hy, exec_py, rng_for
from hv.twins1 import diff_outcome, outcome, show

ID = "C05"
LEVEL = "exploration"
RULE = ("one evaluation = (function kind, lambda list, call) or (function kind, body). Lambda lists are token "
        "sequences over {param, param-with-default, /, bare *, #* args, #** kw}: all sequences with <= 4 "
        "parameters and <= 2 markers are enumerated (legal ones x {defn, fn->lambda, fn->def} x ~12 calls "
        "each; illegal ones must be rejected iff CPython rejects the twin), shapes with 5-6 parameters, "
        "annotations, logged/statement-producing defaults and :async kinds are sampled. Calls have up to 6 "
        "arguments: positional, :k v mingled anywhere, #* iterables, #** mappings, unknown / positional-only / "
        "duplicate-at-runtime keywords, generated valid-biased from the signature and then perturbed. "
        "Non-trivial = lambda list with >= 3 parameters of >= 2 kinds and a call containing a keyword or an "
        "unpacking; distinct by (kind, lambda list, call). Body-rule cases (implicit return, docstring rule, "
        "generators, async generators) are evaluated too but never counted as non-trivial.")
FLOOR = {"quick": 1500, "thorough": 1500}
BUDGET = {"quick": 22, "thorough": 420}
CASE_TIMEOUT = 20
NEEDS_EVENTS = True
EXHAUSTIVE = {"quick": False, "thorough": False}
ANCHORS = ["hy.core.result_macros:compile_lambda_list",
           "hy.core.result_macros:compile_arguments_set",
           "hy.core.result_macros:compile_function_lambda",
           "hy.core.result_macros:compile_function_def",
           "hy.core.result_macros:compile_function_node",
           "hy.compiler:HyASTCompiler._compile_collect"]
ASSUMPTIONS = ["CPython 3.12.1 argument binding, inspect.signature and docstring detection are the reference",
               "the equivalent call of a Hy call with mingled keywords is f(*positionals_in_order, "
               "**keywords_in_order) (docs/syntax.rst: keyword arguments are moved back)",
               "order of keys in a #** kwargs dict and evaluation order of arguments/defaults are not compared"]
MANIFEST = {
    "text": "Every lambda-list token sequence with <= 4 parameters (427 legal, ~19.5k illegal) and sampled shapes up to 6 parameters are compiled as defn / fn (lambda path and def path) / :async and called with generated call shapes (mingled keywords, #*, #**, unknown and duplicate keywords); the bound values or exception type and inspect.signature are compared with a CPython def twin rendered from the same IR. Body rules (implicit return, docstring iff string literal followed by more forms, generators, async generators) are compared with a twin as well. Exploration: held on the calls run.",
    "note": "Trusted: CPython 3.12.1 binding semantics; my two renderers. Bounds: <= 6 parameters, <= 6 call arguments (plus unpacked elements).",
    "technique": "runtime monitoring: differential of observed parameter bindings / TypeError / inspect.signature against a CPython def twin rendered from the same IR",
}

NAMES = "abcdef"
KINDS = ["defn", "fn-lambda", "fn-def", "defn-async", "fn-async"]


# ---------------------------------------------------------------------------
# lambda-list IR: list of tokens
#   ["p", name, default|None, ann|None]   default: {"v": int, "form": "plain"|"L"|"stmt"}
#   ["/"] ["*"] ["*a", name] ["**k", name]

def name_tokens(seq):
    """seq of token kinds ('p','pd','/','*','*a','**k') -> token list with names."""
    toks, i, ns, nk = [], 0, 0, 0
    for t in seq:
        if t in ("p", "pd"):
            nm = NAMES[i]
            toks.append(["p", nm, {"v": 100 + i, "form": "plain"} if t == "pd" else None, None])
            i += 1
        elif t in ("/", "*"):
            toks.append([t])
        elif t == "*a":
            toks.append(["*a", "r" + (str(ns) if ns else "")])
            ns += 1
        else:
            toks.append(["**k", "kw" + (str(nk) if nk else "")])
            nk += 1
    return toks


def hy_default(d, key):
    if d["form"] == "plain":
        return str(d["v"])
    if d["form"] == "L":
        return f"(L {key!r} {d['v']})".replace("'", '"')
    # a temporary per parameter: sibling defaults must be effect-disjoint (DESIGN 6.1)
    return f"(do (setv dtmp_{key} {d['v']}) (L {key!r} dtmp_{key}))".replace("'", '"')


def py_default(d, key):
    return str(d["v"]) if d["form"] == "plain" else f"L({key!r}, {d['v']})"


def hy_ll(toks):
    out = []
    for t in toks:
        if t[0] == "p":
            core = t[1] if t[2] is None else f"[{t[1]} {hy_default(t[2], t[1])}]"
            out.append(f"#^ {t[3]} {core}" if t[3] else core)
        elif t[0] in ("/", "*"):
            out.append(t[0])
        elif t[0] == "*a":
            out.append(f"#* {t[1]}")
        else:
            out.append(f"#** {t[1]}")
    return "[" + " ".join(out) + "]"


def py_ll(toks):
    out = []
    for t in toks:
        if t[0] == "p":
            s = t[1] + (f": {t[3]}" if t[3] else "")
            if t[2] is not None:
                s += (" = " if t[3] else "=") + py_default(t[2], t[1])
            out.append(s)
        elif t[0] in ("/", "*"):
            out.append(t[0])
        elif t[0] == "*a":
            out.append("*" + t[1])
        else:
            out.append("**" + t[1])
    return ", ".join(out)


def param_names(toks):
    return [t[1] for t in toks if t[0] in ("p", "*a", "**k")]


def py_legal(toks):
    try:
        compile(f"def f({py_ll(strip_forms(toks))}): pass", "<ll>", "exec")
        return True
    except SyntaxError:
        return False


def strip_forms(toks):
    return [[t[0], t[1], ({"v": 0, "form": "plain"} if t[2] else None), t[3]] if t[0] == "p" else t
            for t in toks]


def analyse(toks):
    """Parameter kinds of a legal lambda list."""
    posonly, ordinary, kwonly, star, kwargs = [], [], [], None, None
    has_slash = any(t[0] == "/" for t in toks)
    phase = "pos" if has_slash else "ord"
    for t in toks:
        if t[0] == "/":
            phase = "ord"
        elif t[0] == "*":
            phase = "kw"
        elif t[0] == "*a":
            star = t[1]
            phase = "kw"
        elif t[0] == "**k":
            kwargs = t[1]
        else:
            {"pos": posonly, "ord": ordinary, "kw": kwonly}[phase].append((t[1], t[2] is not None))
    return {"posonly": posonly, "ord": ordinary, "kwonly": kwonly, "star": star, "kwargs": kwargs}


# ---------------------------------------------------------------------------
# call IR: list of ["p", v, stmtform?] | ["k", name, v] | ["s", [v...], kind] | ["d", [[name, v]...]]

def hy_call(items, fname="f"):
    out = [fname]
    for it in items:
        if it[0] == "p":
            out.append(f"(do (setv ctmp{it[1]} {it[1]}) ctmp{it[1]})" if len(it) > 2 and it[2] else str(it[1]))
        elif it[0] == "k":
            out.append(f":{it[1]} {it[2]}")
        elif it[0] == "s":
            if len(it) > 2 and it[2] == "tuple":
                out.append("#* #(" + " ".join(map(str, it[1])) + ")")
            else:
                out.append("#* [" + " ".join(map(str, it[1])) + "]")
        else:
            out.append("#** {" + " ".join(f'"{k}" {v}' for k, v in it[1]) + "}")
    return "(" + " ".join(out) + ")"


def py_call(items, fname="f"):
    pos, kws = [], []
    for it in items:
        if it[0] == "p":
            pos.append(str(it[1]))
        elif it[0] == "s":
            if len(it) > 2 and it[2] == "tuple":
                pos.append("*(" + "".join(f"{v}, " for v in it[1]) + ")")
            else:
                pos.append("*[" + ", ".join(map(str, it[1])) + "]")
        elif it[0] == "k":
            kws.append(f"{it[1]}={it[2]}")
        else:
            kws.append("**{" + ", ".join(f'"{k}": {v}' for k, v in it[1]) + "}")
    return f"{fname}(" + ", ".join(pos + kws) + ")"


def literal_dup(items):
    ks = [it[1] for it in items if it[0] == "k"]
    return len(ks) != len(set(ks))


def gen_call(rng, info):
    """A call for the analysed signature: valid-biased, then perturbed."""
    counter = itertools.count(1)
    posparams = info["posonly"] + info["ord"]
    npos = len(posparams)
    nreq = sum(1 for _, d in posparams if not d)
    r = rng.random()
    if r < 0.55:
        cpos = rng.randint(min(nreq, npos), npos) if rng.random() < 0.5 else rng.randint(0, npos)
    elif r < 0.8:
        cpos = rng.randint(0, npos)
    else:
        cpos = npos + rng.randint(1, 2)              # surplus positionals
    cpos = max(cpos, min(len(info["posonly"]), npos) if rng.random() < 0.8 else 0)
    pos = [["p", next(counter)] for _ in range(cpos)]
    kws = []
    for i, (nm, has_d) in enumerate(posparams):
        if i < cpos:
            continue
        if i < len(info["posonly"]):
            continue
        if not has_d or rng.random() < 0.5:
            if rng.random() < 0.9:
                kws.append(["k", nm, next(counter)])
    for nm, has_d in info["kwonly"]:
        if (not has_d and rng.random() < 0.92) or (has_d and rng.random() < 0.5):
            kws.append(["k", nm, next(counter)])
    # perturbations
    r = rng.random()
    if r < 0.12:
        kws.append(["k", "z", next(counter)])                                    # unknown keyword
    elif r < 0.22 and info["posonly"]:
        kws.append(["k", rng.choice(info["posonly"])[0], next(counter)])         # posonly by keyword
    elif r < 0.32 and posparams and cpos:
        kws.append(["k", posparams[rng.randrange(min(cpos, npos))][0], next(counter)])   # multiple values
    elif r < 0.38 and kws:
        kws.append(["k", rng.choice(kws)[1], next(counter)])                     # literal duplicate
    elif r < 0.44 and kws:
        kws.pop(rng.randrange(len(kws)))                                         # missing
    # unpacking: a run of positionals into #*, some keywords into #**
    items_pos = pos
    if pos and rng.random() < 0.4:
        i = rng.randrange(len(pos))
        j = rng.randint(i, len(pos))
        items_pos = pos[:i] + [["s", [p[1] for p in pos[i:j]], rng.choice(["list", "list", "tuple"])]] + pos[j:]
    elif rng.random() < 0.08:
        items_pos = pos + [["s", [], "list"]]
    for p in items_pos:
        if p[0] == "p" and rng.random() < 0.1:
            p.append(True)                                                       # statement-producing argument
    items_kw = []
    dd = []
    for k in kws:
        if rng.random() < 0.3:
            dd.append([k[1], k[2]])
        else:
            items_kw.append(k)
    if dd:
        if rng.random() < 0.25 and len(dd) >= 2:
            items_kw.insert(rng.randint(0, len(items_kw)), ["d", dd[:1]])
            items_kw.insert(rng.randint(0, len(items_kw)), ["d", dd[1:]])
        else:
            items_kw.insert(rng.randint(0, len(items_kw)), ["d", dd])
    elif rng.random() < 0.06:
        items_kw.append(["d", []])
    # mingle: keep the relative order inside each group, interleave the groups
    items = []
    a, b = list(items_pos), list(items_kw)
    mingle = rng.random() < 0.7
    while a or b:
        if a and (not b or (rng.random() < 0.5 if mingle else True)):
            items.append(a.pop(0))
        else:
            items.append(b.pop(0))
    return items[:8]


# ---------------------------------------------------------------------------
# program rendering

def bind_body_hy(names):
    return "{" + " ".join(f'"{n}" {n}' for n in names) + "}"


def bind_body_py(names):
    return "{" + ", ".join(f'"{n}": {n}' for n in names) + "}"


def hy_def(kind, toks, body_forms, name="f"):
    ll = hy_ll(toks)
    body = " ".join(body_forms)
    if kind == "defn":
        return f"(defn {name} {ll} {body})"
    if kind == "defn-async":
        return f"(defn :async {name} {ll} {body})"
    if kind == "fn-lambda":
        return f"(setv {name} (fn {ll} {body}))"
    if kind == "fn-def":
        return f"(setv {name} (fn {ll} (setv _q 1) {body}))"
    if kind == "fn-async":
        return f"(setv {name} (fn :async {ll} {body}))"
    raise ValueError(kind)


def py_def(kind, toks, body_lines, name="f"):
    pre = "async def" if kind.endswith("async") else "def"
    lines = [f"{pre} {name}({py_ll(toks)}):"]
    if kind == "fn-def":
        lines.append("    _q = 1")
    lines += ["    " + b for b in body_lines]
    return "\n".join(lines) + "\n"


# ---------------------------------------------------------------------------
# body-rule IR (implicit return / docstring / generators)
#   ["str", s] ["bytes", s] ["fstr", s] ["int", n] ["L", k, n] ["setv", n] ["param"] ["if", n, m]
#   ["ret", n] ["yield", n] ["for", k] ["none"]
#   ["letyield", n] ["tryyield", n] ["ifyield", n]: a `yield` lexically inside let / except / when

def hy_form(b):
    k = b[0]
    if k == "str":
        return '"' + b[1] + '"'
    if k == "bytes":
        return 'b"' + b[1] + '"'
    if k == "fstr":
        return 'f"' + b[1] + '{a}"' if b[2] else 'f"' + b[1] + '"'
    if k == "int":
        return str(b[1])
    if k == "L":
        return f"(L {b[1]} {b[2]})"
    if k == "setv":
        return f"(setv q {b[1]})"
    if k == "param":
        return "a"
    if k == "if":
        return f"(if a {b[1]} {b[2]})"
    if k == "ret":
        return f"(return {b[1]})"
    if k == "yield":
        return f"(yield {b[1]})"
    if k == "for":
        return f"(for [i [1 2]] (L {b[1]} i))"
    if k == "none":
        return "None"
    if k == "letyield":
        return f"(let [lv {b[1]}] (yield lv))"
    if k == "tryyield":
        return f"(try (raise ValueError) (except [ValueError] (yield {b[1]})))"
    if k == "ifyield":
        return f"(when a (yield {b[1]}))"
    raise ValueError(k)


YIELDING = ("yield", "letyield", "tryyield", "ifyield")


def py_expr(b):
    """Python expression for an expression-like body form, else None."""
    k = b[0]
    if k == "str":
        return repr(b[1])
    if k == "bytes":
        return "b" + repr(b[1])
    if k == "fstr":
        return "f" + repr(b[1] + "{a}") if b[2] else "f" + repr(b[1])
    if k == "int":
        return str(b[1])
    if k == "L":
        return f"L({b[1]}, {b[2]})"
    if k == "param":
        return "a"
    if k == "if":
        return f"({b[1]} if a else {b[2]})"
    if k in ("yield", "letyield"):
        return f"(yield {b[1]})"
    if k == "ifyield":
        return f"((yield {b[1]}) if a else None)"
    if k == "none":
        return "None"
    return None


def py_stmt(b):
    k = b[0]
    if k == "setv":
        return [f"q = {b[1]}"]
    if k == "ret":
        return [f"return {b[1]}"]
    if k == "for":
        return ["for i in [1, 2]:", f"    L({b[1]}, i)"]
    if k == "tryyield":
        return ["try:", "    raise ValueError", "except ValueError:", f"    yield {b[1]}"]
    return [py_expr(b)]


def py_body(forms, is_async):
    """Twin body per docs/api.rst (defn): the final body form is implicitly returned,
    except in an asynchronous generator; a first string literal followed by more forms
    is the docstring (CPython's own rule once it is emitted as the first statement)."""
    if not forms:
        return ["return None"]
    has_yield = any(b[0] in YIELDING for b in forms)
    lines = []
    for b in forms[:-1]:
        lines += py_stmt(b)
    last = forms[-1]
    e = py_expr(last)
    if e is None:
        lines += py_stmt(last)
        if last[0] != "ret" and not (is_async and has_yield):
            lines.append("return None")
    elif is_async and has_yield:
        lines.append(e)
    else:
        lines.append("return " + e)
    return lines


def gen_body(rng):
    n = rng.choice([0, 1, 1, 2, 2, 3, 3, 4])
    ctr = itertools.count(1)
    forms = []
    for i in range(n):
        r = rng.random()
        if i == 0 and r < 0.55:
            forms.append(rng.choice([["str", "doc text"], ["str", "doc text"], ["str", ""],
                                     ["bytes", "bdoc"], ["fstr", "fdoc", True], ["fstr", "fdoc", False]]))
            continue
        k = rng.choice(["str", "int", "L", "L", "setv", "param", "if", "yield", "for", "none", "ret",
                        "letyield", "tryyield", "ifyield"])
        if k == "ret" and i != n - 1:
            k = "L"
        forms.append({"str": ["str", "s%d" % next(ctr)], "int": ["int", next(ctr)],
                      "L": ["L", next(ctr), 10 * next(ctr)], "setv": ["setv", next(ctr)],
                      "param": ["param"], "if": ["if", next(ctr), next(ctr)],
                      "yield": ["yield", next(ctr)], "for": ["for", next(ctr)], "none": ["none"],
                      "ret": ["ret", next(ctr)], "letyield": ["letyield", next(ctr)],
                      "tryyield": ["tryyield", next(ctr)], "ifyield": ["ifyield", next(ctr)]}[k])
    return forms


# ---------------------------------------------------------------------------
# case generation

ALPH = ["p", "pd", "/", "*", "*a", "**k"]


def small_sequences():
    for ln in range(0, 7):
        for seq in itertools.product(ALPH, repeat=ln):
            if sum(t in ("p", "pd", "*a", "**k") for t in seq) > 4:
                continue
            if sum(t in ("/", "*") for t in seq) > 2:
                continue
            if seq.count("*a") > 2 or seq.count("**k") > 2:
                continue
            yield seq


def make_bind_case(rng, kind, toks, ncalls, cls):
    info = analyse(toks)
    calls, dups = [], []
    for _ in range(ncalls):
        c = gen_call(rng, info)
        (dups if literal_dup(c) else calls).append(c)
    names = param_names(toks)
    hy = [hy_def(kind, toks, [bind_body_hy(names)])]
    py = [py_def(kind, toks, ["return " + bind_body_py(names)])]
    for i, c in enumerate(calls):
        hy.append(f"(defn CALL{i} [] {hy_call(c)})")
        py.append(f"def CALL{i}(): return {py_call(c)}")
    return {"t": "bind", "kind": kind, "toks": toks, "ll": hy_ll(toks), "calls": calls, "dups": dups[:2],
            "hy": "\n".join(hy), "py": "\n".join(py), "cls": cls}


def sample_toks(rng):
    total = rng.randint(1, 6)
    n_po = rng.choice([0, 0, 1, 2]) if total >= 2 else 0
    star = rng.choice([None, None, "*a", "*"])
    kwargs = rng.random() < 0.35
    budget = total - (1 if star == "*a" else 0) - (1 if kwargs else 0)
    n_po = min(n_po, max(budget, 0))
    rest = max(budget - n_po, 0)
    n_kw = rng.randint(0, rest) if star else 0
    if star == "*" and n_kw == 0:
        if rest:
            n_kw = 1
        else:
            star = None
    n_ord = rest - n_kw
    npos = n_po + n_ord
    first_default = rng.randint(0, npos) if rng.random() < 0.7 else npos
    seq = []
    for i in range(npos):
        if i == n_po and n_po:
            seq.append("/")
        seq.append("pd" if i >= first_default else "p")
    if n_po and npos == n_po:
        seq.append("/")
    if star:
        seq.append(star)
    for i in range(n_kw):
        seq.append(rng.choice(["p", "pd"]))
    if kwargs:
        seq.append("**k")
    toks = name_tokens(seq)
    for t in toks:
        if t[0] == "p":
            if t[2] is not None:
                t[2]["form"] = rng.choice(["plain", "plain", "L", "L", "stmt"])
            if rng.random() < 0.08:
                t[3] = rng.choice(["int", "str"])
    return toks


def cases(seed, tier, shard, nshards):
    """Exhaustive sub-space (sharded by index) interleaved 2:1 with the sampled
    stream, so that a run cut short by its budget still contains every kind."""
    exh = exhaustive_cases(seed, shard, nshards)
    smp = sampled_cases(seed, shard)
    while True:
        for _ in range(2):
            c = next(exh, None)
            if c is not None:
                yield c
        yield next(smp)


def exhaustive_cases(seed, shard, nshards):
    idx = 0
    legal, illegal = [], []
    for seq in small_sequences():
        toks = name_tokens(seq)
        (legal if py_legal(toks) else illegal).append(toks)
    # 1. every legal shape x 3 function kinds
    for toks in legal:
        for kind in ("defn", "fn-lambda", "fn-def"):
            idx += 1
            if idx % nshards != shard:
                continue
            rng = rng_for(seed, ID, shard, idx)
            nparams = len(param_names(toks))
            yield make_bind_case(rng, kind, toks, 6 + 3 * nparams, f"exh{nparams}")
    # 2. illegal sequences, in batches
    B = 40
    for bi in range(0, len(illegal), B):
        idx += 1
        if idx % nshards != shard:
            continue
        yield {"t": "illegal", "lls": [[hy_ll(t), py_ll(t)] for t in illegal[bi:bi + B]], "cls": "illegal"}


def sampled_cases(seed, shard):
    i = 0
    while True:
        rng = rng_for(seed, ID, shard, "s%d" % i)
        i += 1
        r = rng.random()
        if r < 0.22:
            kind = rng.choice(KINDS)
            forms = gen_body(rng)
            yield {"t": "body", "kind": kind, "forms": forms, "cls": "body",
                   "hy": hy_def(kind if kind != "fn-def" else "fn-lambda", name_tokens(["pd"]),
                                [hy_form(b) for b in forms]),
                   "py": py_def(kind if kind != "fn-def" else "fn-lambda", name_tokens(["pd"]),
                                py_body(forms, kind.endswith("async")))}
            continue
        toks = sample_toks(rng)
        if r < 0.30:
            # perturb into a (probably) illegal order
            if len(toks) >= 2:
                a, b = rng.sample(range(len(toks)), 2)
                toks[a], toks[b] = toks[b], toks[a]
            if not py_legal(toks):
                yield {"t": "illegal", "lls": [[hy_ll(strip_forms(toks)), py_ll(strip_forms(toks))]],
                       "cls": "illegal-sampled"}
                continue
        if not py_legal(toks):
            continue
        kind = rng.choice(KINDS + ["defn", "fn-lambda", "fn-def"])
        if kind == "fn-lambda" and any(t[0] == "p" and t[3] for t in toks):
            kind = "fn-def"
        yield make_bind_case(rng, kind, toks, 10, f"rand{len(param_names(toks))}")


def case_key(case):
    return [case.get("kind"), case.get("hy")]


# ---------------------------------------------------------------------------
# running

def drive(v):
    """Resolve the object a call returned: coroutines are run, generators drained."""
    if inspect.iscoroutine(v):
        return asyncio.run(v)
    if inspect.isasyncgen(v):
        async def collect():
            return ["asyncgen", [x async for x in v]]
        return asyncio.run(collect())
    if inspect.isgenerator(v):
        out = []
        while True:
            try:
                out.append(next(v))
            except StopIteration as e:
                return ["gen", out, e.value]
    return v


def call_outcome(fn):
    return outcome(lambda: drive(fn()))


def nontrivial_shape(toks):
    info = analyse(toks)
    kinds = sum(bool(x) for x in (info["posonly"], info["ord"], info["kwonly"], info["star"], info["kwargs"]))
    return len(param_names(toks)) >= 3 and kinds >= 2


def sig_text(f):
    try:
        return str(inspect.signature(f))
    except Exception as e:       # pragma: no cover
        return f"<{type(e).__name__}>"


def run_case(case):
    t = case["t"]
    if t == "illegal":
        return run_illegal(case)
    if t == "body":
        return run_body(case)
    kind, toks = case["kind"], case["toks"]
    classes = [case["cls"], "kind:" + kind]
    res = {"ok": True, "nontrivial": False, "classes": classes, "events": 0, "n": 0, "nt_keys": []}
    trh, trp = Trace(), Trace()
    hm, hexc, tree, hphase = exec_hy(case["hy"], {"L": trh.L})
    pm, pexc, pphase = exec_py(case["py"], {"L": trp.L})
    if pexc is not None:
        res.update(ok=None, why=f"twin did not {pphase}: {pexc!r}")
        classes.append("twin-failed")
        return res
    if hexc is not None:
        res.update(ok=False, n=1, why=f"Hy {hphase} raised {type(hexc).__name__}: {hexc} for {case['ll']} "
                   f"which CPython accepts as def f({py_ll(toks)})"[:600], sample={"hy": case["hy"][:300]})
        return res
    failures = []
    # defaults are evaluated once each, at definition time
    ndef = len(trh.events)
    if sorted(map(repr, trh.events)) != sorted(map(repr, trp.events)):
        failures.append(f"default-value events at definition {trh.events} but twin {trp.events}")
    res["events"] += ndef
    hs, ps = sig_text(hm.f), sig_text(pm.f)
    res["n"] += 1
    if hs != ps:
        failures.append(f"inspect.signature {hs} but twin {ps}")
    if inspect.iscoroutinefunction(hm.f) != inspect.iscoroutinefunction(pm.f):
        failures.append("coroutine-function flag differs")
    shape_nt = nontrivial_shape(toks)
    if any(t_[0] == "p" and t_[2] and t_[2]["form"] != "plain" for t_ in toks):
        classes.append("default:logged")
    if any(t_[0] == "p" and t_[3] for t_ in toks):
        classes.append("annotated")
    for i, c in enumerate(case["calls"]):
        res["n"] += 1
        res["events"] += 1
        H = call_outcome(getattr(hm, f"CALL{i}"))
        P = call_outcome(getattr(pm, f"CALL{i}"))
        feats = {it[0] for it in c}
        for f_ in feats:
            classes.append({"p": "call:positional", "k": "call:keyword", "s": "call:#*", "d": "call:#**"}[f_])
        if mingled(c):
            classes.append("call:mingled")
        classes.append("binds" if P[0] == "val" else "raises:" + P[1])
        if shape_nt and feats & {"k", "s", "d"}:
            res["nontrivial"] = True
            res["nt_keys"].append((kind, case["ll"], hy_call(c)))
        d = diff_outcome(H, P, "Hy", "def twin")
        if d:
            failures.append(f"{case['ll']} called as {hy_call(c)} = {py_call(c)}: {d} "
                            f"[Hy {show(H)}; twin {show(P)}]")
    if len(trh.events) != ndef:
        failures.append(f"default values re-evaluated at call time: {trh.events[ndef:]}")
    # literal duplicate keywords: SyntaxError in Python; only required to fail (carve-out)
    for c in case["dups"]:
        res["n"] += 1
        classes.append("call:literal-duplicate-keyword")
        src = hy_def(kind, strip_forms(toks), [bind_body_hy(param_names(toks))]) + \
            f"\n(setv RESULT {hy_call(c)})"
        m2, e2, _, ph2 = exec_hy(src, {})
        if e2 is None:
            failures.append(f"literal duplicate keyword accepted: {hy_call(c)} -> {m2.RESULT!r}")
    if failures:
        res.update(ok=False, why=(f"kind={kind}: " + " || ".join(failures[:3]))[:900],
                   sample={"hy": case["hy"][:400], "py": case["py"][:400]})
    return res


def mingled(items):
    seen_kw = False
    for it in items:
        if it[0] in ("k", "d"):
            seen_kw = True
        elif seen_kw:
            return True
    return False


def run_illegal(case):
    classes = [case["cls"]]
    res = {"ok": True, "nontrivial": False, "classes": classes, "events": 0, "n": 0}
    bad = []
    for hy_l, py_l in case["lls"]:
        res["n"] += 1
        res["events"] += 1
        try:
            compile(f"def f({py_l}): pass", "<ll>", "exec")
            py_ok = True
        except SyntaxError:
            py_ok = False
        for form in (f"(defn f {hy_l} 1)", f"(setv f (fn {hy_l} 1))"):
            m, exc, _, phase = exec_hy(form, {})
            hy_ok = exc is None
            if hy_ok != py_ok:
                bad.append(f"{form}: Hy {'accepts' if hy_ok else 'rejects (' + type(exc).__name__ + ')'} "
                           f"but CPython {'accepts' if py_ok else 'rejects'} def f({py_l})")
        classes.append("python-rejects" if not py_ok else "python-accepts")
    if bad:
        res.update(ok=False, why=" || ".join(bad[:3])[:800])
    return res


def run_body(case):
    kind = case["kind"]
    forms = case["forms"]
    classes = ["body", "kind:" + kind, f"body-forms:{len(forms)}"]
    has_yield = any(b[0] in YIELDING for b in forms)
    if any(b[0] in ("letyield", "tryyield", "ifyield") for b in forms):
        classes.append("body:yield-in-nested-scope")
        if not any(b[0] == "yield" for b in forms):
            classes.append("body:yield-only-in-nested-scope")
    if has_yield:
        classes.append("body:async-generator" if kind.endswith("async") else "body:generator")
    if forms and forms[0][0] == "str":
        classes.append("body:first-is-string" + ("-only" if len(forms) == 1 else ""))
    res = {"ok": True, "nontrivial": False, "classes": classes, "events": 0, "n": 1}
    trh, trp = Trace(), Trace()
    hm, hexc, _, hphase = exec_hy(case["hy"], {"L": trh.L})
    pm, pexc, pphase = exec_py(case["py"], {"L": trp.L})
    if pexc is not None:
        res.update(ok=None, why=f"twin did not {pphase}: {pexc!r}")
        classes.append("twin-failed")
        return res
    if hexc is not None:
        res.update(ok=False, why=f"Hy {hphase} raised {type(hexc).__name__}: {hexc}"[:500],
                   sample={"hy": case["hy"], "py": case["py"]})
        return res
    failures = []
    for arg in (5, 0):
        H = outcome(lambda: drive(hm.f(arg)))
        P = outcome(lambda: drive(pm.f(arg)))
        d = diff_outcome(H, P, "Hy", "def twin")
        if d:
            failures.append(f"f({arg}): {d}")
    if trh.events != trp.events:
        failures.append(f"body trace {trh.events} but twin {trp.events}")
    res["events"] = len(trh.events) + 2
    if hm.f.__doc__ != pm.f.__doc__:
        failures.append(f"__doc__ {hm.f.__doc__!r} but twin {pm.f.__doc__!r}")
    classes.append("doc:set" if pm.f.__doc__ is not None else "doc:none")
    if failures:
        res.update(ok=False, why=(f"kind={kind} {case['hy']}: " + " || ".join(failures[:3]))[:900],
                   sample={"hy": case["hy"], "py": case["py"]})
    return res
