"""C19 — truncated input is premature end of input (fault_enumeration).

The fault is "the input ends here".  For every well-formed text EVERY cut
point 0..len(text) is read with the tree's reader; the exception type (or
success) is the observation.  The syntax IR (hv/syntax_ir.py) labels each cut:

  T  between top-level forms                      -> must read without error
  O  inside an open construct at a token boundary -> must raise PrematureEndOfInput
  M  inside a token, inside a bracket/string/field -> PrematureEndOfInput, unless the
     truncated token is itself a lexical error whatever follows (decided by
     reading prefix + " " + the matching closers): then any LexException
  X  inside a token with nothing but prefixes open -> outside the statement
     (success or any LexException)

Workloads: generated texts (labels from the renderer, cross-checked against
the independent scanner) and the top-level forms of the repository's own .hy
files (labels from the scanner).
"""
import hashlib

from hv.common import rng_for
from hv import syntax_ir as S

ID = "C19"
LEVEL = "fault_enumeration"
RULE = ("well-formed texts from the syntax IR (all bracket kinds, strings with each prefix, bracket "
        "strings, f-/t-strings with fields, conversions, '=', nested specs, every prefix sugar, #_, "
        "comments, CR/CRLF/FF/VT) and top-level forms of the repository's .hy files; for each text "
        "EVERY cut point is read (exhaustive per text). One evaluation = one cut. Non-trivial = cut "
        "inside a construct of nesting >= 2 or inside an f-string field; distinct by (text, cut).")
FLOOR = {"quick": 5000, "thorough": 5000}
BUDGET = {"quick": 25, "thorough": 480}
CASE_TIMEOUT = 60
NEEDS_EVENTS = True
ANCHORS = ["hy.reader.reader:Reader.chars", "hy.reader.reader:Reader.peeking",
           "hy.reader.hy_reader:HyReader.read_fcomponent",
           "hy.reader.hy_reader:HyReader.try_parse_one_form",
           "hy.reader.hy_reader:HyReader.tag_dispatch",
           "hy.reader.hy_reader:HyReader.bracketed_string"]
ASSUMPTIONS = [
    "cut labels come from the syntax IR renderer / scanner (hv/syntax_ir.py); the two are "
    "cross-checked on every generated text and a disagreement makes the run inconclusive",
    "a truncated token counts as 'itself an error' when prefix + ' ' + matching closers raises a "
    "LexException that is not PrematureEndOfInput (DESIGN C19 carve-out)",
    "cuts inside a token with no bracket/string/field open are outside the statement",
]
MANIFEST = {
    "text": "For each generated well-formed text and each top-level form of the repository's own .hy "
            "files, every character cut point is read with the tree's reader and the exception type is "
            "compared with the cut's label (between top-level forms: no error; inside an unclosed "
            "construct: PrematureEndOfInput). Exhaustive per text over cut points; the texts are a sample.",
    "note": "Trusted: the cut labelling of hv/syntax_ir.py (renderer and scanner cross-checked). Bounds: "
            "generated texts <= 260 characters, corpus forms <= 600 (quick) / 4000 (thorough) characters. "
            "REPL.runsource is not exercised, only the exception type it dispatches on.",
    "technique": "runtime monitoring: end-of-input injected at every cut point, exception type vs cut label",
}

_counts = {}


def _bump(k, n=1):
    _counts[k] = _counts.get(k, 0) + n


_CFGS = [dict(size=5, depth=3), dict(size=8, depth=4), dict(size=12, depth=4),
         dict(size=7, depth=3, fstring=3.0), dict(size=10, depth=4, fstring=3.0, noise=0.4)]
MAXLEN = 260


def cases(seed, tier, shard, nshards):
    corpus = [c for i, c in enumerate(S.load_corpus(max_len=600 if tier == "quick" else 4000))
              if i % nshards == shard]
    # shortest first: cost is quadratic in the length
    order = rng_for(seed, ID, "corpus")
    order.shuffle(corpus)
    if tier == "quick":
        corpus.sort(key=lambda c: len(c["text"]) > 250)
    ci = 0
    i = 0
    while True:
        if i % 4 == 3 and ci < len(corpus):
            c = corpus[ci]
            ci += 1
            try:
                sc = S.scan(c["text"])
            except S.ScanError:
                continue
            finally:
                i += 1
            yield {"kind": "corpus", "src": f"{c['file']}#{c['index']}", "text": c["text"],
                   "cuts": sc.cuts, "tags": []}
            continue
        rng = rng_for(seed, ID, shard, i)
        i += 1
        cfg = S.GenConfig(multiline=0.2, top=(1, 3), **_CFGS[rng.randrange(len(_CFGS))])
        r = S.render(S.gen_program(rng, cfg))
        if len(r.text) > MAXLEN or not r.text:
            continue
        case = {"kind": "ir", "text": r.text, "cuts": r.cuts, "tags": r.tags}
        try:
            case["scan_agrees"] = S.scan(r.text).cuts == r.cuts
        except S.ScanError:
            case["scan_agrees"] = False
        yield case


def _msg_class(e):
    """Error message with quoted/variable parts removed (for the evidence histogram)."""
    import re
    m = str(getattr(e, "msg", None) or e)
    return re.sub(r"'[^']*'|\\.|[0-9]+", "_", m)[:60]


def _expect(cls):
    return {"T": "no error", "O": "PrematureEndOfInput", "M": "PrematureEndOfInput",
            "X": "success or LexException"}[cls]


def run_case(case):
    text, cuts = case["text"], case["cuts"]
    res = {"ok": True, "nontrivial": False, "classes": [case["kind"]] + ["has:" + t for t in case.get("tags", [])],
           "events": 0}
    if case.get("scan_agrees") is False:
        _bump("label_disagreement")
        res["ok"] = None
        return res
    out, val = S.read_outcome(text)
    res["events"] += 1
    if (out != "ok" and case["kind"] == "corpus") or len(cuts) != len(text) + 1:
        # a repository form this reader cannot read is outside the quantifier; a generated
        # text is well-formed by construction, so its failure shows up at the last cut (class T)
        _bump("premise_failed")
        res["ok"] = None
        res["classes"].append("premise-failed")
        return res
    h = hashlib.sha1(text.encode("utf-8", "surrogatepass")).hexdigest()[:12]
    viol, keys, nt_keys = [], set(), []
    seen_cls = set()
    for k, (cls, depth, infield, ffeat, closers) in enumerate(cuts):
        prefix = text[:k]
        out, val = S.read_outcome(prefix)
        res["events"] += 1
        _bump("cut:" + cls)
        seen_cls.add(cls)
        if infield:
            _bump("cut:in-field")
            seen_cls.add("in-field")
        if depth >= 2 or infield:
            nt_keys.append(f"{h}:{k}")
        if depth >= 2:
            seen_cls.add("depth>=2")
        bad = None
        if out == "other":
            bad = f"raised {S.describe_exc(val)}"
        elif cls == "T":
            if out != "ok":
                bad = f"raised {S.describe_exc(val)}"
        elif cls == "O":
            if out != "premature":
                bad = "read successfully" if out == "ok" else f"raised {S.describe_exc(val)}"
        elif cls == "M":
            if out != "premature":
                out2, _ = S.read_outcome(prefix + " " + closers)
                res["events"] += 1
                if out2 == "lex" and out == "lex":
                    _bump("cut:invalid-truncated-token")
                    _bump("invalid-token:" + _msg_class(val))
                    seen_cls.add("invalid-token")
                else:
                    bad = "read successfully" if out == "ok" else f"raised {S.describe_exc(val)}"
        if out == "premature":
            _bump("premature")
        if bad is None:
            continue
        key = None
        if ffeat and out == "lex":
            # mechanism: end of input where read_fcomponent expects '}' / a conversion
            # character.  Normaliser: let the field continue into a format spec instead.
            out3, _ = S.read_outcome(prefix + " :")
            res["events"] += 1
            if out3 == "premature":
                key = "fstring-field-eof"
        if key:
            keys.add(key)
        viol.append((k, cls, bad, key))
    res["n"] = len(cuts)
    res["nontrivial"] = bool(nt_keys)
    res["nt_keys"] = nt_keys
    res["classes"] += ["cut:" + c for c in sorted(seen_cls)]
    res["sample"] = {"kind": case["kind"], "text": text, "cut_points": len(cuts),
                     "src": case.get("src")}
    if viol:
        unattributed = [v for v in viol if v[3] is None]
        show = (unattributed or viol)[:3]
        res["ok"] = False
        res["why"] = "; ".join(
            f"cut {k} [{cls}] prefix {text[:k]!r}: expected {_expect(cls)}, {bad}" + (f" <{key}>" if key else "")
            for k, cls, bad, key in show)
        res["why"] += f" ({len(viol)} violating cuts of {len(cuts)})"
        if not unattributed:
            res["finding"] = sorted(keys)[0]
        _bump("violating_cuts", len(viol))
    return res


def finish_worker():
    return {"cuts": dict(_counts)}


def gate(tot, classes, extra, tier):
    c = extra.get("cuts", {})
    if c.get("label_disagreement"):
        return f"renderer-and-scanner-disagree-on-{c['label_disagreement']}-texts"
    for need in ("cut:T", "cut:O", "cut:M", "cut:in-field", "premature"):
        if not c.get(need):
            return f"no-{need}-observed"
    return None
