"""C03 — operator macros = hy.pyops functions = documented Python expansion.

History observed per evaluation: the value (typed, NaN-aware) or the exception
type of (M) the compiled macro form, (F) the same-named hy.pyops function and
(R) CPython evaluating a Python expression rendered independently from the
docstrings of hy/pyops.hy (left fold, right fold for **, documented
unary/nullary forms, native chained comparison); plus the operand-evaluation
trace of M against R's when operands are logged.
"""
import warnings

from hv.common import Trace, exec_hy, rng_for
from hv.twins1 import Box, Mat, Sym, diff_outcome, outcome, show

ID = "C03"
LEVEL = "exploration"
RULE = ("one evaluation = (operator, arity, operand-form mode, argument tuple): macro form vs hy.pyops "
        "function vs CPython twin expression. All 29 operators x arity 0-6 x modes {var, logged (L k a), "
        "mixed with statement-producing operands, literal operands, three #* shapes, augmented assignment "
        "on name/attribute/subscript targets} are cycled round-robin with argument tuples drawn from "
        "per-operator families (ints incl. 0/negatives, bools, floats incl. inf/nan, strs, lists, tuples, "
        "sets, Mat for @, symbolic Sym operands that record association) with a hostile replacement "
        "that makes the operation raise. Non-trivial = arity >= 3, or a raising tuple, or a tuple on which "
        "left and right fold differ (both computed); distinct by (operator, mode, form text, tuple).")
FLOOR = {"quick": 2000, "thorough": 2000}
BUDGET = {"quick": 20, "thorough": 420}
CASE_TIMEOUT = 20
NEEDS_EVENTS = True
ANCHORS = ["hy.core.result_macros:compile_maths_expression",
           "hy.core.result_macros:compile_compare_op_expression",
           "hy.core.result_macros:compile_augassign_expression",
           "hy.core.result_macros:compile_unary_operator"]
ASSUMPTIONS = ["CPython 3.12.1 evaluates the rendered twin expression as documented",
               "twin expressions are rendered from the docstrings of hy/pyops.hy (pyop, nullary, unary, "
               "binary, n-ary, aggregator) independently of result_macros.py",
               "operand evaluation order is not constrained except for comparison/and/or chains of "
               "pure-expression operands"]
MANIFEST = {
    "text": "Every operator macro (29 names incl. and/or/get/cut) at every arity 0-6 is compiled in seven operand-form modes and evaluated on generated argument tuples; the result (typed value or exception type) is compared three ways: compiled macro form, hy.pyops function, and CPython evaluating a Python expression rendered from the docstrings. Augmented assignment with 1-5 values is compared with a Python twin `x op= AGG(values)`; #* forms with the function. Exploration: held on the evaluations run.",
    "note": "Trusted: CPython 3.12.1 operators; my rendering of the documented expansions. Bounds: arity <= 6, small operand pools, exponents/shifts bounded.",
    "technique": "runtime monitoring: three-way differential of observed result/exception (macro form, pyops function, CPython twin expression) plus operand trace",
}

warnings.filterwarnings("ignore", category=SyntaxWarning)   # `[0][None]` etc. in literal mode

MAXA = 6
PYOP = {"+": "+", "-": "-", "*": "*", "/": "/", "//": "//", "%": "%", "**": "**", "@": "@",
        "<<": "<<", ">>": ">>", "&": "&", "|": "|", "^": "^",
        "=": "==", "!=": "!=", "<": "<", "<=": "<=", ">": ">", ">=": ">=",
        "is": "is", "is-not": "is not", "in": "in", "not-in": "not in",
        "and": "and", "or": "or"}
MATHS = ["+", "-", "*", "/", "//", "%", "**", "@", "<<", ">>", "&", "|", "^"]
UNARY = ["bnot", "not"]
COMPARE = ["=", "!=", "<", "<=", ">", ">=", "is", "is-not", "in", "not-in"]
LOGIC = ["and", "or"]
SUBS = ["get", "cut"]
OPS = MATHS + UNARY + COMPARE + LOGIC + SUBS        # 29
STATED = set(MATHS + UNARY + COMPARE)                # the 25 named in the property statement

# documented arities (docstrings in pyops.hy): (min, max)
INF = 99
ARITY = {"+": (0, INF), "-": (1, INF), "*": (0, INF), "/": (1, INF), "//": (2, INF), "%": (2, 2),
         "**": (2, INF), "@": (2, INF), "<<": (2, INF), ">>": (2, INF), "&": (1, INF), "|": (0, INF),
         "^": (2, 2), "bnot": (1, 1), "not": (1, 1),
         "=": (1, INF), "<": (1, INF), "<=": (1, INF), ">": (1, INF), ">=": (1, INF), "is": (1, INF),
         "!=": (2, INF), "is-not": (2, INF), "in": (2, INF), "not-in": (2, INF),
         "and": (0, INF), "or": (0, INF), "get": (2, INF), "cut": (1, 4)}
# arities both implementations accept but the docstring does not describe: M vs F only
UNDOCUMENTED = {("@", 1)}

# Aggregator for augmented assignment, as DOCUMENTED (pyops module docstring:
# "Typically, the aggregator is the same as the original operator ... Exceptions ... are noted in
# the documentation for the parent operator"): only - / << >> carry an "Aggregator" note.
AGG_DOC = {"-": "+", "/": "*", "<<": "+", ">>": "+"}


def _load_agg_doc():
    """Read the documented aggregators from the docstrings of the tree under test
    ("Aggregator for augmented assignment: :hy:func:`X <hy.pyops.X>`"); the oracle is what
    the documentation says, so a documentation change is followed, not hard-coded."""
    import re
    try:
        import hy
        import hy.pyops as P
        table = {}
        for op in ["+", "-", "*", "/", "//", "%", "**", "<<", ">>", "|", "^", "&", "@"]:
            f = getattr(P, hy.mangle(op), None)
            m = re.search(r"Aggregator for augmented assignment: :hy:func:`(\S+) <", (f.__doc__ or "")) if f else None
            if m:
                table[op] = m.group(1)
        AGG_DOC.clear()
        AGG_DOC.update(table)
    except Exception:
        pass
NO_AGG = {"%", "^"}          # binary-only parents: exactly one value

MODES = ["var", "L", "mix", "lit", "s1", "s2", "s3", "aug"]


def allowed(op, n):
    lo, hi = ARITY[op]
    return lo <= n <= hi


# ---------------------------------------------------------------------------
# twin rendering (Python source), written from the docstrings

def fold_left(pyop, xs):
    e = xs[0]
    for x in xs[1:]:
        e = f"({e} {pyop} {x})"
    return e


def fold_right(pyop, xs):
    e = xs[-1]
    for x in reversed(xs[:-1]):
        e = f"({x} {pyop} {e})"
    return e


def twin_expr(op, xs):
    """Python expression for (op x0 x1 ...) per the documentation, or None when
    the documentation does not describe this arity."""
    n = len(xs)
    if not allowed(op, n):
        return None
    if op in MATHS:
        if n == 0:
            return {"+": "0", "*": "1", "|": "0"}[op]
        if n == 1:
            return {"+": f"(+{xs[0]})", "-": f"(-{xs[0]})", "*": xs[0], "/": f"(1 / {xs[0]})",
                    "&": xs[0], "|": xs[0]}[op]
        return fold_right("**", xs) if op == "**" else fold_left(PYOP[op], xs)
    if op == "bnot":
        return f"(~{xs[0]})"
    if op == "not":
        return f"(not {xs[0]})"
    if op in COMPARE:
        if n == 1:
            # documented literally as ``(< x)`` -> ``True``: whether x is evaluated is not gated
            return "True"
        return "(" + f" {PYOP[op]} ".join(xs) + ")"
    if op in LOGIC:
        if n == 0:
            return {"and": "True", "or": "None"}[op]
        if n == 1:
            return xs[0]
        return "(" + f" {op} ".join(xs) + ")"
    if op == "get":
        return xs[0] + "".join(f"[{k}]" for k in xs[1:])
    if op == "cut":
        if n == 1:
            return f"{xs[0]}[:]"
        if n == 2:
            return f"{xs[0]}[:{xs[1]}]"
        return f"{xs[0]}[" + ":".join(xs[1:]) + "]"
    raise ValueError(op)


def other_fold(op, xs):
    """The opposite association (for the non-trivial rule only)."""
    if op not in MATHS or len(xs) < 3:
        return None
    return fold_left("**", xs) if op == "**" else fold_right(PYOP[op], xs)


def agg_expr(parent, xs, table=AGG_DOC):
    if len(xs) == 1:
        return xs[0]
    if parent in NO_AGG:
        return None
    agg = table.get(parent, parent)
    return twin_expr(agg, xs)


# ---------------------------------------------------------------------------
# values: Python source specs (evaluated afresh for every evaluation)

NUM = ["0", "1", "2", "3", "-1", "-2", "5", "7", "-7", "True", "False", "2.5", "-1.5", "0.0",
       "float('inf')", "float('nan')"]
INTS = ["0", "1", "2", "3", "-1", "-2", "5", "7", "-7", "12", "True", "False"]
NZ = ["1", "2", "3", "-1", "-2", "5", "7", "-7", "2.5", "-1.5", "True"]
STRS = ["'ab'", "''", "'a'", "'b'"]
LISTS = ["[1, 2]", "[]", "[3]", "[1]"]
TUPS = ["(1, 2)", "()", "(3,)"]
SETS = ["{1, 2}", "{2, 3}", "set()", "{1}", "{1, 2, 3}"]
SYMS = ["Sym('p')", "Sym('q')", "Sym('r')", "Sym('s')"]
MATS = ["Mat('m')", "Mat('n')", "Mat('o')"]
SMALLPOW = ["0", "1", "2", "3", "-1", "-2", "0.5", "2.0", "True", "-0.5"]
SHIFT = ["0", "1", "2", "3", "8", "64", "5", "True"]
ANY = NUM + STRS + LISTS + TUPS + SETS + SYMS + MATS + ["None"]

HYLIT = {"True": "True", "False": "False", "None": "None", "float('inf')": "Inf", "float('nan')": "NaN",
         "''": '""', "'ab'": '"ab"', "'a'": '"a"', "'b'": '"b"', "'%d'": '"%d"', "'%s-%s'": '"%s-%s"',
         "[1, 2]": "[1 2]", "[]": "[]", "[3]": "[3]", "[1]": "[1]",
         "(1, 2)": "#(1 2)", "()": "#()", "(3,)": "#(3)",
         "{1, 2}": "#{1 2}", "{2, 3}": "#{2 3}", "set()": "(set)", "{1}": "#{1}", "{1, 2, 3}": "#{1 2 3}"}


def hy_literal(spec):
    """Hy source text for a value spec (None when the spec has no literal form)."""
    if spec in HYLIT:
        return HYLIT[spec]
    import ast
    try:
        node = ast.parse(spec, mode="eval").body
        return _hy_of(node)
    except Exception:
        return None


def _hy_of(node):
    import ast
    if isinstance(node, ast.Constant):
        v = node.value
        if isinstance(v, str):
            return '"' + v.replace("\\", "\\\\").replace('"', '\\"') + '"'
        if v is None or isinstance(v, (bool, int, float)):
            return repr(v)
        raise ValueError(v)
    if isinstance(node, ast.UnaryOp) and isinstance(node.op, ast.USub) and \
            isinstance(node.operand, ast.Constant):
        return "-" + repr(node.operand.value)
    if isinstance(node, ast.List):
        return "[" + " ".join(map(_hy_of, node.elts)) + "]"
    if isinstance(node, ast.Tuple):
        return "#(" + " ".join(map(_hy_of, node.elts)) + ")"
    if isinstance(node, ast.Set):
        return "#{" + " ".join(map(_hy_of, node.elts)) + "}"
    if isinstance(node, ast.Dict):
        return "{" + " ".join(_hy_of(k) + " " + _hy_of(v) for k, v in zip(node.keys, node.values)) + "}"
    if isinstance(node, ast.Call) and isinstance(node.func, ast.Name) and not node.keywords:
        if node.func.id == "float":
            return {"inf": "Inf", "nan": "NaN", "-inf": "-Inf"}[node.args[0].value]
        if node.func.id in ("set", "range", "Sym", "Mat"):
            return "(" + " ".join([node.func.id] + list(map(_hy_of, node.args))) + ")"
    raise ValueError(ast.dump(node))


FAMILIES = {
    "+": [NUM, STRS, LISTS, TUPS, SYMS + INTS[:6]],
    "-": [NUM, SETS, SYMS + INTS[:6]],
    "*": [NUM, SYMS + INTS[:6], ["'ab'", "2", "3", "1", "0"], ["[1, 2]", "2", "3", "-1"]],
    "/": [NUM, NZ, SYMS + INTS[:6]],
    "//": [NUM, NZ, SYMS + INTS[:6]],
    "%": [NUM, NZ, SYMS + INTS[:6], ["'%d'", "3", "'%s-%s'", "(1, 2)"]],
    "**": [SMALLPOW, SYMS + ["2", "3"], ["2", "3", "0", "1"]],
    "@": [MATS, SYMS, MATS + SYMS],
    "<<": [SHIFT, SYMS + SHIFT[:4], SHIFT + ["-1"]],
    ">>": [SHIFT + ["1000", "-1000"], SYMS + SHIFT[:4], SHIFT + ["-1"]],
    "&": [INTS, SETS, SYMS + INTS[:6]],
    "|": [INTS, SETS, SYMS + INTS[:6]],
    "^": [INTS, SETS, SYMS + INTS[:6]],
    "bnot": [INTS, SYMS, ANY],
    "not": [ANY],
    "=": [NUM, STRS + LISTS, ANY, ["1", "True", "1.0", "1"]],
    "!=": [NUM, STRS + LISTS, ANY, ["1", "True", "1.0", "2"]],
    "<": [NUM, STRS, LISTS, SETS, TUPS, ["1", "2", "3", "5", "7", "12"]],
    "<=": [NUM, STRS, LISTS, SETS, TUPS, ["1", "2", "3", "5", "7", "12", "1", "2"]],
    ">": [NUM, STRS, LISTS, SETS, TUPS, ["12", "7", "5", "3", "2", "1"]],
    ">=": [NUM, STRS, LISTS, SETS, TUPS, ["12", "7", "5", "3", "2", "1", "7", "5"]],
    "is": [ANY, ["None", "True", "False", "1"]],
    "is-not": [ANY, ["None", "True", "False", "1"]],
    "and": [ANY], "or": [ANY],
}


def gen_tuple(rng, op, n):
    """n value specs for operator op."""
    if n == 0:
        return []
    if op in ("in", "not-in"):
        # chain: x0 in x1 in x2 ... ; build containers around the previous element
        xs = [rng.choice(["1", "2", "'a'", "(1, 2)", "None", "[1]"])]
        for _ in range(n - 1):
            prev = xs[-1]
            r = rng.random()
            if r < 0.5:
                xs.append(f"[{prev}, 9]")
            elif r < 0.6 and prev.startswith("'"):
                xs.append("'ab'")
            elif r < 0.7:
                xs.append(f"({prev},)")
            elif r < 0.8 and "[" not in prev and "{" not in prev:
                xs.append("{%s}" % prev)
            elif r < 0.9:
                xs.append("[9]")
            else:
                xs.append(rng.choice(["5", "None", "[]", "'zz'"]))   # int container: TypeError
        return xs
    if op == "get":
        # a nested collection and a path that is valid up to a random depth
        path, coll = [], rng.choice(["7", "'xy'", "None"])
        for _ in range(n - 1):
            if rng.random() < 0.5:
                k = rng.choice(["0", "1", "-1"])
                items = ["0", "0"]
                items[int(k)] = coll
                coll = "[" + ", ".join(items) + "]"
            else:
                k = rng.choice(["'k'", "3", "(1, 2)"])
                coll = "{%s: %s, 'other': 0}" % (k, coll)
            path.insert(0, k)
        if path and rng.random() < 0.35:
            path[rng.randrange(len(path))] = rng.choice(["5", "'nokey'", "None", "[1]"])
        return [coll] + path
    if op == "cut":
        seq = rng.choice(["'abcdef'", "[0, 1, 2, 3, 4]", "(0, 1, 2, 3)", "range(7)", "5", "{1: 2}"])
        return [seq] + [rng.choice(["None", "0", "1", "2", "-1", "-2", "4", "'x'", "0", "True", "2.5"])
                        for _ in range(n - 1)]
    fam = rng.choice(FAMILIES[op])
    xs = [rng.choice(fam) for _ in range(n)]
    if op in ("is", "is-not") and n >= 2:
        for i in range(1, n):
            if rng.random() < 0.45:
                xs[i] = "@%d" % rng.randrange(i)
    r = rng.random()
    if r < 0.22:
        xs[rng.randrange(n)] = rng.choice(ANY)
    elif r < 0.30 and op in ("/", "//", "%", "**"):
        xs[rng.randrange(n)] = rng.choice(["0", "0.0", "False"])
    return xs


class TooBig(Exception):
    pass


def _isint(v):
    return isinstance(v, int)


def _guarded(op, a, b):
    """a op b, refusing operand sizes that would make CPython allocate/loop for long."""
    if op == "**":
        if _isint(a) and _isint(b) and abs(a) >= 2 and b > 64:
            raise TooBig
    elif op == "<<":
        if _isint(a) and _isint(b) and b > 4096:
            raise TooBig
    elif op == "*":
        for x, y in ((a, b), (b, a)):
            if isinstance(x, (str, list, tuple)) and _isint(y) and len(x) * y > 10 ** 5:
                raise TooBig
    import operator as O
    r = {"**": O.pow, "<<": O.lshift, "*": O.mul, ">>": O.rshift}[op](a, b)
    if _isint(r) and r.bit_length() > 10 ** 5:
        raise TooBig
    return r


GUARDED = {"**", "<<", ">>", "*"}


def tuple_ok(op, xs):
    """Keep values small whichever way an implementation folds (so that neither the
    tree under test nor a fold-direction mutant can hang the worker in a C-level
    bignum loop, which the per-case alarm cannot interrupt)."""
    if op not in GUARDED or len(xs) < 2:
        return True
    for order in ("r", "l"):
        try:
            vals = build(xs)
            if order == "r":
                acc = vals[-1]
                for v in reversed(vals[:-1]):
                    acc = _guarded(op, v, acc)
            else:
                acc = vals[0]
                for v in vals[1:]:
                    acc = _guarded(op, acc, v)
        except TooBig:
            return False
        except Exception:
            pass
    return True


ENV = {"Sym": Sym, "Mat": Mat, "Box": Box}


def build(specs):
    vals = []
    for s in specs:
        if s.startswith("@"):
            vals.append(vals[int(s[1:])])
        else:
            vals.append(eval(s, ENV))
    return vals


# ---------------------------------------------------------------------------
# Hy rendering

def hy_operand(form, i, lit=None):
    if form == "var":
        return f"a{i}"
    if form == "L":
        return f"(L {i} a{i})"
    if form == "stmt":
        return f"(do (setv t{i} a{i}) t{i})"
    if form == "lit":
        return lit
    raise ValueError(form)


def py_operand(form, i):
    return f"L({i}, a{i})" if form == "L" else f"a{i}"


def render_case(op, n, mode, forms, tuples):
    """Return (hy program text, list of evaluation descriptors)."""
    params = " ".join(f"a{i}" for i in range(n))
    if mode in ("var", "L", "mix"):
        body = "(" + " ".join([op] + [hy_operand(f, i) for i, f in enumerate(forms)]) + ")"
        return f"(defn M0 [{params}] {body})", [{"f": 0, "plan": list(range(n))} for _ in tuples]
    if mode == "lit":
        defs, evs = [], []
        for j, t in enumerate(tuples):
            body = "(" + " ".join([op] + [hy_literal(s) for s in t]) + ")"
            defs.append(f"(defn M{j} [] {body})")
            evs.append({"f": j, "plan": []})
        return "\n".join(defs), evs
    if mode == "s1":
        return f"(defn M0 [xs] ({op} #* xs))", [{"f": 0, "plan": [list(range(n))]} for _ in tuples]
    if mode == "s2":
        return (f"(defn M0 [a0 xs] ({op} a0 #* xs))",
                [{"f": 0, "plan": [0, list(range(1, n))]} for _ in tuples])
    if mode == "s3":
        return (f"(defn M0 [xs b] ({op} #* xs b))",
                [{"f": 0, "plan": [list(range(n - 1)), n - 1]} for _ in tuples])
    raise ValueError(mode)


AUG_TARGETS = ["name", "attr", "sub"]


def render_aug(op, nvals, target):
    """(hy text, python twin text or None). op is the parent operator; the form is (op= x v...)."""
    vs = [f"a{i}" for i in range(nvals)]
    params = " ".join(["x"] + vs)
    hy_t = {"name": "x", "attr": "o.v", "sub": "(get d 0)"}[target]
    py_t = {"name": "x", "attr": "o.v", "sub": "d[0]"}[target]
    pre_h = {"name": "", "attr": "(setv o (Box x)) ", "sub": "(setv d [x]) "}[target]
    pre_p = {"name": "", "attr": "o = Box(x); ", "sub": "d = [x]; "}[target]
    hy = f"(defn M0 [{params}] {pre_h}({op}= {hy_t} {' '.join(vs)}) {hy_t})"
    return hy, pre_p, py_t


def aug_twin(op, nvals, target, table):
    vs = [f"a{i}" for i in range(nvals)]
    _, pre_p, py_t = render_aug(op, nvals, target)
    rhs = agg_expr(op, vs, table)
    if rhs is None:
        return None
    return f"def R({', '.join(['x'] + vs)}):\n    {pre_p}{py_t} {PYOP[op]}= {rhs}\n    return {py_t}\n"


# ---------------------------------------------------------------------------
# case generation

def cases(seed, tier, shard, nshards):
    K = 10
    combos = []
    for op in OPS:
        for n in range(0, MAXA + 1):
            for mode in MODES:
                combos.append((op, n, mode))
    rnd = 0
    idx = 0
    while True:
        for (op, n, mode) in combos:
            idx += 1
            if idx % nshards != shard:
                continue
            rng = rng_for(seed, ID, shard, idx)
            c = make_case(rng, op, n, mode, K if allowed(op, n) else 1, rnd)
            if c is not None:
                yield c
        rnd += 1


def make_case(rng, op, n, mode, K, rnd=0):
    if mode == "aug":
        if op not in MATHS or n == 0:
            return None
        nvals = n if n <= 5 else rng.randint(1, 5)
        target = AUG_TARGETS[(rnd + n) % 3]
        tuples = []
        for _ in range(K * 3):
            if len(tuples) >= K:
                break
            t = gen_tuple(rng, op, nvals + 1)
            if any(s.startswith("@") for s in t):
                continue
            if tuple_ok(op, t) and tuple_ok(AGG_DOC.get(op, op), t[1:]) and tuple_ok("*", t[1:]) \
                    and tuple_ok("*", t):
                tuples.append(t)
        if not tuples:
            return None
        hy, _, _ = render_aug(op, nvals, target)
        return {"op": op, "n": nvals, "mode": "aug", "target": target, "text": hy, "tuples": tuples}
    if op in ("is", "is-not") and mode == "lit":
        return None                     # identity of equal literals is CPython-defined (constant merging)
    if op == "cut" and mode in ("s1", "s2", "s3"):
        return None                     # `cut` has no #* fallback (not a shadow=True macro)
    if mode == "s2" and n < 1 or mode == "s3" and n < 1:
        return None
    if not allowed(op, n) and mode not in ("var", "s1", "s2", "s3"):
        return None
    tuples = []
    for _ in range(K * 3):
        if len(tuples) >= K:
            break
        t = gen_tuple(rng, op, n)
        if mode == "lit" and any(hy_literal(s) is None for s in t):
            continue
        if tuple_ok(op, t):
            tuples.append(t)
        if n == 0:
            break
    if not tuples:
        return None
    if mode == "var":
        forms = ["var"] * n
    elif mode == "L":
        forms = ["L"] * n
    elif mode == "mix":
        forms = [rng.choice(["var", "L", "stmt", "stmt"]) for _ in range(n)]
        if n and "stmt" not in forms:
            forms[rng.randrange(n)] = "stmt"
    else:
        forms = ["var"] * n
    text, evs = render_case(op, n, mode, forms, tuples)
    return {"op": op, "n": n, "mode": mode, "forms": forms, "text": text, "tuples": tuples}


def case_key(case):
    return [case["op"], case["mode"], case["text"], case["tuples"]]


# ---------------------------------------------------------------------------
# running

_twin_cache = {}


def twin_fn(src, name="R"):
    f = _twin_cache.get(src)
    if f is None:
        ns = {"Box": Box}
        exec(compile(src, "<c03twin>", "exec"), ns)
        f = ns[name]
        if len(_twin_cache) > 4000:
            _twin_cache.clear()
        _twin_cache[src] = f
    return f


def pyops_fn(op):
    import hy
    import hy.pyops
    return getattr(hy.pyops, hy.mangle(op))


def first_falsy_pair(op, vals):
    """Index d of the first adjacent pair whose comparison is falsy, else None
    (exceptions propagate)."""
    import operator as O
    f = {"=": O.eq, "!=": O.ne, "<": O.lt, "<=": O.le, ">": O.gt, ">=": O.ge, "is": O.is_,
         "is-not": O.is_not, "in": lambda a, b: a in b, "not-in": lambda a, b: a not in b}[op]
    for d in range(len(vals) - 1):
        if not f(vals[d], vals[d + 1]):
            return d
    return None


def classify_compop(op, specs, M, F, R):
    """Mechanism attribution for 'the pyops comparison function evaluates every adjacent
    pair even after one was falsy': feature = comparison operator, arity >= 3, an earlier
    pair is falsy; normaliser = drop the operands after the deciding pair and re-run the
    function."""
    if op not in COMPARE or len(specs) < 3:
        return None
    try:
        d = first_falsy_pair(op, build(specs))
    except Exception:
        return None
    if d is None or d + 2 >= len(specs):
        return None
    Fn = outcome(lambda: pyops_fn(op)(*build(specs)[:d + 2]))
    if diff_outcome(Fn, R) is None:
        return "compop-function-evaluates-all-pairs"
    return None


def call_plan(plan, vals):
    return [[vals[j] for j in p] if isinstance(p, list) else vals[p] for p in plan]


def run_case(case):
    op, n, mode, tuples = case["op"], case["n"], case["mode"], case["tuples"]
    classes = [f"op:{op}", f"arity:{n}", f"mode:{mode}"]
    if op not in STATED:
        classes.append("beyond-statement-list:" + op)
    res = {"ok": True, "nontrivial": False, "classes": classes, "events": 0, "n": 0, "nt_keys": []}
    if mode == "aug":
        return run_aug(case, res)

    tr = Trace(with_values=False)
    env = {"L": tr.L, "Sym": Sym, "Mat": Mat}
    m, exc, tree, phase = exec_hy(case["text"], env)
    ok_arity = allowed(op, n)
    star = mode in ("s1", "s2", "s3")

    if not ok_arity and not star and (op, n) not in UNDOCUMENTED:
        # recorded, not gated: the statement quantifies over allowed arities
        res["n"] = 1
        classes.append("disallowed-arity")
        classes.append("disallowed:macro-" + ("rejected" if exc is not None and phase == "compile"
                                              else "accepted"))
        F = outcome(lambda: pyops_fn(op)(*build(tuples[0])))
        classes.append("disallowed:fn-" + (F[1] if F[0] == "exc" else "accepted"))
        res["events"] = 1
        return res
    if exc is not None:
        res.update(ok=False, n=1, why=f"{phase} of allowed form raised {type(exc).__name__}: {exc}"[:400],
                   sample={"text": case["text"]})
        return res

    forms = case.get("forms") or ["var"] * n
    _, evs = render_case(op, n, mode, forms, tuples)
    xs_py = [py_operand(f, i) for i, f in enumerate(forms)]
    texpr = twin_expr(op, xs_py)
    params = ", ".join(["L"] + [f"a{i}" for i in range(n)])
    R_fn = twin_fn(f"def R({params}):\n    return {texpr}\n") if texpr is not None else None
    alt = other_fold(op, [f"a{i}" for i in range(n)])
    A_fn = twin_fn(f"def R({params}):\n    return {alt}\n") if alt else None
    F_fn = pyops_fn(op)
    logged = [i for i, f in enumerate(forms) if f == "L"]

    failures = []
    for t, ev in zip(tuples, evs):
        res["n"] += 1
        key = (op, mode, case["text"] if mode != "lit" else ev["f"], tuple(t))
        mf = getattr(m, f"M{ev['f']}")
        del tr.events[:]
        vals = build(t)
        M = outcome(mf, *call_plan(ev["plan"], vals))
        m_trace = list(tr.events)
        res["events"] += 1 + len(m_trace)
        F = outcome(F_fn, *build(t))
        R = None
        r_trace = None
        if R_fn is not None:
            del tr.events[:]
            R = outcome(R_fn, tr.L, *build(t))
            r_trace = list(tr.events)
        raising = "exc" in (M[0], F[0], (R or M)[0])
        nt = n >= 3 or raising
        if A_fn is not None and R is not None:
            A = outcome(A_fn, tr.L, *build(t))
            if diff_outcome(A, R) is not None:
                classes.append("left-and-right-fold-differ")
        if raising:
            classes.append("raises:" + ((R or M)[1] if (R or M)[0] == "exc" else "disagree"))
        if nt:
            res["nontrivial"] = True
            res["nt_keys"].append(key)

        why = None
        if star or R is None:
            # #* fallback: the statement prescribes the pyops function, whatever the arity
            why = diff_outcome(M, F, "macro form", "hy.pyops function")
        if why is None and R is not None:
            why = diff_outcome(M, R, "macro form", "Python twin") or \
                diff_outcome(F, R, "hy.pyops function", "Python twin")
        if why is None and R is not None and logged and M[0] == "val" == R[0]:
            if op in COMPARE and n == 1:
                classes.append("unary-compare-operand-" + ("evaluated" if m_trace else "not-evaluated"))
            elif op in COMPARE or op in LOGIC:
                if "stmt" not in forms or op in COMPARE:
                    if m_trace != r_trace:
                        why = f"operand trace {m_trace} but Python evaluates {r_trace}"
            elif sorted(m_trace) != sorted(r_trace):
                why = f"operands evaluated {sorted(m_trace)} expected each once {sorted(r_trace)}"
        if why is None and logged and len(set(m_trace)) != len(m_trace):
            why = f"an operand was evaluated twice: {m_trace}"
        if why is not None:
            finding = classify_compop(op, t, M, F, R) if R is not None else None
            failures.append({
                "why": (f"({op} {' '.join(t)}) mode={mode}: {why} "
                        f"[macro {show(M)}; function {show(F)}; twin {show(R) if R else '-'} "
                        f"= {texpr}]")[:700],
                "finding": finding, "sample": {"text": case["text"], "tuple": t}})
    return conclude(res, failures)


def conclude(res, failures):
    """Report an unattributed failure in preference to an attributed one, so that a
    known mechanism can never mask a different violation in the same batch."""
    if not failures:
        return res
    f = next((x for x in failures if not x["finding"]), failures[0])
    res.update(ok=False, why=f["why"], sample=f["sample"])
    if f["finding"]:
        res["finding"] = f["finding"]
    res["classes"].extend("finding:" + x["finding"] for x in failures if x["finding"])
    return res


def run_aug(case, res):
    op, nvals, target, tuples = case["op"], case["n"], case["target"], case["tuples"]
    classes = res["classes"]
    classes.append("aug-target:" + target)
    classes.append(f"aug-values:{nvals}")
    env = {"Box": Box, "Sym": Sym, "Mat": Mat}
    m, exc, tree, phase = exec_hy(case["text"], env)
    src = aug_twin(op, nvals, target, AGG_DOC)
    if src is None:
        # % and ^ take exactly one value; more is not an allowed arity (recorded)
        res["n"] = 1
        res["events"] = 1
        classes.append("disallowed:aug-" + ("rejected" if exc is not None else "accepted"))
        return res
    if exc is not None:
        res.update(ok=False, n=1, why=f"{phase} of allowed form raised {type(exc).__name__}: {exc}"[:400])
        return res
    R_fn = twin_fn(src)
    # the aggregator the implementation's table uses where the docs note no exception
    alt_src = aug_twin(op, nvals, target, dict(AGG_DOC, **{"//": "*"})) if op == "//" and nvals >= 2 else None
    failures = []
    for t in tuples:
        res["n"] += 1
        res["events"] += 1
        M = outcome(m.M0, *build(t))
        R = outcome(R_fn, *build(t))
        raising = "exc" in (M[0], R[0])
        if raising:
            classes.append("raises:" + (R[1] if R[0] == "exc" else "disagree"))
        if nvals >= 2 or raising:
            res["nontrivial"] = True
            res["nt_keys"].append((op, "aug", case["text"], tuple(t)))
        why = diff_outcome(M, R, "macro form", "Python twin")
        if why is not None:
            finding = None
            if alt_src is not None:
                A = outcome(twin_fn(alt_src), *build(t))
                if diff_outcome(M, A) is None:
                    finding = "augassign-floordiv-aggregator-undocumented"
            failures.append({
                "why": (f"({op}= {' '.join(t)}) target={target}: {why} "
                        f"[twin: {src.splitlines()[1].strip()}]")[:700],
                "finding": finding, "sample": {"text": case["text"], "tuple": t}})
    return conclude(res, failures)


def setup_worker(tier, seed):
    _load_agg_doc()
