"""C11 — no subform is silently dropped by the compiler.

History observed per form: the `ast.Name` loads of the AST `hy_compile` returns
and, when Python accepts that AST, the set of variable names actually *read*
while the code runs at module level under recording namespaces. Oracle: every
leaf variable of the form (all leaves are in evaluated positions by
construction) must be among the names loaded / read, unless the compiler
rejected the form.
"""
import ast
import contextlib
import io
import re
import sys
import types
import warnings

from hv import gen_trees as G
from hv.common import rng_for

ID = "C11"
LEVEL = "exploration"
RULE = ("straight-line forms (nesting <= 3) whose evaluated leaves are the unique variables v0 v1 ...: calls, "
        "method calls (.m o ...), (. o (m ...) [i] attr), list/tuple/set literals, dict displays, get, cut, "
        "arithmetic and comparison operators, chainc, f-strings with conversions and nested format specs, "
        "decorator lists and class bases, function definitions (fn in any value position, defn and (setv r ..) at "
        "top level; leaves in parameter annotations, defaults, return annotation, decorators - evaluated when the "
        "definition executes - over plain / positional-only / keyword-only / #* / #** parameters, and in the body, "
        "which is demanded at run time only when the function is called at once), and at top level assert (test leaf falsy in half the forms, so the message "
        "is evaluated) and try with 2-3 except clauses (the body raises; clause k matches); every leaf is bare or "
        "inside the statement wrapper (do (setv tN vN) tN); every argument/element slot holds a plain operand, #* X, #** X, :k X, "
        "or a long form (unpack-iterable X [Y]) / (unpack-mapping X [Y]) / operand-less. Non-trivial = at least one "
        "unpacking form and at least three leaves; distinct by rendered form.")
FLOOR = {"quick": 1500, "thorough": 8000}
BUDGET = {"quick": 24, "thorough": 480}
CASE_TIMEOUT = 10
NEEDS_EVENTS = True
ANCHORS = ["hy.compiler:HyASTCompiler._compile_collect", "hy.compiler:HyASTCompiler.compile_expression",
           "hy.compiler:HyASTCompiler.compile_fcomponent", "hy.compiler:HyASTCompiler.compile_list",
           "hy.compiler:HyASTCompiler.compile_tuple", "hy.compiler:HyASTCompiler.compile_dict",
           "hy.core.result_macros:compile_index_expression", "hy.core.result_macros:compile_attribute_access",
           "hy.core.result_macros:compile_compare_op_expression", "hy.core.result_macros:compile_chained_comparison"]
ASSUMPTIONS = [
    "CPython consults a non-dict locals mapping for LOAD_NAME/STORE_NAME and __missing__ of a dict-subclass globals "
    "for LOAD_GLOBAL (checked by a self-test in setup_worker)",
    "short-circuiting is excluded by construction: no and/or/if; comparison chains get truthy results from the "
    "stand-in; identity and not-in comparisons have exactly two operands; when execution raises, only the static "
    "check (ast.Name loads) decides, because a raise can legitimately pre-empt later reads",
    "a form rejected with any exception is not this property's subject (internal errors are C10's)",
    "assert/try: the generator's run-time model says which leaves control flow reaches (message only if the test "
    "stand-in is falsy; type forms of except clauses up to the matching one, its handler, finally); only those are "
    "demanded at run time, all leaves are demanded in the AST",
]
MANIFEST = {
    "text": "Generated straight-line forms in which every evaluated leaf is a uniquely named variable, with plain, "
            "#*, #**, :k and long unpacking forms in every argument/element slot, are compiled; for accepted forms "
            "the set of leaf names loaded by the AST and the set of names actually read when the code runs under "
            "recording namespaces (polymorphic stand-in values) must contain every leaf. Exploration: held on the "
            "forms run, nothing beyond.",
    "note": "Trusted: CPython's LOAD_NAME on mapping locals; the stand-in object never short-circuits. Bounds: "
            "nesting <= 3, <= 4 slots per form.",
    "technique": "runtime monitoring: recording locals/globals mapping at execution + ast.Name load census vs the "
                 "form's leaf set",
}

LEAF = re.compile(r"v\d+\Z")
_counter = [0]
_extra = {"runtime_decided": 0, "static_only": 0, "capped": {}}
_emitted = {}
PER_KEY_CAP = 30      # violating cases emitted per attributed mechanism key and shard


# ---------------------------------------------------------- stand-in and namespaces

class StandIn:
    """Callable, subscriptable, iterable, mapping-like, arithmetic, comparable (always
    truthy results), formattable, hashable. Never short-circuits anything."""
    _n = 0

    def __init__(self, truthy=True):
        StandIn._n += 1
        self._id = StandIn._n
        self._truthy = truthy

    def __call__(self, *a, **k):
        return StandIn()

    def __getattr__(self, name):
        if name.startswith("__") and name.endswith("__"):
            raise AttributeError(name)
        return StandIn()

    def __getitem__(self, k):
        return StandIn()

    def __setitem__(self, k, v):
        pass

    def __iter__(self):
        return iter((StandIn(), StandIn()))

    def __len__(self):
        return 2

    def keys(self):
        return [f"sk{self._id}a", f"sk{self._id}b"]

    def __bool__(self):
        return self._truthy

    def __hash__(self):
        return self._id

    def __contains__(self, x):
        return True

    def __format__(self, spec):
        return "s"

    def __repr__(self):
        return "s"

    __str__ = __repr__

    def __index__(self):
        return 1

    def __mro_entries__(self, bases):
        return ()

    def __enter__(self):
        return StandIn()

    def __exit__(self, *a):
        return False


def _cmp(self, other):
    return True


def _arith(self, *others):
    return StandIn()


for _n in ("eq", "ne", "lt", "le", "gt", "ge"):
    setattr(StandIn, f"__{_n}__", _cmp)
for _n in ("add", "sub", "mul", "truediv", "floordiv", "mod", "pow", "lshift", "rshift", "or", "xor", "and",
           "matmul", "divmod"):
    setattr(StandIn, f"__{_n}__", _arith)
    setattr(StandIn, f"__r{_n}__", _arith)
    setattr(StandIn, f"__i{_n}__", _arith)
for _n in ("neg", "pos", "invert", "abs"):
    setattr(StandIn, f"__{_n}__", _arith)


class Values:
    """What a leaf name evaluates to: a fresh stand-in, or the special value the case's
    run-time model asks for (a falsy stand-in; exception class number k)."""

    def __init__(self, log, special=None):
        self.log = log
        self.special = special or {}
        self.classes = {}

    def read(self, k):
        self.log.append(k)
        kind = self.special.get(k)
        if kind == "falsy":
            return StandIn(truthy=False)
        if kind and kind.startswith("exc:"):
            if kind not in self.classes:
                self.classes[kind] = type("HvExc" + kind[4:], (Exception,), {})
            return self.classes[kind]
        return StandIn()


class RecLocals:
    """Non-dict locals mapping: records reads of leaf names."""

    def __init__(self, values, store=None):
        self.values = values
        # at module level locals *are* the globals: names bound here must be visible to
        # nested code objects (function bodies, annotation scopes), so bind into the globals
        self.store = {} if store is None else store

    def __getitem__(self, k):
        if k in self.store:
            return self.store[k]
        if LEAF.match(k):
            return self.values.read(k)
        raise KeyError(k)

    def __setitem__(self, k, v):
        self.store[k] = v

    def __delitem__(self, k):
        del self.store[k]


class RecGlobals(dict):
    """dict subclass: LOAD_GLOBAL from nested code objects honours __missing__."""

    def __init__(self, values):
        super().__init__()
        self.values = values

    def __missing__(self, k):
        if LEAF.match(k):
            return self.values.read(k)
        raise KeyError(k)


def run_recorded(code, special=None):
    """-> (names read, exception or None)"""
    log = []
    values = Values(log, special)
    g = RecGlobals(values)
    g["__name__"] = "hvc11_run"
    out = io.StringIO()
    try:
        with contextlib.redirect_stdout(out), contextlib.redirect_stderr(out):
            exec(code, g, RecLocals(values, g))
    except Exception as e:
        return log, e
    return log, None


# ------------------------------------------------------------------- the oracle

def observe(ir, meta=None):
    """-> dict(outcome=..., missing_static=set, missing_run=set|None, reads=int, detail=str).
    `meta` is the case's run-time model: special leaf values, the leaves control flow really
    reaches (None = all) and the exception type that ends a complete run (None = none)."""
    meta = meta or {}
    from hy.compiler import hy_compile
    from hy.errors import HyLanguageError
    leaves = set(G.leaves_of(ir))
    model = G.build(ir)
    _counter[0] += 1
    name = f"hvc11_{_counter[0]}"
    mod = types.ModuleType(name)
    sys.modules[name] = mod
    sink = io.StringIO()
    try:
        with warnings.catch_warnings(), contextlib.redirect_stdout(sink), contextlib.redirect_stderr(sink):
            warnings.simplefilter("ignore")
            try:
                tree = hy_compile(model, mod, filename="<c11>")
            except (HyLanguageError, SyntaxError) as e:
                return dict(outcome="rejected-hy-error", detail=str(getattr(e, "msg", e))[:160])
            except Exception as e:
                return dict(outcome="rejected-internal-error", detail=type(e).__name__)
            # annotations on the parameters of a lambda are never evaluated by CPython: a name
            # that occurs only there does not count as present
            dead = {id(n) for lam in ast.walk(tree) if isinstance(lam, ast.Lambda)
                    for a in ast.walk(lam.args) if isinstance(a, ast.arg) and a.annotation is not None
                    for n in ast.walk(a.annotation)}
            static = {n.id for n in ast.walk(tree) if isinstance(n, ast.Name) and isinstance(n.ctx, ast.Load)
                      and LEAF.match(n.id) and id(n) not in dead}
            res = dict(missing_static=leaves - static, missing_run=None, reads=0)
            try:
                code = compile(tree, "<c11>", "exec")
            except SyntaxError as e:
                return dict(res, outcome="accepted-python-syntaxerror", detail=str(e.msg)[:120])
            except Exception as e:
                return dict(res, outcome="accepted-python-rejects", detail=f"{type(e).__name__}: {e}"[:160])
        log, exc = run_recorded(code, meta.get("special"))
        res["reads"] = len(log)
        if exc is not None and type(exc).__name__ != meta.get("expect_exc"):
            return dict(res, outcome="accepted-run-raised", detail=f"{type(exc).__name__}: {exc}"[:160])
        reached = leaves if meta.get("runtime") is None else leaves & set(meta["runtime"])
        reached = reached - set(meta.get("not_run") or ())
        res["missing_run"] = reached - set(log)
        return dict(res, outcome="accepted-run-completed", detail="")
    finally:
        sys.modules.pop(name, None)


def violation(obs):
    ms = obs.get("missing_static") or set()
    mr = obs.get("missing_run") or set()
    if ms or mr:
        parts = []
        if ms:
            parts.append(f"not loaded anywhere in the AST: {sorted(ms)}")
        if mr - ms:
            parts.append(f"in the AST but never read when the code ran to completion: {sorted(mr - ms)}")
        return "; ".join(parts)
    return None


# ------------------------------------------------------- mechanisms (normalisers)

KWARGS_OK_HEADS_NOT = {"get", "chainc", "=", "is", "<", "<=", ">", ">=", "!=", "is-not", "in", "not-in"}


def _is_dstar(n):
    return G.head_of(n) == "unpack-mapping"


def _strip_misplaced_dstar(n, parent=None, idx=None):
    """Turn #** forms in slots that are neither call arguments nor dict-display items into
    plain operands (`[a #** b]` -> `[a b]`), so that operand counts stay what they were."""
    if not G.is_seq(n):
        return n
    kids = n["c"]
    t = n["t"]
    here = t in ("List", "Tuple", "Set", "FStr") or (t == "Expr" and G.head_of(n) in KWARGS_OK_HEADS_NOT)
    if t == "List" and parent is not None and G.head_of(parent) == "defclass" and idx == 3:
        here = False        # class bases accept keyword arguments
    if t == "List" and parent is not None and G.head_of(parent) in ("fn", "defn", "annotate"):
        # parameter lists and :tp lists spell **kwargs / ParamSpec with #**; only the decorator
        # list of defn (a list before the function's name, not after :tp) is an element slot
        sibs = parent["c"]
        name_at = next((i for i, c in enumerate(sibs) if i >= 1 and (
            c["t"] == "Sym" or (G.head_of(c) == "annotate" and len(c["c"]) > 1 and c["c"][1]["t"] == "Sym"))),
            len(sibs))
        after_tp = idx >= 1 and sibs[idx - 1]["t"] == "Kw" and sibs[idx - 1]["v"] == "tp"
        here = G.head_of(parent) == "defn" and idx < name_at and not after_tp
    out = []
    for i, c in enumerate(kids):
        if _is_dstar(c) and (here or (t == "FComp" and i >= 1)):
            if len(c["c"]) < 2:
                continue
            c = c["c"][1]
        out.append(_strip_misplaced_dstar(c, n, i))
    return dict(n, c=out)


def _has_misplaced_dstar(ir):
    return _strip_misplaced_dstar(ir) != ir


def _cmp1(n):
    return G.head_of(n) in G.CMP1 and len(n["c"]) == 2 and not _is_dstar(n["c"][1]) \
        and G.head_of(n["c"][1]) != "unpack-iterable"


def _pad_cmp1(ir):
    return G.map_ir(ir, lambda n: dict(n, c=n["c"] + [G.I(1)]) if _cmp1(n) else n)


def _truncate_dstar(ir):
    return G.map_ir(ir, lambda n: dict(n, c=n["c"][:2]) if _is_dstar(n) and len(n["c"]) > 2 else n)


MECHANISMS = [
    # (return-annotation-statements-dropped was repaired in /repo: a repaired mechanism is not attributed)
    ("single-operand-comparison-drops-operand", lambda ir: _pad_cmp1(ir) != ir, _pad_cmp1),
    ("unpack-mapping-surplus-operands-dropped", lambda ir: _truncate_dstar(ir) != ir, _truncate_dstar),
    ("unpack-mapping-dropped-outside-call-or-dict", _has_misplaced_dstar, _strip_misplaced_dstar),
]


def _known_keys():
    import json
    import os
    keys = set()
    here = os.path.dirname(os.path.dirname(os.path.abspath(__file__)))
    for path in (os.path.join(here, "known_findings.json"), os.environ.get("VERIF_KNOWN_EXTRA")):
        if path and os.path.exists(path):
            try:
                with open(path) as f:
                    for e in json.load(f).get("findings", []):
                        if e.get("property") == ID and e.get("status") == "known":
                            keys.add(e["key"])
            except (OSError, ValueError):
                pass
    return keys


def attribute(ir, meta=None):
    """Key of the mechanism that explains the dropped leaves, or None. All present
    features normalised away must leave no violation; a mechanism is needed if the form
    with every other feature normalised still violates. Unrecorded keys first."""
    present = [(k, norm) for k, has, norm in MECHANISMS if has(ir)]
    if not present:
        return None

    def apply(ms):
        j = ir
        for _, norm in ms:
            j = norm(j)
        return j

    def fails(j):
        try:
            return violation(observe(j, meta)) is not None
        except G.Unbuildable:
            return False

    if fails(apply(present)):
        return None
    needed = [k for k, norm in present if fails(apply([x for x in present if x[0] != k]))]
    if not needed:
        needed = [k for k, norm in present if not fails(norm(ir))]
        if not needed:
            return None
    known = _known_keys()
    needed.sort(key=lambda k: k in known)
    return needed[0]


# ------------------------------------------------------------------------ cases

def cases(seed, tier, shard, nshards):
    i = 0
    nest = 3
    while True:
        rng = rng_for(seed, ID, shard, i)
        i += 1
        ir, g = G.gen_leafform(rng, rng.choice([1, 2, 3, nest]))
        yield {"ir": ir, "kinds": sorted(g.kinds), "unpacks": g.unpacks, "text": G.show(ir),
               "meta": {"special": g.special, "runtime": g.runtime, "expect_exc": g.expect_exc,
                        "not_run": g.not_run}}


def setup_worker(tier, seed):
    # premise self-test: mapping locals are consulted for LOAD_NAME, dict-subclass globals for LOAD_GLOBAL
    code = compile("import math\nv1\nf = lambda: v2\nf()\n[v3 for _ in (1,)]\n", "<selftest>", "exec")
    log, exc = run_recorded(code)
    if exc is not None or sorted(set(log)) != ["v1", "v2", "v3"]:
        raise SystemExit(f"recording namespaces do not see name reads: {log!r} {exc!r}")


def finish_worker():
    return dict(_extra)


def gate(tot, classes, extra, tier):
    if extra.get("runtime_decided", 0) < 500:
        return f"only-{extra.get('runtime_decided', 0)}-forms-decided-at-run-time"
    return None


def run_case(case):
    ir = case["ir"]
    leaves = G.leaves_of(ir)
    if len(leaves) != len(set(leaves)):
        return {"ok": None, "classes": ["skipped-duplicate-leaf"]}
    try:
        obs = observe(ir, case.get("meta"))
    except G.Unbuildable:
        return {"ok": None, "classes": ["unbuildable"]}
    unpacks = sum(1 for n, _ in G.walk(ir) if G.head_of(n) in ("unpack-iterable", "unpack-mapping"))
    classes = ["out:" + obs["outcome"]] + list(case.get("kinds", ())) + ["leaves:%d" % min(len(leaves), 9)]
    if obs["outcome"] == "accepted-run-completed":
        _extra["runtime_decided"] += 1
    elif obs["outcome"].startswith("accepted"):
        _extra["static_only"] += 1
    res = {"ok": True, "nontrivial": unpacks >= 1 and len(leaves) >= 3, "classes": classes,
           "events": obs.get("reads", 0) + (1 if "missing_static" in obs else 0),
           "sample": {"form": case.get("text", G.show(ir))[:300], "outcome": obs["outcome"], "leaves": len(leaves)}}
    why = violation(obs)
    if why:
        key = attribute(ir, case.get("meta"))
        res.update(ok=False, finding=key,
                   why=f"{G.show(ir)[:400]}  is accepted ({obs['outcome']}) but {why}"
                       f"{'  [mechanism ' + key + ']' if key else ''}")
        if key is not None:
            n = _emitted[key] = _emitted.get(key, 0) + 1
            if n > PER_KEY_CAP:
                # frequent attributed mechanism: keep it from crowding the forwarded violations
                _extra["capped"][key] = _extra["capped"].get(key, 0) + 1
                return {"ok": None, "classes": classes + ["capped:" + key]}
    return res


def case_key(case):
    return case["ir"]
