"""C36 — `hy.macroexpand-1` expands exactly one step, `hy.macroexpand` reaches a fixpoint,
and neither mutates its input.

History observed per probe: the model returned by `hy.macroexpand-1` and by
`hy.macroexpand`, and a structural snapshot (types, object identities, payload,
position attributes) of the input model before and after each call.

Oracle: the generator builds every macro from a *template* (a form tree with
holes), so it knows each link's expansion without running Hy: `macroexpand-1`
must return the template instantiated once (or the input when the head is not a
model-returning macro), `macroexpand` the first form of the sequence whose head
is not a model-returning macro.  `when`/`cond` are modelled from their
documented expansions; every other core macro used (`if setv fn do + and not
while lfor get quote .`) returns compiler results and must leave the form alone.

Carve-outs:
* a step through `when`/`cond` is not compared with an exact expansion (docs: "shorthand for" /
  "equivalent to"): macroexpand-1 must leave a form no longer headed by when/cond, macroexpand must
  equal what repeated macroexpand-1 reaches; user-defined links are compared exactly;
* "returns the model unchanged" is checked structurally, not by object identity;
* only forms that compile are put under a core result macro (macroexpanding
  `(if)` raises a syntax error; the property does not speak about that);
* position attributes of the *result* are not constrained;
* finding `macroexpand-fills-unset-positions`: an input whose head expression carries
  positions while inner atoms do not (only constructible by hand) gets those unset
  position attributes filled in on the caller's objects.  Generated as a small separate
  class (`GENERATE_MIXED_POSITIONS`) and attributed by re-running the probe with uniform
  positions.
"""
import sys

from hv import macrogen as G
from hv.common import rng_for, same_model

ID = "C36"
LEVEL = "exploration"
RULE = ("generated macro chains m0 -> m1 -> ... -> mk -> plain form (k <= 6; arguments threaded through holes, "
        "literals, #* rest splices; links optionally wrapped in when/cond/do; final forms: collections, calls of "
        "non-macros, core result macros, dotted/method/expression heads, the argument itself, (), Python values), a "
        "second module with the same names and other templates (:module by object/name), a fixture module required "
        "under a prefix (dotted macro heads, hy.R one-shot), :macros overrides; probes: calls of every chain macro, "
        "non-expression models, odd heads, core forms, each as read / position-free / mixed-position input and called "
        "with module object, module name, or from inside the module. Non-trivial = probe whose expansion sequence has "
        ">= 2 model-returning steps; distinct by (macro definitions, probe, input mode, call style).")
FLOOR = {"quick": 400, "thorough": 800}
BUDGET = {"quick": 25, "thorough": 360}
CASE_TIMEOUT = 20
NEEDS_EVENTS = True
ANCHORS = ["hy.macros:macroexpand", "hy.core.util:_macroexpand", "hy.models:replace_hy_obj"]
ASSUMPTIONS = [
    "the generator's template substitution is the meaning of a quasiquoted macro body `(head ~p0 ~@rest ...)",
    "`when`/`cond` expand as documented in docs/api.rst ((if test (do body...) None); nested ifs ending in None)",
    "hy.read of a rendered form yields the model the form denotes (used to build inputs and expectations)",
]
MANIFEST = {
    "text": "Generated chains of user macros (<= 7 links, arguments threaded through, links through when/cond/do, "
            "finals headed by core result macros, dotted heads, non-expression models, :macros/:module arguments) "
            "are expanded with hy.macroexpand-1 and hy.macroexpand; the results are compared with the expansion the "
            "generator computes from its own templates (one step / first non-macro head) and the input model is "
            "snapshotted (types, identities, payload, positions) before and after. Exploration: held on the probes run.",
    "note": "Trusted: template substitution as the meaning of quasiquote; the documented expansions of when/cond; "
            "hy.read for building inputs. Bounds: chain <= 7 macros, <= 3 parameters + #* rest, argument depth <= 3.",
    "technique": "runtime monitoring: returned models vs generator-known expansion sequence + before/after input snapshot",
}

GENERATE_MIXED_POSITIONS = True      # see the finding in the module docstring
FINDING_MIXED = "macroexpand-fills-unset-positions"
FINDING_PY = "macroexpand-py-filename-none"   # (hy.macroexpand '(py "1")) raises TypeError: compiler.filename is None

STEMS = ["m", "mac-", "lnk_", "σ", "x->y", "do-it!", "Step"]
ARG_SYMS = ["x", "y", "foo-bar", "zed?", "obj.attr", "None", "True"]
CORE_RESULT_HEADS = ["if", "do", "+", "and", "fn", "setv", "while", "not", "lfor", "get", "quote", "."]


def _mangle(s):
    import hy
    return ".".join(hy.mangle(p) for p in s.split("."))


# ---------------------------------------------------------------------------
# generator

def gen_arg(rng, table, nest_ok, depth=0, kw_ok=False):
    """A literal argument tree for a probe (never contains holes). Keywords (which macros receive
    literally) only where the expansion sequence never reaches a compiling core macro: a trailing
    keyword in a compiled call is a syntax error."""
    r = rng.random()
    if not kw_ok and 0.55 <= r < 0.62:
        r = 0.4
    if r < 0.3:
        return G.S(rng.choice(ARG_SYMS))
    if r < 0.45:
        return ["i", rng.randint(-5, 99)]
    if r < 0.55:
        return ["t", rng.choice(["s", "two words", "q\"uote", "ü"])]
    if r < 0.62:
        return ["k", rng.choice(["kw", "a-b"])]
    if depth >= 2:
        return ["i", depth]
    if r < 0.72:
        return ["l", [gen_arg(rng, table, nest_ok, depth + 1, kw_ok) for _ in range(rng.randint(0, 2))]]
    if r < 0.88 and nest_ok and table:
        # a macro call as an argument: must come back unexpanded
        name = rng.choice(sorted(table))
        return gen_call(rng, name, table, nest_ok, depth + 1, kw_ok=kw_ok)
    if r < 0.94:
        return G.E(G.S("when"), G.S("c"), gen_arg(rng, table, nest_ok, depth + 1, kw_ok))
    return G.E(G.S("f"), gen_arg(rng, table, nest_ok, depth + 1, kw_ok))


def gen_call(rng, name, table, nest_ok, depth=0, spell=None, kw_ok=False):
    mac = table[name]
    n = mac["n"] + (rng.randint(0, 2) if mac["rest"] else 0)
    return G.E(G.S(spell or name), *[gen_arg(rng, table, nest_ok, depth, kw_ok) for _ in range(n)])


def gen_targs(rng, n_self, rest_self, target):
    """Argument templates for a call of `target` from a macro with n_self parameters."""
    def one():
        r = rng.random()
        if r < 0.62 and n_self:
            return ["h", rng.randrange(n_self)]
        if r < 0.75:
            return ["i", rng.randint(0, 50)]
        if r < 0.82:
            return G.S(rng.choice(["lit-sym", "K"]))
        if r < 0.9 and n_self:
            return ["l", [["h", rng.randrange(n_self)], ["i", 1]]]
        if n_self:
            return G.E(G.S("wrap"), ["h", rng.randrange(n_self)])
        return ["t", "lit"]
    args = [one() for _ in range(target["n"])]
    if target["rest"]:
        if rest_self and rng.random() < 0.6:
            args.append(["r"])
        args += [one() for _ in range(rng.choice([0, 0, 1, 2]))]
    return args


def gen_link(rng, n, rest, nxt_name, nxt, wrap_ok=True):
    call = G.E(G.S(nxt_name), *gen_targs(rng, n, rest, nxt))
    hole = (lambda: ["h", rng.randrange(n)]) if n else (lambda: G.S("tst"))
    r = rng.random()
    if r < 0.66 or not wrap_ok:
        return "direct", call
    if r < 0.78:
        body = [call] if rng.random() < 0.6 else [hole(), call]
        return "when", G.E(G.S("when"), hole(), *body)
    if r < 0.9:
        if rng.random() < 0.5:
            return "cond", G.E(G.S("cond"), hole(), call)
        return "cond", G.E(G.S("cond"), hole(), call, G.S("True"), hole())
    if r < 0.95:
        return "do", G.E(G.S("do"), call)
    return "if", G.E(G.S("if"), hole(), call, ["i", 0])


FINALS = ["list", "dict", "tuple", "call", "call-rest", "if", "do", "plus", "and", "fn", "setv", "while",
          "not", "lfor", "get", "quote", "dot", "dotted", "method", "exprhead", "arg", "empty", "sym",
          "pyint", "pystr", "pylist", "kw"]


PURE_FINALS = {"list", "dict", "tuple", "dotted", "method", "exprhead", "sym", "kw", "pyint", "pystr", "pylist",
               "empty"}


def gen_final(rng, n, rest, kind=None):
    """(kind, template tree, body text or None). body text None = quasiquoted template."""
    h = (lambda: ["h", rng.randrange(n)]) if n else (lambda: ["i", 7])
    kind = kind or rng.choice(FINALS)
    if kind == "call-rest" and not rest:
        kind = "call"
    if kind == "arg" and not n:
        kind = "sym"
    t = {
        "list": lambda: ["l", [h(), h()]],
        "dict": lambda: ["d", [["t", "k"], h()]],
        "tuple": lambda: ["u", [h(), ["i", 9]]],
        "call": lambda: G.E(G.S("plain-fn"), h(), ["k", "kw"], h()),
        "call-rest": lambda: G.E(G.S("plain-fn"), h(), ["r"]),
        "if": lambda: G.E(G.S("if"), h(), h(), ["i", 0]),
        "do": lambda: G.E(G.S("do"), h(), h()),
        "plus": lambda: G.E(G.S("+"), h(), ["i", 1]),
        "and": lambda: G.E(G.S(rng.choice(["and", "or"])), h(), h()),
        "fn": lambda: G.E(G.S("fn"), ["l", [G.S("q")]], h()),
        "setv": lambda: G.E(G.S("setv"), G.S("target-v"), h()),
        "while": lambda: G.E(G.S("while"), h(), h()),
        "not": lambda: G.E(G.S("not"), h()),
        "lfor": lambda: G.E(G.S("lfor"), G.S("q"), h(), h()),
        "get": lambda: G.E(G.S("get"), h(), h()),
        "quote": lambda: G.E(G.S("quote"), h()),
        "dot": lambda: G.E(G.S("."), h(), G.S("attr")),
        "dotted": lambda: G.E(G.S("obj.meth"), h()),
        "method": lambda: G.E(G.S(".meth"), h(), h()),
        "exprhead": lambda: G.E(G.E(G.S("mk-fn"), h()), h()),
        "arg": lambda: ["h", rng.randrange(n)],
        "empty": lambda: G.E(),
        "sym": lambda: G.S("just-a-symbol"),
        "kw": lambda: ["k", "final"],
        "pyint": lambda: ["i", 42],
        "pystr": lambda: ["t", "txt"],
        "pylist": lambda: ["l", [["i", 1], ["t", "a"]]],
    }[kind]()
    body = None
    if kind == "pyint":
        body = "42"
    elif kind == "pystr":
        body = '"txt"'
    elif kind == "pylist":
        body = '[1 "a"]'
    elif kind == "empty":
        body = "'()"
    return kind, t, body


def gen_chain(rng, names, shape=None, final_kind=None):
    """names: macro names m0..mk. shape: optional [(n, rest)] to copy arities from."""
    k = len(names)
    shape = shape or [(rng.randint(0, 3), rng.random() < 0.35) for _ in range(k)]
    table, kinds = {}, []
    for i in reversed(range(k)):
        n, rest = shape[i]
        if i == k - 1:
            kind, tpl, body = gen_final(rng, n, rest, final_kind)
            kinds.append("final:" + kind)
        else:
            # a chain ending in () cannot sit under a core form (compiling () is a syntax error)
            kind, tpl = gen_link(rng, n, rest, names[i + 1], table[names[i + 1]],
                                 wrap_ok=kinds[0] != "final:empty")
            body = None
            kinds.append("link:" + kind)
        table[names[i]] = {"n": n, "rest": rest, "tpl": tpl, "body": body}
    return {n: table[n] for n in names}, shape, kinds


def render_defs(table):
    out = []
    for name, mac in table.items():
        params = " ".join(f"p{j}" for j in range(mac["n"])) + (" #* rest" if mac["rest"] else "")
        body = mac["body"] if mac["body"] is not None else "`" + G.render(mac["tpl"], quasi=True)
        out.append(f"(defmacro {name} [{params.strip()}] {body})")
    return "\n".join(out)


def render_extra(extra):
    """A dict display {mangled-name (fn [params] body)} for the :macros argument."""
    parts = []
    for name, mac in extra.items():
        params = " ".join(f"p{j}" for j in range(mac["n"])) + (" #* rest" if mac["rest"] else "")
        body = mac["body"] if mac["body"] is not None else "`" + G.render(mac["tpl"], quasi=True)
        parts.append(f'"{_mangle(name)}" (fn [{params.strip()}] {body})')
    return "{" + " ".join(parts) + "}"


# --- the oracle: one expansion step over trees -----------------------------

def head_name(t):
    if t[0] == "e" and t[1] and t[1][0][0] == "s":
        nm = t[1][0][1]
        if nm.strip(".") and not nm.startswith(".") and ".." not in nm:
            return _mangle(nm)
    return None


def step(t, table):
    """The form `t` expands to in one step, or None if its head is not a model-returning macro.
    table: mangled visible name -> macro description."""
    nm = head_name(t)
    if nm is None:
        return None
    args = t[1][1:]
    if nm in table:
        mac = table[nm]
        return G.subst(mac["tpl"], args[:mac["n"]], args[mac["n"]:])
    if nm == "when":
        return G.E(G.S("if"), args[0], G.E(G.S("do"), *args[1:]), G.S("None"))
    if nm == "cond":
        def c(a):
            return G.E(G.S("if"), a[0], a[1], c(a[2:])) if a else G.S("None")
        return c(args)
    return None


def expansions(t, table, limit=40):
    seq = [t]
    while len(seq) < limit:
        nxt = step(seq[-1], table)
        if nxt is None:
            break
        seq.append(nxt)
    return seq


STATIC_PROBES = [
    # (class, text template with {M} = a macro name in scope, {C} = a full macro call)
    ("nonexpr:symbol", "{M}"), ("nonexpr:list", "[{M} 1 2]"), ("nonexpr:tuple", "#({M} 1 2)"),
    ("nonexpr:dict", "{{{M} 1}}"), ("nonexpr:set", "#{{{M} 1}}"), ("nonexpr:string", '"{M}"'),
    ("nonexpr:int", "17"), ("nonexpr:float", "1.5"), ("nonexpr:keyword", ":{M}"),
    ("nonexpr:fstring", "#[f[a{{{C}}}b]f]"), ("nonexpr:bytes", 'b"x"'), ("nonexpr:bracket", "#[[{M}]]"),
    ("head:empty", "()"), ("head:call", "({C} 3)"), ("head:int", "(1 {M})"), ("head:string", '("{M}" 1)'),
    ("head:keyword", "(:{M} 1)"), ("head:list", "([{M}] 1)"), ("head:method", "(.{M} x 1)"),
    ("head:dotted-obj", "(obj.{M} 1 2)"), ("head:attr-of-macro", "({M}.attr 1)"),
    ("head:nonmacro", "(not-a-macro {C})"), ("head:dots", "(... 1)"),
    ("core:if", "(if {C} 1 2)"), ("core:setv", "(setv v {C})"), ("core:fn", "(fn [a b] {C})"),
    ("core:do", "(do {C} {C})"), ("core:+", "(+ 1 {C})"), ("core:and", "(and {C} x)"),
    ("core:while", "(while x {C})"), ("core:quote", "(quote {C})"), ("core:quasi", "`(a ~{C})"),
    ("core:dot", "(. x attr)"), ("core:get", "(get x {C})"), ("core:lfor", "(lfor q xs {C})"),
    ("core:try", "(try {C} (except [e Exception] 2))"), ("core:with", "(with [w {C}] 1)"),
    ("core:let", "(let [a {C}] a)"), ("core:setx", "(setx v {C})"), ("core:cut", "(cut x 1 2)"),
    ("core:dfor", "(dfor q xs q {C})"), ("core:return", "(fn [] (return {C}))"),
    ("core:assert", "(assert {C})"), ("core:del", "(del x)"), ("core:py", '(py "1+1")'), ("core:pys", '(pys "v = 1")'),
    ("core:import", "(import math)"), ("core:=", "(= {C} 1)"), ("core:in", "(in {C} xs)"),
    ("core:defn", "(defn f [a] {C})"), ("core:defclass", "(defclass K [] (setv a {C}))"),
    ("core:match", "(match x 1 {C} _ 0)"), ("core:raise", "(raise (E {C}))"),
    ("core:eval-when-compile", "(eval-when-compile 1)"), ("core:do-mac", "(do-mac 1)"),
    ("model:when", "(when {C} x {C})"), ("model:cond", "(cond a {C} b {C})"), ("model:cond0", "(cond)"),
    ("model:when1", "(when x)"),
]


def gen_case(rng, tier):
    k = rng.choice([1, 2, 2, 3, 3, 4, 5, 6, 7])
    stem = rng.choice(STEMS)
    names = [f"{stem}{i}" for i in range(k)]
    final_kind = rng.choice(FINALS)
    main, shape, kinds = gen_chain(rng, names, final_kind=final_kind)
    other, _, kinds2 = gen_chain(rng, names, shape=shape, final_kind=rng.choice(["list", "call", "if", "sym", "do"]))
    # fixture module required under a prefix: chain fm0 -> fm1 -> final
    fnames = ["fm0", "fm-1"]
    fix, _, kinds3 = gen_chain(rng, fnames, final_kind=rng.choice(["list", "call", "setv", "tuple"]))
    prefix = rng.choice(["P", "pre-fix", "Qx_2"])
    req_shape = rng.choice(["as", "as", "names", "both"])
    req_lines, visible = [], {}
    if req_shape in ("as", "both"):
        req_lines.append(f"(require FIXMOD :as {prefix})")
        visible.update({f"{prefix}.{n}": fix[n] for n in fnames})
    if req_shape in ("names", "both"):
        req_lines.append("(require FIXMOD [fm-1])")
        visible["fm-1"] = fix["fm-1"]
    nest_ok = final_kind != "empty"
    pure = (all(k_ == "link:direct" or k_.startswith("final:") for k_ in kinds)
            and final_kind in PURE_FINALS)
    # :macros override: re-define one chain macro and add a brand-new name
    extra = {}
    ov = rng.choice(names)
    _, tpl, body = gen_final(rng, main[ov]["n"], main[ov]["rest"], rng.choice(["list", "call", "tuple", "sym", "if"]))
    extra[ov] = {"n": main[ov]["n"], "rest": main[ov]["rest"], "tpl": tpl, "body": body}
    if rng.random() < 0.5:
        extra["only-extra"] = {"n": 1, "rest": False, "body": None,
                               "tpl": G.E(G.S(names[0]), *gen_targs(rng, 1, False, main[names[0]]))}
    scope = dict(main)
    scope.update(visible)

    probes = []
    nprobe = rng.randint(6, 10) if tier == "quick" else rng.randint(8, 14)
    modes = ["read", "read", "bare", "bare", "mixed-inner"]
    styles = ["obj", "obj", "name", "calling"]
    starts = [names[0]] + [rng.choice(names) for _ in range(nprobe)]
    for j in range(nprobe):
        r = rng.random()
        p = {"mode": rng.choice(modes), "style": rng.choice(styles), "macros": False, "where": "main"}
        if r < 0.5:
            nm = starts[j]
            spell = _mangle(nm) if rng.random() < 0.15 else nm
            p["tree"] = gen_call(rng, nm, scope, nest_ok, spell=spell, kw_ok=pure)
            p["cls"] = "chain"
        elif r < 0.58:
            nm = rng.choice(sorted(visible))
            p["tree"] = gen_call(rng, nm, scope, nest_ok)
            p["cls"] = "dotted-macro" if "." in nm else "required-macro"
        elif r < 0.62:
            # one-shot require syntax (docs/api.rst hy.R): expands with the fixture's own macro
            nm = rng.choice(fnames)
            call = gen_call(rng, nm, fix, False)
            p["tree"] = G.E(G.S(f"hy.R.FIXMOD.{nm}"), *call[1][1:])
            p["cls"] = "hy.R"
        elif r < 0.72:
            nm = rng.choice(sorted(extra))
            p["tree"] = gen_call(rng, nm, {**scope, **extra}, nest_ok)
            p["macros"] = True
            p["cls"] = "extra-macros"
        elif r < 0.8:
            p["tree"] = gen_call(rng, rng.choice(names), other, nest_ok)
            p["where"] = "other"
            p["style"] = rng.choice(["obj", "name"])
            p["cls"] = "other-module"
        else:
            cls, tmpl = rng.choice(STATIC_PROBES)
            nm = rng.choice(names)
            call = G.render(gen_call(rng, nm, scope, nest_ok)) if nest_ok else "(plain 1)"
            p["text"] = tmpl.format(M=nm, C=call)
            p["cls"] = cls
            if cls.startswith("model:"):
                # when/cond probes are given as trees so the oracle expands them
                p["tree"] = None
        if GENERATE_MIXED_POSITIONS and rng.random() < 0.04 and p["cls"] in ("chain", "required-macro"):
            p["mode"] = "mixed"
        probes.append(p)

    # expectations (the oracle is evaluated here, at generation time, over trees; the rendered
    # expectation travels with the case so that a replay does not depend on generator code)
    for p in probes:
        if p.get("tree") is not None:
            table = dict(other) if p["where"] == "other" else dict(scope)
            if p["macros"]:
                table.update(extra)
            t = p.pop("tree")
            mt = {_mangle(n): m for n, m in table.items()}
            if p["cls"] == "hy.R":
                # the head resolves in FIXMOD; later steps resolve in the calling module
                nm = t[1][0][1].split(".")[-1]
                first = step(G.E(G.S(nm), *t[1][1:]), {_mangle(n): m for n, m in fix.items()})
                seq = [t] + expansions(first, mt)
            else:
                seq = expansions(t, mt)
            p["text"] = G.render(t)
            p["exp1"] = G.render(seq[1] if len(seq) > 1 else seq[0])
            p["expN"] = G.render(seq[-1])
            p["steps"] = len(seq) - 1
            # a step through the core macros when/cond is always the last one (it yields an `if` form);
            # its exact shape is not documented, see do_probe
            core_last = len(seq) > 1 and head_name(seq[-2]) in ("when", "cond") and head_name(seq[-2]) not in mt
            p["pre"] = G.render(seq[-2]) if core_last else None
        else:
            p.pop("tree", None)
            if p["cls"].startswith("model:"):
                # parse the static text back into a tree via the reader-independent route: these
                # templates are simple enough to expand textually
                p["steps"] = None       # filled in by run_case from the read model (when/cond only)
            else:
                p["exp1"] = p["expN"] = p["text"]
                p["steps"] = 0
    return {
        "defs": render_defs(main) + "\n" + "\n".join(req_lines),
        "other": render_defs(other),
        "fix": render_defs(fix),
        "extra": render_extra(extra),
        "probes": probes,
        "kinds": sorted(set(kinds + kinds2 + kinds3)),
        "k": k,
    }


def cases(seed, tier, shard, nshards):
    i = 0
    while True:
        rng = rng_for(seed, ID, shard, i)
        i += 1
        yield gen_case(rng, tier)


# ---------------------------------------------------------------------------
# running

def _model_to_tree(m):
    """Tree of a model read from one of the static when/cond probes."""
    import hy.models as M
    if isinstance(m, M.Expression):
        if len(m) >= 2 and m[0] == M.Symbol(".") and all(isinstance(x, M.Symbol) for x in m):
            return G.S(".".join(str(x) for x in m[1:]))
        return ["e", [_model_to_tree(x) for x in m]]
    if isinstance(m, M.List):
        return ["l", [_model_to_tree(x) for x in m]]
    if isinstance(m, M.Tuple):
        return ["u", [_model_to_tree(x) for x in m]]
    if isinstance(m, M.Dict):
        return ["d", [_model_to_tree(x) for x in m]]
    if isinstance(m, M.Symbol):
        return G.S(str(m))
    if isinstance(m, M.Integer):
        return ["i", int(m)]
    if isinstance(m, M.String):
        return ["t", str(m)]
    if isinstance(m, M.Keyword):
        return ["k", m.name]
    raise ValueError(type(m))


def build_input(text, mode):
    import hy
    m = hy.read(text)
    if mode == "bare":
        G.strip_positions(m)
    elif mode == "mixed":
        G.strip_positions(m, keep_root=True)
    elif mode == "mixed-inner":
        for a in G.POS_ATTRS:
            if hasattr(m, a):
                delattr(m, a)
    return m


def do_probe(p, mods, names, extra):
    """Run one probe. Returns (why or None, mutation-only?)"""
    import hy
    import hy.models as M
    target = mods[names["other"] if p["where"] == "other" else names["main"]]
    kwargs = {}
    if p["macros"]:
        kwargs["macros"] = extra
    outs = []
    for fname in ("macroexpand_1", "macroexpand"):
        inp = build_input(p["text"], p["mode"])
        before = G.snapshot(inp)
        try:
            if p["style"] == "calling":
                # no module argument: hy uses the calling module
                target.__dict__["HV_INPUT"] = inp
                target.__dict__["HV_KW"] = kwargs
                hyname = "macroexpand-1" if fname == "macroexpand_1" else "macroexpand"
                got = hy.eval(hy.read(f"(hy.{hyname} HV_INPUT #** HV_KW)"), module=target)
            elif p["style"] == "name":
                got = getattr(hy, fname)(inp, target.__name__, **kwargs)
            else:
                got = getattr(hy, fname)(inp, target, **kwargs)
        except BaseException as e:
            if type(e).__name__ == "CaseTimeout":
                raise
            return f"hy.{fname} raised {type(e).__name__}: {str(e)[:300]}", False
        after = G.snapshot(inp)
        outs.append((fname, inp, got, before, after))
    def core_headed(m):
        return (isinstance(m, M.Expression) and len(m) > 0 and isinstance(m[0], M.Symbol)
                and hy.mangle(str(m[0])) in ("when", "cond"))

    for fname, inp, got, before, after in outs:
        want_text = p["exp1"] if fname == "macroexpand_1" else p["expN"]
        if not isinstance(got, M.Object):
            return f"hy.{fname} returned a non-model {type(got).__name__}", False
        if p.get("pre") and (fname == "macroexpand" or p["steps"] == 1):
            # the last step goes through `when`/`cond`, documented only as "shorthand for" / "equivalent
            # to" an `if` ladder: do not demand the exact expansion. One step must leave a form that is
            # no longer headed by when/cond; the fixpoint must be what expanding step by step reaches.
            if core_headed(got) or same_model(got, hy.read(p["pre"])) is None:
                return (f"hy.{fname} of {p['text']} returned {hy.repr(got)}: the `when`/`cond` form "
                        f"'{p['pre']} was not expanded"), False
            if fname == "macroexpand":
                cur = hy.read(p["pre"])
                for _ in range(12):
                    nxt = hy.macroexpand_1(cur, target, **kwargs)
                    if same_model(nxt, cur) is None:
                        break
                    cur = nxt
                d = same_model(got, cur)
                if d:
                    return (f"hy.macroexpand of {p['text']} returned {hy.repr(got)}, but expanding step by step with "
                            f"hy.macroexpand-1 reaches {hy.repr(cur)}: {d}"), False
            continue
        want = hy.read(want_text)
        d = same_model(got, want)
        if d:
            return (f"hy.{fname} of {p['text']} returned {hy.repr(got)}, expected '{want_text} "
                    f"({p['steps']} model-returning step(s) from the input): {d}"), False
    for fname, inp, got, before, after in outs:
        d = G.snapshot_diff(before, after)
        if d:
            only_pos = G.snapshot_diff(before, after, ignore_new_pos=True) is None
            return f"hy.{fname} mutated its input model {p['text']} ({p['mode']} positions): {d}", only_pos
    return None, False


def run_case(case):
    import hy
    G.reset_state(module_prefixes=("hvc36m", "hvc36o", "hvc36f"))
    names = {"main": G.unique("hvc36m"), "other": G.unique("hvc36o"), "fix": G.unique("hvc36f")}
    classes = ["k:%d" % case["k"]] + case["kinds"]
    res = {"ok": True, "nontrivial": False, "classes": classes, "events": 0, "n": 0, "nt_keys": []}
    with G.Registered(names.values()) as mods:
        main, other, fix = (mods[names[x]] for x in ("main", "other", "fix"))
        for text, mod, label in ((case["fix"], fix, "fixture"), (case["other"], other, "other"),
                                 (case["defs"].replace("FIXMOD", names["fix"]), main, "main")):
            exc, phase = G.run_hy(text, mod)
            if exc is not None:
                res.update(ok=False, why=f"defining the {label} macros failed at {phase}: "
                                         f"{type(exc).__name__}: {str(exc)[:300]}")
                return res
        extra = hy.eval(hy.read(case["extra"]), module=main)
        bad = None
        for p in case["probes"]:
            p = dict(p)
            p["text"] = p["text"].replace("FIXMOD", names["fix"])
            if p.get("steps") is None:
                t = _model_to_tree(hy.read(p["text"]))
                seq = expansions(t, {})
                p["exp1"], p["expN"], p["steps"] = G.render(seq[1]), G.render(seq[-1]), len(seq) - 1
                p["pre"] = p["text"]
            else:
                if p.get("pre"):
                    p["pre"] = p["pre"].replace("FIXMOD", names["fix"])
                p["exp1"] = p["exp1"].replace("FIXMOD", names["fix"])
                p["expN"] = p["expN"].replace("FIXMOD", names["fix"])
            why, only_pos = do_probe(p, mods, names, extra)
            res["n"] += 1
            res["events"] += 2
            classes += ["probe:" + p["cls"], "mode:" + p["mode"], "style:" + p["style"],
                        "steps:%d" % min(p["steps"], 8)]
            if p["steps"] >= 2:
                res["nt_keys"].append([case["defs"], p["text"], p["mode"], p["style"], p["macros"], p["where"]])
            if why:
                finding = None
                if p["mode"] == "mixed" and only_pos:
                    # attribution: the same probe with uniformly positioned / position-free input
                    ok_uniform = all(do_probe(dict(p, mode=md), mods, names, extra)[0] is None
                                     for md in ("read", "bare"))
                    if ok_uniform:
                        finding = FINDING_MIXED
                        classes.append("finding:" + finding)
                elif p["cls"] in ("core:py", "core:pys") and "TypeError" in why:
                    # attribution: the same probe with the py/pys form replaced by an ordinary core form
                    q = dict(p, text="(+ 1 1)", exp1="(+ 1 1)", expN="(+ 1 1)")
                    if do_probe(q, mods, names, extra)[0] is None:
                        finding = FINDING_PY
                        classes.append("finding:" + finding)
                if bad is None or (bad[1] is not None and finding is None):
                    bad = (why, finding)
        res["nontrivial"] = bool(res["nt_keys"])
        res["classes"] = sorted(set(classes))
        if bad:
            res.update(ok=False, why=bad[0])
            if bad[1]:
                res["finding"] = bad[1]
    return res
