"""C13 — compiling the same source is deterministic across processes.

A case is a batch of Hy sources. The batch is compiled in k fresh interpreter
processes that differ only in PYTHONHASHSEED; each child reports, per source, the
SHA-1 of `ast.dump(tree, include_attributes=True)`, a canonical recursive digest
of the code object and the SHA-1 of `marshal.dumps(code)`.

Oracle: per source, all children report the same AST dump and the same code digest
(or all fail with the same exception type). Raw marshal equality is recorded only.
"""
import hashlib
import json
import os
import re
import subprocess
import sys
import tempfile

from hv import gen_prog as G
from hv import outgen as O
from hv.common import rng_for

ID = "C13"
LEVEL = "exploration"
RULE = ("one evaluation = one Hy source compiled in k fresh processes (PYTHONHASHSEED 0,1,2,3 quick; 0..11 and one "
        "pseudo-random 32-bit seed thorough); a case is a batch of 10-20 (quick) / 30-60 (thorough) sources whose children run concurrently. Sources are generated to pass "
        "through every name set of the compiler: nonlocal/global declarations of 2-6 names resolved at mixed levels "
        "(module, outer function, let, middle function), comprehensions leaking several setv/setx names in module, "
        "function and let scope, let with many bindings, defclass, match captures (or-patterns, mapping rest), "
        "import/require lists, whole-module / prefixed / partial requires of fixture macro modules (2-6 exported macros, "
        "written under VERIF_SCRATCH) inside defn/fn/defclass/method/comprehension/let bodies, set/dict literals, keyword-only parameters, local macros; plus template programs with "
        "many temporaries, the gen_prog corpus and the C04/C06/C07/C08 sources when importable. Non-trivial = the "
        "compiled AST has a global/nonlocal declaration, a leak assignment, an or-pattern or a local-macro transfer with >= 2 names; "
        "distinct by source text.")
FLOOR = {"quick": 120, "thorough": 500}
BUDGET = {"quick": 22, "thorough": 480}
CASE_TIMEOUT = 150
REPLAY_TIMEOUT = 300
NEEDS_EVENTS = True
ANCHORS = []          # the code under test runs in the children; reach is shown by the class histogram
ASSUMPTIONS = [
    "CPython compiles equal ASTs to equal code objects up to the order of frozenset constants and marshal FLAG_REF bits",
    "the generated sources contain no user code whose own meaning depends on set iteration order at compile time",
]
MANIFEST = {
    "text": "Batches of generated sources that exercise every place where the compiler collects names in a set are "
            "compiled in fresh interpreter processes under different hash seeds; AST dumps (with positions) and a "
            "canonical digest of the code objects must agree for every source. Exploration level: held on the "
            "sources and hash seeds run, nothing beyond.",
    "note": "Trusted: CPython's compile() is deterministic for equal ASTs (frozenset constants are compared sorted; raw "
            "marshal bytes are recorded, not gating). Bounds: 4 (quick) / 13 (thorough) hash seeds per source.",
    "technique": "runtime monitoring: differential compilation in fresh processes across PYTHONHASHSEED values, "
                 "AST-dump and code-object digests compared",
}
KEY_NONLOCAL = "nonlocal-mixed-levels-order-from-set"
VERIF = os.path.dirname(os.path.dirname(os.path.abspath(__file__)))

_STATS = {"children": 0, "child_failures": 0, "marshal_differs": 0, "compared": 0, "error_sources": 0}

POOL = ["aa", "bb", "cc", "dd", "ee", "ff", "gg", "hh", "x", "y", "z", "w", "alpha", "beta", "gamma", "delta",
        "n1", "n2", "n3", "n4", "k", "v", "total", "acc", "tmp", "lo", "hi", "i", "j", "left", "right", "my-var",
        "is-ok?", "Z9", "q_q", "name", "value", "count", "idx", "buf"]


def names(rng, n):
    return rng.sample(POOL, n)


# ---------------------------------------------------------------------------
# source generators (each returns Hy text)

def g_decl(rng):
    ns = names(rng, 12)
    gl, out, let, mid = ns[:3], ns[3:6], ns[6:9], ns[9:12]
    use_let = rng.random() < 0.6
    cand = list(out) + (let if use_let else []) + mid + (gl if rng.random() < 0.7 else [])
    k = rng.randint(2, min(6, len(cand)))
    decl = rng.sample(cand, k)
    inner = [f"(nonlocal {' '.join(decl)})"]
    if rng.random() < 0.4:
        rest = [g for g in gl if g not in decl]
        if rest:
            inner.append(f"(global {' '.join(rng.sample(rest, rng.randint(1, len(rest))))})")
            decl = decl + rest
    if rng.random() < 0.3:
        # a second declaration in the same function
        more = [c for c in cand if c not in decl]
        if len(more) >= 2:
            m2 = rng.sample(more, 2)
            inner.append(f"(nonlocal {' '.join(m2)})")
    inner += [f"(setv {d} (+ {d} 1))" for d in decl[:3]]
    midbody = ""
    if rng.random() < 0.5:
        midbody += f"(nonlocal {' '.join(rng.sample(out, 2))}) "
    midbody += f"(setv {' '.join(f'{m} {i}' for i, m in enumerate(mid))}) "
    midfn = f"(defn mid-f [] {midbody}(defn inner-f [] {' '.join(inner)}) (inner-f))"
    body = f"(let [{' '.join(f'{l} {i}' for i, l in enumerate(let))}] {midfn} (mid-f))" if use_let else f"{midfn} (mid-f)"
    return (f"(setv {' '.join(f'{g} {i}' for i, g in enumerate(gl))})\n"
            f"(defn outer-f [] (setv {' '.join(f'{o} {i}' for i, o in enumerate(out))}) {body})\n(outer-f)")


def g_leak(rng):
    ns = names(rng, 9)
    tg, xs = ns[:rng.randint(2, 6)], ns[6:]
    form = rng.choice(["lfor", "sfor", "gfor", "dfor"])
    asg = " ".join(f"{t} (+ {xs[0]} {i})" for i, t in enumerate(tg))
    style = rng.random()
    if style < 0.5:
        body = f":do (setv {asg}) " + (f"{xs[0]} {xs[0]}" if form == "dfor" else xs[0])
    elif style < 0.8:
        e = "[" + " ".join(f"(setx {t} {xs[0]})" for t in tg) + "]"
        body = f"{xs[0]} {e}" if form == "dfor" else e
    else:
        inner = f"(lfor {xs[1]} (range 2) :do (setv {asg}) {xs[1]})"
        body = f"{xs[0]} {inner}" if form == "dfor" else inner
    comp = f"({form} {xs[0]} (range 3) {body})"
    where = rng.choice(["module", "fn", "fnlet", "class", "nested-fn", "comp-nonlocal"])
    if where == "comp-nonlocal" and len(tg) >= 3:
        # a nonlocal declaration of several names inside the comprehension body
        decl = tg[:-1]
        rng.shuffle(decl)
        comp = (f"({form} {xs[0]} (range 3) :do (do (nonlocal {' '.join(decl)}) (setv {asg})) "
                + (f"{xs[0]} {xs[0]}" if form == "dfor" else xs[0]) + ")")
        return (f"(defn outer-f [] (setv {' '.join(f'{d} 0' for d in decl)}) "
                f"(defn f [] (setv r {comp}) r) (f))\n(outer-f)")
    if where == "module":
        return f"(setv r {comp})"
    if where == "fn":
        return f"(defn f [] (setv r {comp}) [{' '.join(tg)}])\n(f)"
    if where == "fnlet":
        lb = rng.sample(tg, min(len(tg), 2))
        return f"(defn f [] (let [{' '.join(f'{l} 0' for l in lb)}] (setv r {comp}) [{' '.join(tg)}]))\n(f)"
    if where == "class":
        return f"(defclass K [] (setv r {comp}))"
    return f"(defn f [] (setv {tg[0]} 0) (defn g [] (nonlocal {tg[0]}) (setv r {comp}) r) (g))"


def g_let(rng):
    ns = names(rng, rng.randint(4, 10))
    binds = " ".join(f"{n} {i}" for i, n in enumerate(ns))
    k = rng.randint(2, min(5, len(ns)))
    d1 = rng.sample(ns, k)
    d2 = rng.sample(ns, min(len(ns), rng.randint(2, 4)))
    return (f"(defn f [] (let [{binds}] (defn g [] (nonlocal {' '.join(d1)}) "
            + " ".join(f"(setv {d} (+ {d} 1))" for d in d1)
            + f") (g) (lfor q (range 2) :do (setv {' '.join(f'{d} q' for d in d2)}) q) [{' '.join(ns)}]))\n(f)")


def g_class(rng):
    ns = names(rng, 10)
    attrs, gl = ns[:5], ns[5:]
    meths = []
    for i in range(rng.randint(1, 3)):
        g = rng.sample(gl, rng.randint(2, len(gl)))
        meths.append(f"(defn m{i} [self {attrs[i]}] (global {' '.join(g)}) (setv {g[0]} {attrs[i]}) "
                     f"(with [(open-it)] {g[1]}))")
    cb = ""
    if rng.random() < 0.5:
        cb = f"(global {' '.join(rng.sample(gl, 2))}) "
    return (f"(setv {' '.join(f'{g} 0' for g in gl)})\n"
            f"(defclass K [Base1 Base2] {cb}(setv {' '.join(f'{a} {i}' for i, a in enumerate(attrs))}) "
            + " ".join(meths) + ")")


def g_match(rng):
    ns = names(rng, 6)
    a, b, c, d = ns[:4]
    pats = [f"(| [{a} {b} {c}] [{c} {b} {a}] #({a} {c} {b}))", "{" + f'"k" {a} "j" {b} #** {c}' + "}",
            f"(Point :x {a} :y {b})", f"[{a} #* {b}] :as {c}", f"(| {{\"p\" {a} \"q\" {b} #** {c}}} [{b} {a} #* {c}])"]
    rng.shuffle(pats)
    cl = " ".join(f"{p} (do (setv {d} [{a} {b}]) {d})" for p in pats[:rng.randint(1, 4)])
    m = f"(match subj {cl} _ None)"
    where = rng.choice(["module", "fn", "comp", "fncomp"])
    if where == "module":
        return f"(setv r {m})"
    if where == "fn":
        return f"(defn f [subj] {m})"
    if where == "comp":
        return f"(setv r (lfor subj items {m}))"
    return f"(defn f [items] (lfor subj items :if (do (setv {ns[4]} 1 {ns[5]} 2) True) {m}))"


def g_import(rng):
    ns = names(rng, 6)
    forms = [f"(import os sys math)", f"(import math [floor ceil sqrt :as {ns[0]} pi])",
             f"(import os.path :as {ns[1]} collections [OrderedDict :as {ns[2]} deque])",
             f"(require hy.core.macros [when cond :as {ns[3]}])", "(require hy.core.macros :as hm)",
             f"(export :objects [{' '.join(ns[:4])}] :macros [m1 m2 m3])",
             f"(import math *)", f"(defn f [] (import json [dumps loads]) (global {ns[4]} {ns[5]}) (setv {ns[4]} dumps))",
             f"(require hy.core.macros *)"]
    rng.shuffle(forms)
    return "\n".join(forms[:rng.randint(1, 4)])


def g_sets(rng):
    ns = names(rng, 8)
    strs = " ".join(f'"{n}"' for n in ns[:rng.randint(2, 6)])
    forms = [f"(setv s #{{{' '.join(ns[:4])}}})", f"(defn f [x] (in x #{{{strs}}}))", f"(setv t (in q #{{1 2 3 {strs}}}))",
             "(setv d {" + " ".join(f'"{n}" {i}' for i, n in enumerate(ns[:5])) + "})",
             f"(f :{ns[0]} 1 :{ns[1]} 2 :{ns[2]} 3 #** kw)",
             f"(defn g [{ns[0]} {ns[1]} * {ns[2]} {ns[3]} #** {ns[4]}] [{ns[0]} {ns[3]}])",
             f"(defn h [] (setv {' '.join(f'{n} 0' for n in ns[:4])}) (del {' '.join(ns[:3])}))",
             f"(setv q '#{{{' '.join(ns[:4])}}})", f"(setv q2 `#{{~{ns[0]} {ns[1]} ~@{ns[2]}}})",
             f"(setv fs f\"{{{ns[0]}}} {{{ns[1]} !r}} {{{ns[2]} :>{{{ns[3]}}}}}\")",
             f"(defn k [] (for [[{ns[0]} {ns[1]}] pairs] (setv [{ns[2]} #* {ns[3]}] {ns[0]})))",
             f"(setv z (if (in w #{{{strs}}}) (frozenset) #{{}}))"]
    rng.shuffle(forms)
    return "\n".join(forms[:rng.randint(2, 5)])


def g_macro(rng):
    ns = names(rng, 5)
    forms = [f"(defmacro mm [{ns[0]} {ns[1]}] `(setv ~{ns[0]} ~{ns[1]}))\n(mm {ns[2]} 1)",
             f"(defn f [] (defmacro lm1 [x] `(+ ~x 1)) (defmacro lm2 [x] `(lm1 (lm1 ~x))) (lm2 {ns[3]}))",
             f"(eval-and-compile (setv {ns[4]} 3))\n(eval-when-compile (setv cc1 4))",
             f"(defn g [] (defmacro lm [] '(do (setv {ns[0]} 1 {ns[1]} 2) [{ns[0]} {ns[1]}])) (lfor q (range 2) (lm)))",
             f"(defreader rr (.parse-one-form &reader))", f"(defmacro vm [#* {ns[2]}] `[~@{ns[2]}])\n(vm 1 2 3)"]
    rng.shuffle(forms)
    return "\n".join(forms[:rng.randint(1, 3)])


# fixture macro modules (written under VERIF_SCRATCH, on the children's PYTHONPATH)
FIXTURES = {
    "hvmac_a": "(defmacro alpha [] 1)\n(defmacro bravo [] 2)\n(defmacro charlie [] 3)\n(defmacro delta [] 4)\n"
               "(defmacro echo [] 5)\n(defmacro foxtrot [] 6)\n(defmacro _private [] 8)\n",
    "hvmac_b": "(defmacro one [] 1)\n(defmacro two [] 2)\n(defmacro three [] 3)\n(defmacro four [] 4)\n"
               "(defmacro hidden [] 5)\n(setv _hy_export_macros [\"four\" \"three\" \"two\" \"one\"])\n",
    "hvmac_c": "(defmacro my-first [x] x)\n(defmacro second? [x] x)\n",
    "hvmac_d": "(defmacro m1 [] 1)\n(defmacro m2 [] 2)\n(defmacro m3 [] 3)\n(defmacro m4 [] 4)\n(defmacro m5 [] 5)\n"
               "(export :macros [m5 m3 m1])\n",
}
FIXMACS = {"hvmac_a": ["alpha", "bravo", "charlie", "delta", "echo", "foxtrot"], "hvmac_b": ["one", "two", "three", "four"],
           "hvmac_c": ["my-first", "second?"], "hvmac_d": ["m1", "m3", "m5"]}


def g_require(rng):
    """whole-module and partial requires inside defn / fn / defclass / comprehension / let bodies"""
    ns = names(rng, 4)
    out = []
    if rng.random() < 0.4:
        mod = rng.choice(list(FIXTURES))
        out.append(rng.choice([f"(require {mod} *)", f"(require {mod})", f"(require {mod} :as {ns[3]})"]))
    for _ in range(rng.randint(1, 3)):
        mod = rng.choice(list(FIXTURES))
        macs = FIXMACS[mod]
        shape = rng.choice(["star", "star", "plain", "as", "list", "star-macros"])
        arg = "" if mod != "hvmac_c" else " 7"
        if shape == "star":
            req, use = f"(require {mod} *)", " ".join(f"({m}{arg})" for m in macs)
        elif shape == "star-macros":
            req, use = f"(require {mod} :macros *)", " ".join(f"({m}{arg})" for m in macs[:2])
        elif shape == "plain":
            req, use = f"(require {mod})", " ".join(f"({mod}.{m}{arg})" for m in macs)
        elif shape == "as":
            req, use = f"(require {mod} :as {ns[0]})", " ".join(f"({ns[0]}.{m}{arg})" for m in macs)
        else:
            pick = rng.sample(macs, min(len(macs), rng.randint(2, 3)))
            req = f"(require {mod} [{pick[0]} {pick[1]} :as {ns[1]}])"
            use = f"({pick[0]}{arg}) ({ns[1]}{arg})"
        where = rng.choice(["defn", "defn", "fn", "class", "comp", "let-in-fn", "nested-fn", "method"])
        if where == "defn":
            out.append(f"(defn {ns[2]} [] {req} [{use}])")
        elif where == "fn":
            out.append(f"(setv {ns[2]} (fn [] {req} [{use}]))")
        elif where == "class":
            out.append(f"(defclass K{rng.randint(0, 9)} [] {req} (setv v [{use}]))")
        elif where == "comp":
            out.append(f"(setv {ns[2]} (lfor q (range 2) (do {req} [{use}])))")
        elif where == "let-in-fn":
            out.append(f"(defn {ns[2]} [] (let [{ns[3]} 1] {req} [{ns[3]} {use}]))")
        elif where == "nested-fn":
            out.append(f"(defn {ns[2]} [] (defn inner-f [] {req} [{use}]) (inner-f))")
        else:
            out.append(f"(defclass K{rng.randint(0, 9)} [] (defn meth [self] {req} [{use}]))")
    return "\n".join(out)


GENS = [("require", g_require, 3), ("decl", g_decl, 5), ("leak", g_leak, 4), ("let", g_let, 3), ("class", g_class, 2), ("match", g_match, 2),
        ("import", g_import, 1), ("sets", g_sets, 2), ("macro", g_macro, 1)]


def cases(seed, tier, shard, nshards):
    i = 0
    foreign = O.foreign_texts(seed, shard, nshards)
    while True:
        rng = rng_for(seed, ID, shard, i)
        i += 1
        n = rng.choice([10, 14, 20]) if tier == "quick" else rng.choice([30, 45, 60])
        srcs = []
        for j in range(n):
            r = rng.random()
            if tier == "quick":
                r *= 0.78          # quick tier: mostly the set-biased generators (more non-trivial sources per batch)
            if r < 0.62:
                tag, fn, _ = rng.choices(GENS, [w for _, _, w in GENS])[0]
                srcs.append({"g": tag, "t": fn(rng)})
            elif r < 0.74:
                t = O.gen_template(rng, max_depth=3, budget=rng.choice([20, 30]))
                srcs.append({"g": "tmpl", "t": O.subst(t["tmpl"], O.pick_names(rng, t["n"], rng.choice(["benign", "hostile"])))})
            elif r < 0.9:
                prog = G.gen_program(rng, max_depth=rng.choice([3, 4]), max_nodes=rng.choice([25, 40]))
                srcs.append({"g": "prog", "t": G.render_program(prog, rng.choice(["module", "fn"]), True)})
            else:
                try:
                    origin, text = next(foreign)
                    srcs.append({"g": "foreign-" + origin, "t": text})
                except StopIteration:
                    pass
        if tier == "quick":
            seeds = [0, 1, 2, 3]
        else:
            seeds = list(range(12)) + [rng.randrange(12, 2 ** 32)]
        yield {"sources": srcs, "seeds": seeds, "fixtures": FIXTURES}


def case_key(case):
    return [s["t"] for s in case["sources"]]


# ---------------------------------------------------------------------------

def scratch_dir():
    base = os.environ.get("VERIF_SCRATCH") or tempfile.gettempdir()
    d = os.path.join(base, f"c13-{os.getpid()}")
    os.makedirs(d, exist_ok=True)
    return d


def write_fixtures(fixtures):
    d = os.path.join(scratch_dir(), "fix")
    os.makedirs(d, exist_ok=True)
    for name, text in (fixtures or {}).items():
        path = os.path.join(d, name + ".hy")
        try:
            with open(path, encoding="utf-8") as f:
                if f.read() == text:
                    continue
        except OSError:
            pass
        with open(path, "w", encoding="utf-8") as f:
            f.write(text)
    return d


MAX_PARALLEL_CHILDREN = 4


def run_children(path, seeds, mode=None, timeout=100):
    """start the children of one batch concurrently (at most MAX_PARALLEL_CHILDREN at a time);
    {seed: results or None}. A child that times out, is killed or prints garbage gives None."""
    import time
    base = dict(os.environ)
    base["PYTHONPATH"] = os.path.join(scratch_dir(), "fix") + os.pathsep + base.get("PYTHONPATH", "")
    base.setdefault("PYTHONIOENCODING", "utf-8")
    cmd = [sys.executable, "-m", "hv.outgen", path] + ([mode] if mode else [])
    out = {}
    procs = []
    try:
        for k in range(0, len(seeds), MAX_PARALLEL_CHILDREN):
            procs = []
            for sd in seeds[k:k + MAX_PARALLEL_CHILDREN]:
                env = dict(base, PYTHONHASHSEED=str(sd))
                _STATS["children"] += 1
                ofile = f"{path}.{sd}.out"
                try:
                    fh = open(ofile, "wb")
                    procs.append((sd, subprocess.Popen(cmd, env=env, cwd=VERIF, stdout=fh,
                                                       stderr=subprocess.DEVNULL), fh, ofile))
                except OSError:
                    out[sd] = None
                    _STATS["child_failures"] += 1
            deadline = time.time() + timeout
            for sd, p, fh, ofile in procs:
                res = None
                try:
                    p.wait(timeout=max(0.1, deadline - time.time()))
                    fh.close()
                    if p.returncode == 0:
                        with open(ofile, "rb") as f:
                            doc = json.loads(f.read().decode("utf-8", "replace"))
                        if "results" in doc and str(doc.get("hashseed")) == str(sd):
                            res = doc["results"]
                except (subprocess.TimeoutExpired, ValueError, OSError):
                    res = None
                if res is None:
                    _STATS["child_failures"] += 1
                out[sd] = res
    finally:
        for sd, p, fh, ofile in procs:
            if p.poll() is None:
                p.kill()
                try:
                    p.wait(timeout=5)
                except Exception:
                    pass
            try:
                fh.close()
            except Exception:
                pass
            try:
                os.remove(ofile)
            except OSError:
                pass
    return out


def compile_batch(texts, seeds, tag, mode=None):
    d = scratch_dir()
    path = os.path.join(d, f"batch-{tag}.json")
    with open(path, "w", encoding="utf-8") as f:
        json.dump(texts, f)
    try:
        return run_children(path, list(seeds), mode)
    finally:
        try:
            os.remove(path)
        except OSError:
            pass


def verdict_of(r):
    if "err" in r:
        return ("err", r["err"])
    return ("ok", r["dump"], r["code"])


_NONLOCAL = re.compile(r"\(nonlocal((?:\s+[^\s()\[\]{}]+){2,})\s*\)")


def split_nonlocal(text):
    return _NONLOCAL.sub(lambda m: " ".join(f"(nonlocal {n})" for n in m.group(1).split()), text)


def run_case(case):
    srcs, seeds = case["sources"], case["seeds"]
    write_fixtures(case.get("fixtures"))
    texts = [s["t"] for s in srcs]
    res = compile_batch(texts, seeds, "main")
    if any(v is None or len(v) != len(texts) for v in res.values()):
        return {"ok": None, "classes": ["child-failed"]}
    classes = {}
    nt_keys = []
    bad = []
    n = 0
    events = 0
    for i, s in enumerate(srcs):
        per = {sd: res[sd][i] for sd in seeds}
        base = per[seeds[0]]
        tag = "gen:" + s["g"]
        classes[tag] = classes.get(tag, 0) + 1
        n += 1
        events += len(seeds)
        if "err" in base:
            _STATS["error_sources"] += 1
            classes["compile-error:" + s["g"]] = classes.get("compile-error:" + s["g"], 0) + 1
        elif base.get("sets", 0) >= 2:
            nt_keys.append(s["t"])
            c = f"set-size:{min(base['sets'], 6)}"
            classes[c] = classes.get(c, 0) + 1
        vs = {sd: verdict_of(r) for sd, r in per.items()}
        if len(set(vs.values())) > 1:
            bad.append(i)
        elif "err" not in base and len({r["marshal"] for r in per.values()}) > 1:
            _STATS["marshal_differs"] += 1
    _STATS["compared"] += events
    out = {"ok": True, "nontrivial": bool(nt_keys), "nt_keys": nt_keys, "n": n, "events": events,
           "classes": [c for c, k in classes.items() for _ in range(k)],
           "sample": {"sources": texts[:3], "seeds": seeds}}
    if not bad:
        return out
    # ---- a source compiled differently under different hash seeds: witness + attribution
    btexts = [texts[i] for i in bad]
    whys = []
    # one more round of children: unparsed text of the differing sources (witness) and the same
    # sources with every multi-name `nonlocal` form split into single-name forms (attribution)
    both = compile_batch(btexts + [split_nonlocal(t) for t in btexts], seeds, "dump", "dump")
    have = all(v is not None and len(v) == 2 * len(btexts) for v in both.values())
    if not have:
        # the witness/attribution round lost a child (slow machine): skip, never judge half a history
        return {"ok": None, "classes": ["child-failed"]}
    nb = len(btexts)
    attributed = [bool(have and _NONLOCAL.search(btexts[j])
                       and len({verdict_of(both[sd][nb + j]) for sd in seeds}) == 1
                       and only_nonlocal_order_differs([both[sd][j].get("unparsed") for sd in seeds]))
                  for j in range(nb)]
    order = sorted(range(nb), key=lambda j: attributed[j])          # unattributed witnesses first
    for j in order[:4]:
        i = bad[j]
        per = {sd: res[sd][i] for sd in seeds}
        groups = {}
        for sd in seeds:
            groups.setdefault(verdict_of(per[sd]), []).append(sd)
        w = f"source #{i} ({srcs[i]['g']}) compiles differently under PYTHONHASHSEED groups {list(groups.values())}: "
        if have:
            un = {}
            for sd in seeds:
                un.setdefault(both[sd][j].get("unparsed", both[sd][j].get("err")), []).append(sd)
            if len(un) > 1:
                a, b = list(un)[:2]
                la, lb = (a or "").splitlines(), (b or "").splitlines()
                diff = [(x, y) for x, y in zip(la, lb) if x != y][:2]
                w += f"e.g. seed {un[a][0]} emits {[d[0].strip() for d in diff]} where seed {un[b][0]} emits " \
                     f"{[d[1].strip() for d in diff]}; "
            else:
                w += "same unparsed text (the difference is in positions or in the code object only); "
        w += f"source: {texts[i][:500]}"
        whys.append(w)
    out.update(ok=False, why=f"{nb} of {len(texts)} sources ({sum(attributed)} of them only differ in the name order "
               f"of a multi-name nonlocal statement); " + " || ".join(whys))
    if all(attributed):
        out["finding"] = KEY_NONLOCAL
    return out


def only_nonlocal_order_differs(unparsed):
    """the emitted programs differ only in the order of names inside `nonlocal` statements"""
    if any(u is None for u in unparsed):
        return False
    lines = [u.splitlines() for u in unparsed]
    if len({len(l) for l in lines}) != 1:
        return False
    differs = False
    for row in zip(*lines):
        if len(set(row)) == 1:
            continue
        keys = set()
        for x in row:
            x = x.strip()
            if not x.startswith("nonlocal "):
                return False
            keys.add(tuple(sorted(n.strip() for n in x[len("nonlocal "):].split(","))))
        if len(keys) != 1:
            return False
        differs = True
    return differs


def finish_worker():
    try:
        import shutil
        shutil.rmtree(os.path.join(scratch_dir(), "fix"), ignore_errors=True)
        os.rmdir(scratch_dir())
    except OSError:
        pass
    return {"children_spawned": _STATS["children"], "child_failures": _STATS["child_failures"],
            "source_x_seed_compilations_compared": _STATS["compared"],
            "sources_rejected_by_compiler": _STATS["error_sources"],
            "sources_with_raw_marshal_difference_not_gating": _STATS["marshal_differs"]}


def gate(tot, classes, extra, tier):
    ch, bad = extra.get("children_spawned", 0), extra.get("child_failures", 0)
    if ch and bad > 0.05 * ch:
        return f"child-failures-{bad}-of-{ch}"
    return None
