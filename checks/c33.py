"""C33 - hy.unmangle inverts hy.mangle up to mangling.

History observed: for every name s of the workload the values (or escaping
exceptions) of hy.mangle(s), hy.unmangle(hy.mangle(s)) and
hy.mangle(hy.unmangle(hy.mangle(s))) computed by the real functions.
Oracle: closed form - no exception, and the last equals the first.
"""
import functools
import unicodedata

from hv import mangle_gen as G
from hv.common import rng_for

ID = "C33"
LEVEL = "exploration"
RULE = ("every code point 0..0x10FFFF (incl. surrogates) in the seven contexts c, ac, ca, acb, _c, -c, c- "
        "(exhaustive, blocks of 256 code points sharded over the workers) plus random hostile names (15% dotted) "
        "mixing hyphens, underscores, underscore-like characters, X, hyx_/XfooX escapes, NFKC-changing "
        "characters, combining marks, unnamed code points. Names outside the premise (part after the leading "
        "underscores starts with hyx_) are skipped, not counted. Non-trivial = a name that hy.mangle changes. "
        "distinct_nontrivial counts (block, context) pairs containing such a name plus distinct changed "
        "random names (thorough: one key per batch after the first batches); exact number in "
        "coverage.names_changed.")
FLOOR = {"quick": 20000, "thorough": 20000}
BUDGET = {"quick": 45, "thorough": 420}
CASE_TIMEOUT = 60
NEEDS_EVENTS = True
EXHAUSTIVE = {"quick": True, "thorough": True}
ANCHORS = ["hy.reader.mangling:unmangle", "hy.reader.mangling:mangle"]
ASSUMPTIONS = ["CPython 3.12.1 unicodedata (Unicode 15.0)",
               "an underscore is any character whose NFKC form is '_' (docs/syntax.rst, mangling step 1)",
               "the premise 'does not start with hyx_' is read modulo the identifications mangling itself "
               "makes without escaping (hyphen = underscore, NFKC): hyx-a and a fullwidth-h 'hyx_a' are the "
               "Python identifier hyx_a and are skipped like hyx_a",
               "dotted names (dotted-identifier syntax) are in the domain, with the hyx_ premise read per part"]
MANIFEST = {
    "text": "For every Unicode code point (0..0x10FFFF including surrogates) in seven positional contexts - "
            "exhaustively in both tiers - and for random hostile names, the real hy.mangle and hy.unmangle are "
            "composed: unmangle(mangle(s)) must not raise and must mangle back to mangle(s). Names whose part "
            "after the leading underscores starts with hyx_ are outside the premise. Violations caused by the "
            "final NFKC step creating or destroying the delimiter X are attributed to that mechanism (the "
            "violation must disappear when only the offending characters are replaced by a plain letter). "
            "Exploration: held on the names run; the code-point sub-space is complete.",
    "note": "Trusted: CPython's unicodedata. Bounds: exhaustive only for the seven single-code-point "
            "contexts; random names <= ~30 characters, 15% with dotted-identifier syntax.",
    "technique": "runtime monitoring: exhaustive code-point enumeration + random hostile names through the "
                 "real mangle/unmangle pair, closed-form round-trip oracle",
}

RAND_BATCH = 250
RAND_TOTAL = {"quick": 200_000, "thorough": 20_000_000}
KEYED_BATCHES = 1600
XFEAT_BATCH = {"quick": 1000, "thorough": 8000}

KEY_X = "nfkc-after-escaping-makes-or-breaks-delimiter-X"

COUNTS = {}


def _bump(k, n=1):
    COUNTS[k] = COUNTS.get(k, 0) + n


def setup_worker(tier, seed):
    COUNTS.clear()
    G.underscore_like()


def finish_worker():
    return dict(COUNTS)


def gate(tot, classes, extra, tier):
    done = extra.get("cp_blocks_done", 0)
    if done < G.NBLOCKS:
        return f"code-point-enumeration-incomplete-{done}-of-{G.NBLOCKS}-blocks"
    return None


def cases(seed, tier, shard, nshards):
    for b in G.block_indices(shard, nshards):
        yield {"kind": "cp", "lo": b * G.BLOCK, "n": G.BLOCK}
    # Random names. Names that carry the input feature of the recorded NFKC/X mechanism are collected
    # into a few large batches of their own: ordinary batches then never violate on the unchanged tree,
    # so the recorded mechanism cannot flood the worker's (capped) violation channel and hide a new one.
    nb = RAND_TOTAL[tier] // RAND_BATCH
    xbuf = []
    for i in range(nb):
        if i % nshards != shard:
            continue
        rng = rng_for(seed, ID, shard, i)
        names = [G.rand_name(rng, 0.15) for _ in range(RAND_BATCH)]
        plain = []
        for s in names:
            (xbuf if x_feature_chars(s) else plain).append(s)
        yield {"kind": "rand", "i": i, "keyed": i < KEYED_BATCHES, "names": plain}
        if len(xbuf) >= XFEAT_BATCH[tier]:
            yield {"kind": "rand", "i": i, "xfeat": True, "keyed": i < KEYED_BATCHES, "names": xbuf}
            xbuf = []
    if xbuf:
        yield {"kind": "rand", "i": nb, "xfeat": True, "keyed": False, "names": xbuf}


def case_key(case):
    return case


# --- domain -----------------------------------------------------------------

def domain(s):
    """None if the property speaks about `s`, else the reason it does not."""
    if "." in s and s.strip("."):
        # dotted-identifier syntax: optional leading dots, then non-empty parts; the premise
        # applies to each part (hy.mangle, and since the fix 32c256b hy.unmangle, work part-wise)
        parts = s.lstrip(".").split(".")
        if not all(parts):
            return "dotted-malformed"
        for p in parts:
            why = domain(p)
            if why:
                return why
        return None
    ul = G.underscore_like()
    body = s.lstrip(ul)
    if body.startswith("hyx_"):
        return "premise-hyx-prefix"
    # The same Python identifier hyx_... spelled with a hyphen or with
    # compatibility characters, reached without any escaping.
    t = body[:1] + body[1:].replace("-", "_")
    if ("_" * (len(s) - len(body)) + t).isidentifier() and \
            unicodedata.normalize("NFKC", t).startswith("hyx_"):
        return "premise-hyx-prefix-equivalent"
    return None


# --- oracle -----------------------------------------------------------------

def _fns():
    import hy
    return hy.mangle, hy.unmangle


def roundtrip(mangle, unmangle, s):
    """Returns (m, why-or-None, calls)."""
    try:
        m = mangle(s)
    except Exception as e:
        return None, f"mangle({s!r}) raised {type(e).__name__}: {e}", 1
    try:
        u = unmangle(m)
    except Exception as e:
        return m, f"unmangle(mangle({s!r})) = unmangle({m!r}) raised {type(e).__name__}: {e}", 2
    try:
        r = mangle(u)
    except Exception as e:
        return m, (f"mangle({s!r}) = {m!r} unmangles to {u!r}, which cannot be mangled again: "
                   f"{type(e).__name__}: {e}"), 3
    if r != m:
        return m, f"mangle({s!r}) = {m!r} unmangles to {u!r}, which mangles to {r!r}", 3
    return m, None, 3


@functools.lru_cache(maxsize=None)
def _is_x_feature(c):
    return (not c.isascii()) and ("X" in unicodedata.normalize("NFKC", c) or
                                  not unicodedata.normalize("NFKC", "X" + c).startswith("X"))


def x_feature_chars(s):
    """Characters through which the final NFKC step can create a delimiter X
    (compatibility characters whose normal form contains X) or destroy one
    (combining marks that compose with a preceding X)."""
    if s.isascii():
        return set()
    return {c for c in s if _is_x_feature(c)}


def attribute(mangle, unmangle, s):
    """Mechanism key of a violating name, or None. (a) the name has the
    feature, (b) the violation disappears when only the feature is normalised
    away (offending characters replaced by the plain letter q)."""
    feat = x_feature_chars(s)
    if feat:
        s2 = "".join("q" if c in feat else c for c in s)
        if domain(s2) is None and roundtrip(mangle, unmangle, s2)[1] is None:
            return KEY_X
    return None


def run_case(case):
    mangle, unmangle = _fns()
    bad = []            # (why, key)
    calls = n = changed = 0
    skipped = {}
    nt_keys = []
    classes = set()
    sample = None
    if case["kind"] == "cp":
        lo = case["lo"]
        ctx_changed = [0] * len(G.CONTEXTS)
        it = G.block_names(lo, case["n"])
        classes.add("cp-block")
        classes.update("cat:" + unicodedata.category(chr(cp))[0]
                       for cp in range(lo, lo + case["n"], 16))
    else:
        it = ((None, None, s) for s in case["names"])
        classes.add("rand-batch-x-feature" if case.get("xfeat") else "rand-batch")
    hyx = hexesc = 0
    for ci, cp, s in it:
        why_not = domain(s)
        if why_not:
            skipped[why_not] = skipped.get(why_not, 0) + 1
            continue
        m, why, c = roundtrip(mangle, unmangle, s)
        calls += c
        n += 1
        if ci is None:
            classes.update("name:" + t for t in G.name_classes(s))
        if why:
            key = attribute(mangle, unmangle, s)
            bad.append((why, key))
            if m is None:
                continue
        if m != s:
            changed += 1
            if m.lstrip("_").startswith("hyx_"):
                hyx += 1
                if "XU" in m:
                    hexesc += 1
            if ci is not None:
                ctx_changed[ci] += 1
            elif case.get("keyed", True):
                nt_keys.append(("name", s))
            if sample is None:
                sample = {"name": s, "mangled": m}
    if hyx:
        classes.add("path:hyx-escape")
    if hexesc:
        classes.add("escape:U-hex")
    if hyx > hexesc:
        classes.add("escape:unicode-name")
    if case["kind"] == "cp":
        for ci, k in enumerate(ctx_changed):
            if k:
                nt_keys.append(("cp", lo, ci))
                classes.add("changed-in-ctx:" + G.CONTEXTS[ci][0])
        _bump("cp_blocks_done")
        _bump("cp_names", n)
        _bump("cp_names_changed", changed)
        sample = {"kind": "cp", "lo": lo, "n": case["n"], "example": sample}
    else:
        if changed and not case.get("keyed", True):
            nt_keys.append(("batch", case.get("i")))
        _bump("rand_names", n)
        _bump("rand_names_changed", changed)
        sample = {"kind": "rand", "names": case["names"][:6]}
    _bump("names_changed", changed)
    _bump("hyx_escape_path_names", hyx)
    for k, v in skipped.items():
        classes.add("skipped:" + k)
        _bump("skipped_" + k.replace("-", "_"), v)
    res = {"ok": not bad, "nontrivial": bool(nt_keys), "classes": sorted(classes),
           "events": calls, "n": n, "nt_keys": nt_keys, "sample": sample}
    if bad:
        # an unattributed violation always takes priority over attributed ones,
        # so a known mechanism can never mask a new one in the same block
        unattributed = [w for w, k in bad if k is None]
        keys = sorted({k for w, k in bad if k is not None})
        if unattributed:
            res["why"] = (f"{len(unattributed)} unattributed violating name(s) (of {len(bad)}); first: "
                          + " | ".join(unattributed[:3]))
        else:
            res["finding"] = keys[0]
            res["why"] = (f"{len(bad)} violating name(s), all attributed to {keys}; first: "
                          + " | ".join(w for w, k in bad[:3]))
        _bump("violating_names", len(bad))
        for k in keys:
            _bump("violating_names_" + k.replace("-", "_"), sum(1 for w, kk in bad if kk == k))
    return res
