"""C38 — hy.gensym returns distinct reserved symbols under any thread schedule.

Three workloads on the real gensym: (1) schedules enumerated by a deterministic
scheduler whose yield points are the sys.monitoring LINE / INSTRUCTION events of
the functions of hy.core.util (depth-first search with a preemption bound; all
line-level interleavings of two one-call threads in the thorough tier);
(2) free-running threads with sleep(0) injected at instruction events;
(3) free-running stress with a tiny switch interval.
Oracle: every symbol returned in this process is new, starts with _hy_, is a
Symbol and is a fixpoint of hy.mangle.
"""
import hashlib
import random
import sys
import threading
import types

from hv.common import rng_for

ID = "C38"
LEVEL = "exploration"
RULE = ("schedules of 2-3 threads x 1-2 gensym calls enumerated by DFS over yield points at every LINE / "
        "INSTRUCTION event of hy.core.util's functions with a preemption bound (quick: 2 line-level, 1 "
        "instruction-level; thorough: 4 / 2, plus all line-level interleavings of 2 threads x 1 call); random "
        "sleep(0) injection on 4-8 threads x 100-500 calls; free-running stress. Non-trivial = a schedule in "
        "which a thread was preempted in the middle of a gensym call (or an injected-yield run with >= 1 yield); "
        "distinct by the hash of the observed (thread, position) event order.")
FLOOR = {"quick": 200, "thorough": 2000}
BUDGET = {"quick": 26, "thorough": 600}
CASE_TIMEOUT = 900
REPLAY_TIMEOUT = 900
NEEDS_EVENTS = True
EXHAUSTIVE = {"quick": False, "thorough": False}
ASSUMPTIONS = [
    "interleavings are explored at bytecode/line boundaries of the functions defined in hy.core.util only "
    "(where a pure-Python counter can lose an update); free-threaded builds and signal handlers are not modelled",
    "locks found in hy.core.util's globals are proxied so the scheduler sees blocking; other blocking is "
    "handled by a timeout that only affects exploration, never the verdict",
]
MANIFEST = {
    "text": "The real hy.gensym is called from several threads under a deterministic scheduler that makes every "
            "line / bytecode instruction of hy.core.util's functions a yield point and enumerates interleavings "
            "with a preemption bound (all line-level interleavings of two one-call threads in the thorough tier), "
            "plus randomized yield injection and free-running stress; all returned symbols must be pairwise "
            "distinct, reserved and mangle-stable. Exploration: held on the schedules executed.",
    "note": "Trusted: sys.monitoring event delivery on CPython 3.12.1; schedule space bounded as stated in the "
            "evidence (threads, calls, preemption bound).",
    "technique": "runtime monitoring: sys.monitoring yield-point scheduler with preemption-bounded DFS of "
                 "interleavings + yield injection; oracle over returned symbols",
}

ARGS = ["", "x", "a-b", "foo?", "λ", "9lives", "_hyx_X", "is_not", "a" * 300, "Xx_", "-", "ab!*"]
SEEN = set()       # every symbol this process has ever been handed
_proxied = False
STATS = {"schedules": 0, "orders": set(), "preempted": 0, "stuck": 0, "yield_events": 0,
         "inject_yields": 0, "calls": 0, "raised": 0}


def _util():
    import hy
    import hy.core.util as U
    return U


def _codes():
    U = _util()
    out = []
    for v in vars(U).values():
        if isinstance(v, types.FunctionType) and v.__module__ == U.__name__:
            out.append(v.__code__)
    return out


def _install_proxies(ctl):
    """(Re)bind every lock in hy.core.util's globals to a proxy that talks to `ctl`."""
    from hv.sched import LockProxy
    U = _util()
    lock_types = (type(threading.Lock()), type(threading.RLock()))
    n = 0
    for k, v in list(vars(U).items()):
        if isinstance(v, lock_types):
            setattr(U, k, LockProxy(v, ctl))
            n += 1
        elif isinstance(v, LockProxy):
            v._ctl = ctl
            n += 1
    return n


def cases(seed, tier, shard, nshards):
    thorough = tier == "thorough"
    configs = []
    lb, ib = (4, 2) if thorough else (2, 1)
    J = 16
    for (nt, nc, level, bound) in [(2, 1, "line", lb), (2, 2, "line", lb), (3, 1, "line", lb),
                                   (2, 1, "instr", ib), (2, 2, "instr", ib), (3, 1, "instr", 1)]:
        for j in range(J):
            configs.append({"mode": "explore", "threads": nt, "calls": nc, "level": level,
                            "bound": bound, "inner": [J, j], "argseed": j})
    if thorough:
        for j in range(J):
            configs.append({"mode": "explore", "threads": 2, "calls": 1, "level": "line",
                            "bound": None, "inner": [J, j], "argseed": 100 + j, "exhaustive": True})
    mine = [c for i, c in enumerate(configs) if i % nshards == shard]
    if thorough and shard == nshards - 1:
        # DESIGN 6.8: the repository's own tests as a workload, hy.gensym under an icontract postcondition
        yield {"mode": "repo-tests-under-contracts"}
    i = 0
    while True:
        # alternate: one enumerated-schedule config, then two injected/free runs
        if mine:
            c = mine.pop(0)
            c["max_schedules"] = 100000 if c.get("exhaustive") else (6000 if thorough else 250)
            yield c
        elif thorough and i > 40:
            return
        for _ in range(2):
            rng = rng_for(seed, ID, shard, i)
            i += 1
            if i % 5 == 0:
                yield {"mode": "free", "threads": 8, "calls": 1500, "argseed": rng.randrange(10**6)}
            else:
                yield {"mode": "inject", "threads": rng.randint(4, 8), "calls": rng.randint(100, 500),
                       "p": rng.choice([0.02, 0.1, 0.3, 0.6]), "level": rng.choice(["instr", "instr", "line"]),
                       "argseed": rng.randrange(10**6)}


def _bodies(cfg, sink):
    import hy
    gensym = hy.gensym
    rng = random.Random(cfg["argseed"])
    if cfg["mode"] == "explore":
        # one argument per configuration: a lost update can only show as a duplicate
        # when the colliding calls were given the same argument
        plans = [[ARGS[cfg["argseed"] % len(ARGS)]] * cfg["calls"] for _ in range(cfg["threads"])]
    else:
        pool = rng.sample(ARGS, 2)
        plans = [[rng.choice(pool) for _ in range(cfg["calls"])] for _ in range(cfg["threads"])]

    def mk(plan):
        def body():
            out = []
            for a in plan:
                try:
                    s = gensym(a) if (a or rng_flag[0]) else gensym()
                except Exception as e:        # counted, not gated
                    sink.append(("raised", repr(e)))
                    continue
                out.append(s)
                sink.append(("sym", s))
            return out
        return body
    rng_flag = [cfg["argseed"] % 2]
    return [mk(p) for p in plans]


def _judge(sink):
    """Oracle over the symbols returned by one execution. Returns why|None."""
    import hy
    from hy.models import Symbol
    why = None
    for kind, s in sink:
        if kind != "sym":
            STATS["raised"] += 1
            continue
        STATS["calls"] += 1
        txt = str(s)
        if txt in SEEN:
            why = why or f"gensym returned {txt!r} twice"
        SEEN.add(txt)
        if type(s) is not Symbol:
            why = why or f"gensym returned a {type(s).__name__}, not a Symbol"
        if not txt.startswith("_hy_"):
            why = why or f"{txt!r} does not start with _hy_"
        try:
            if hy.mangle(s) != txt:
                why = why or f"mangle({txt!r}) = {hy.mangle(s)!r} changes it"
        except Exception as e:
            why = why or f"mangle({txt!r}) raised {e!r}"
    return why


def run_case(case):
    from hv.sched import Controller
    mode = case["mode"]
    classes = [f"mode:{mode}"]
    if mode == "repo-tests-under-contracts":
        from hv.contracts import run_repo_tests
        d = run_repo_tests()
        n = d.get("evaluations", {}).get("gensym", 0)
        if "error" in d or not d.get("installed") or n == 0:
            return {"ok": None, "classes": classes + ["contract-not-evaluated"]}
        bad = [v["what"] for v in d.get("violations", []) if v["property"] == ID]
        return {"ok": not bad, "why": " | ".join(bad[:3]) or None, "nontrivial": False, "classes": classes,
                "events": n, "n": 1}
    if mode == "free":
        old = sys.getswitchinterval()
        sys.setswitchinterval(1e-6)
        try:
            sink = []
            bodies = _bodies(case, sink)
            ths = [threading.Thread(target=b) for b in bodies]
            for t in ths:
                t.start()
            for t in ths:
                t.join()
        finally:
            sys.setswitchinterval(old)
        why = _judge(sink)
        return {"ok": why is None, "why": why, "nontrivial": False, "classes": classes,
                "events": len(sink), "n": 1}
    ctl = Controller(_codes(), "line" if case["level"] == "line" else "instr")
    nprox = _install_proxies(ctl)
    classes.append(f"level:{case['level']}")
    classes.append(f"locks-proxied:{nprox}")
    try:
        if mode == "inject":
            sink = []
            res = ctl.run_inject(_bodies(case, sink), case["p"], random.Random(case["argseed"]))
            why = _judge(sink)
            STATS["yield_events"] += ctl.events_fired
            STATS["inject_yields"] += ctl.inject_yields
            nsym = sum(1 for k, _ in sink if k == "sym")
            if sink and nsym < 0.9 * len(sink):
                return {"ok": None}
            key = hashlib.sha1(repr([str(s) for _, s in sink]).encode()).hexdigest()
            return {"ok": why is None, "why": why, "nontrivial": ctl.inject_yields > 0,
                    "nt_keys": [key], "classes": classes + [f"threads:{case['threads']}"],
                    "events": ctl.events_fired, "n": 1}
        # explore
        nt_keys = []
        n = 0
        why = None
        witness = None
        sink = []

        def make():
            sink.clear()
            return _bodies(case, sink)

        maxs = case.get("max_schedules", 4000)
        for prefix, res in ctl.explore(make, bound=case["bound"], max_schedules=maxs,
                                       shard=tuple(case["inner"]), timeout=0.5):
            n += 1
            STATS["schedules"] += 1
            STATS["stuck"] += res["stuck"]
            w = _judge(list(sink))
            order = res["order"]
            h = hashlib.sha1(repr(order).encode()).hexdigest()[:16]
            pre = sum(1 for (en, ch, cur) in res["decisions"] if cur is not None and cur in en and ch != cur)
            if pre:
                STATS["preempted"] += 1
                nt_keys.append(h)
            STATS["orders"].add(h)
            if w and why is None:
                why = w + f" under schedule prefix {prefix} (event order {order[:40]})"
                witness = prefix
                break
        STATS["yield_events"] += ctl.events_fired
        classes.append(f"threads:{case['threads']}x{case['calls']}")
        classes.append(f"bound:{case['bound']}")
        return {"ok": why is None, "why": why, "nontrivial": bool(nt_keys), "nt_keys": nt_keys,
                "classes": classes, "events": ctl.events_fired, "n": n,
                "sample": {"config": case, "schedules": n, "example_order": [list(map(str, o)) for o in order[:30]]}}
    finally:
        ctl.close()


def finish_worker():
    return {"schedules_executed": STATS["schedules"], "distinct_event_orders": len(STATS["orders"]),
            "schedules_with_preemption": STATS["preempted"], "threads_timed_out_as_stuck": STATS["stuck"],
            "yield_events_fired": STATS["yield_events"], "injected_yields": STATS["inject_yields"],
            "gensym_calls_returned": STATS["calls"], "gensym_calls_raised": STATS["raised"]}


def gate(tot, classes, extra, tier):
    if extra.get("schedules_executed", 0) == 0:
        return "no-schedule-executed"
    if extra.get("yield_events_fired", 0) == 0:
        return "scheduler-yield-callback-never-fired"
    ret, rai = extra.get("gensym_calls_returned", 0), extra.get("gensym_calls_raised", 0)
    if rai > 0.1 * (ret + rai):
        return f"only-{ret}-of-{ret + rai}-gensym-calls-returned"
    if extra.get("injected_yields", 0) == 0:
        return "yield-injection-never-fired"
    return None
