"""C02 — and/or short-circuit and return Python's operand value.

History observed: the object returned by the compiled form (by identity) and
the ordered trace of operand evaluations. Oracle: closed form.
"""
import itertools
import random

from hv.common import Trace, exec_hy, rng_for

ID = "C02"
LEVEL = "exploration"
RULE = ("(and ...)/(or ...) programs: arity 0-4 enumerated exhaustively over operand shape "
        "{var, effectful (L k v), statement-producing (do (setv t v) (L k t)), valueless statement (do (L k v) (setv s 1)), nested and/or} x "
        "truthiness x operator; arity 5-8 sampled; six usage contexts (incl. assignment to a variable that a later operand reads). Non-trivial = arity >= 2 "
        "with a statement-producing operand that is not first; distinct by program text.")
FLOOR = {"quick": 500, "thorough": 500}
BUDGET = {"quick": 40, "thorough": 420}
CASE_TIMEOUT = 20
NEEDS_EVENTS = True
EXHAUSTIVE = {"quick": False, "thorough": False}
ANCHORS = ["hy.core.result_macros:compile_logical_or_and_and_operator"]
ASSUMPTIONS = ["CPython 3.12.1 truthiness/identity semantics",
               "closed-form oracle: index of first falsy (and) / truthy (or) operand else last"]

MANIFEST = {
    "text": "Every (and ...)/(or ...) program of arity 0-4 over four operand shapes x truthiness x operator is executed (exhaustive), arity 5-8 sampled, in six usage contexts (incl. assignment to a variable that a later operand reads); the returned object is compared by identity and the operand-evaluation trace exactly with a closed-form oracle. Exploration: held on the programs run, nothing beyond.",
    "note": "Trusted: CPython 3.12.1 truthiness; the closed-form oracle (first falsy/truthy operand else last; left-to-right trace). Bounds: arity <= 8, nesting <= 3.",
    "technique": "runtime monitoring: trace logger on every operand + identity of returned object vs closed-form oracle, exhaustive small arities",
}

SHAPES = ["var", "eff", "stmt", "nest", "nstmt"]
SHAPES_RAND = SHAPES + ["dnest"]      # sampled part only (the exhaustive part keeps its five shapes)
CONTEXTS = ["used", "discarded", "iftest", "callarg", "infn", "alias"]
FALSY = ["[]", "0", '""', "None", "False"]


def mk_leaf(shape, truthy, idx, falsy_variant=0):
    return {"k": shape, "i": idx, "t": truthy, "fv": falsy_variant}


def build(op, specs, counter, rng=None, depth=0):
    """specs: list of (shape, truthy). Returns node."""
    ops = []
    for shape, truthy in specs:
        i = next(counter)
        fv = rng.randrange(len(FALSY)) if rng else 0
        if shape == "dnest":
            # a statement-producing operand whose *value* is a nested and/or of plain operands
            # (so the value expression is itself an ast.BoolOp): (do (setv sI 1) (or a b))
            inner_op = rng.choice(["and", "or"]) if rng else ("or" if op == "and" else "and")
            first = (rng.random() < 0.5) if rng else (inner_op == "and")
            inner = build(inner_op, [(rng.choice(["var", "eff"]) if rng else "eff", first), ("var", truthy)],
                          counter, rng, depth + 1)
            ops.append({"k": "dnest", "i": i, "inner": inner})
            continue
        if shape == "nest":
            # an inner form of the opposite operator whose overall truth is `truthy`
            inner_op = "or" if op == "and" else "and"
            if rng is not None and depth < 2:
                n = rng.randint(1, 3)
                inner_specs = [(rng.choice(["var", "eff", "stmt"]), rng.random() < 0.5)
                               for _ in range(n)]
                # force overall truth: last operand decides unless an earlier one does
                node = build(inner_op, inner_specs, counter, rng, depth + 1)
                node["i"] = i
                ops.append(node)
                continue
            if inner_op == "or":
                inner_specs = [("eff", False), ("stmt", truthy)]
            else:
                inner_specs = [("eff", True), ("stmt", truthy)]
            node = build(inner_op, inner_specs, counter, None, depth + 1)
            node["i"] = i
            ops.append(node)
        else:
            ops.append(mk_leaf(shape, truthy, i, fv))
    return {"k": "bool", "op": op, "ops": ops, "i": None}


def render(node):
    k = node["k"]
    if k == "var":
        return f"v{node['i']}"
    if k == "eff":
        return f"(L {node['i']} v{node['i']})"
    if k == "stmt":
        return f"(do (setv t{node['i']} v{node['i']}) (L {node['i']} t{node['i']}))"
    if k == "nstmt":          # a pure statement: effects but no value (evaluates to None)
        return f"(do (L {node['i']} v{node['i']}) (setv s{node['i']} 1))"
    if k == "dnest":
        return f"(do (setv s{node['i']} 1) {render(node['inner'])})"
    return "(" + " ".join([node["op"]] + [render(c) for c in node["ops"]]) + ")"


def leaves(node):
    if node["k"] == "dnest":
        yield from leaves(node["inner"])
    elif node["k"] == "bool":
        for c in node["ops"]:
            yield from leaves(c)
    else:
        yield node


def wrap(form, ctx, node=None):
    if ctx == "alias":
        # assign the form to a variable that one of its own (later) operands reads:
        # the target must keep its old value until the whole form has been evaluated
        lv = [l for l in leaves(node)] if node else []
        if not lv:
            return f"(setv RESULT {form})"
        tgt = f"v{lv[-1]['i']}"
        return f"(setv {tgt} {form})\n(setv RESULT {tgt})"
    if ctx == "used":
        return f"(setv RESULT {form})"
    if ctx == "discarded":
        return f"{form}\n(setv RESULT None)"
    if ctx == "iftest":
        return f'(setv RESULT (if {form} "T" "F"))'
    if ctx == "callarg":
        return f"(setv RESULT (IDENT {form}))"
    if ctx == "infn":
        return f"(setv RESULT ((fn [] {form})))"
    raise ValueError(ctx)


def cases(seed, tier, shard, nshards):
    idx = 0
    # deterministic family: first operand, statement operand, plain, statement operand whose value
    # is itself an and/or (dnest), plain - under every truthiness assignment
    for op in ("and", "or"):
        for lead, s1, p1, p2 in itertools.product(("var", "eff"), ("stmt", "nstmt", "dnest"), ("var", "eff"),
                                                  ("var", "eff")):
            for truth in itertools.product((True, False), repeat=5):
                idx += 1
                if idx % nshards != shard:
                    continue
                specs = list(zip([lead, s1, p1, "dnest", p2], truth))
                node = build(op, specs, itertools.count())
                ctx = CONTEXTS[idx % len(CONTEXTS)]
                yield {"node": node, "ctx": ctx, "text": wrap(render(node), ctx, node), "cls": "dnest5"}
    # exhaustive part
    for op in ("and", "or"):
        for n in range(0, 5):
            for specs in itertools.product(itertools.product(SHAPES, (True, False)), repeat=n):
                idx += 1
                if idx % nshards != shard:
                    continue
                node = build(op, specs, itertools.count())
                ctxs = CONTEXTS if tier == "thorough" or n <= 2 else [CONTEXTS[idx % 6], CONTEXTS[(idx // 6 + 1) % 6], "alias"]
                for ctx in dict.fromkeys(ctxs):
                    yield {"node": node, "ctx": ctx, "text": wrap(render(node), ctx, node), "cls": f"exh{n}"}
    # sampled part
    i = 0
    while True:
        rng = rng_for(seed, ID, shard, i)
        i += 1
        n = rng.randint(2, 8)
        op = rng.choice(["and", "or"])
        # stratify: choose the deciding position and the first statement position
        decider = rng.randrange(n + 1)   # n = nobody decides early
        specs = []
        for p in range(n):
            shape = rng.choice(SHAPES_RAND)
            truthy = (op == "and") if p != decider else (op != "and")
            if p > decider and rng.random() < 0.7:
                truthy = rng.random() < 0.5
            specs.append((shape, truthy))
        sp = rng.randrange(n)
        specs[sp] = ("stmt", specs[sp][1])
        if n >= 5 and rng.random() < 0.3:
            # statement, plain, statement-valued-as-BoolOp, plain: the plain operand after a
            # statement operand whose value is an and/or must not be folded into that and/or
            o = rng.randrange(1, n - 3)     # after the first operand: the temporary exists already
            for q, sh in enumerate([rng.choice(["stmt", "nstmt", "dnest"]), rng.choice(["var", "eff"]),
                                    "dnest", rng.choice(["var", "eff"])]):
                specs[o + q] = (sh, (op == "and") if rng.random() < 0.8 else (op != "and"))
        node = build(op, specs, itertools.count(), rng)
        ctx = rng.choice(CONTEXTS)
        yield {"node": node, "ctx": ctx, "text": wrap(render(node), ctx, node), "cls": f"rand{n}"}


def value_for(leaf, values):
    if leaf["t"]:
        return [leaf["i"]]
    fv = FALSY[leaf["fv"]]
    return {"[]": [], "0": 0, '""': "", "None": None, "False": False}[fv] if fv != "[]" else []


def ref(node, values, trace):
    k = node["k"]
    if k == "var":
        return values[node["i"]]
    if k in ("eff", "stmt"):
        trace.append(node["i"])
        return values[node["i"]]
    if k == "nstmt":
        trace.append(node["i"])
        return None
    if k == "dnest":
        return ref(node["inner"], values, trace)
    res = True if node["op"] == "and" else None
    for c in node["ops"]:
        res = ref(c, values, trace)
        if (node["op"] == "and" and not res) or (node["op"] == "or" and res):
            return res
    return res


def run_case(case):
    node, ctx, text = case["node"], case["ctx"], case["text"]
    values = {}
    for lf in leaves(node):
        values[lf["i"]] = value_for(lf, values)
    tr = Trace(with_values=False)
    env = {f"v{i}": v for i, v in values.items()}
    env.update(L=tr.L, IDENT=lambda x: x)
    m, exc, tree, phase = exec_hy(text, env)
    exp_trace = []
    exp = ref(node, values, exp_trace)
    classes = [case["cls"], "ctx:" + ctx, "op:" + node["op"]]
    lv = list(leaves(node))
    nontrivial = (len(node["ops"]) >= 2 and
                  (any(l["k"] in ("stmt", "nstmt") for c in node["ops"][1:] for l in leaves(c))
                   or any(c["k"] == "dnest" for c in node["ops"][1:])))
    res = {"ok": True, "nontrivial": nontrivial, "classes": classes, "events": len(tr.events)}
    if exc is not None:
        res.update(ok=False, why=f"{phase} raised {type(exc).__name__}: {exc}")
        return res
    got = m.__dict__.get("RESULT", "<unset>")
    if tr.events != exp_trace:
        res.update(ok=False, why=f"operand trace {tr.events} expected {exp_trace}")
        return res
    if ctx == "discarded":
        pass
    elif ctx == "iftest":
        if got != ("T" if exp else "F"):
            res.update(ok=False, why=f"if-test saw {got!r} for value {exp!r}")
    else:
        if got is not exp:
            res.update(ok=False, why=f"returned {got!r} (id mismatch) expected {exp!r}")
    return res
