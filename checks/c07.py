"""C07 — `nonlocal` / `global` reach the binding scoping prescribes.

Programs (statement-structured nestings of defn / defclass / let, depth 1-4,
names defined, declared, assigned and read at every level) are generated in the
resolved scope IR of hv/scope_ir.py.  The resolver knows the target binder of
every declaration, so the CPython twin is rendered with `global n`,
`nonlocal n` or the unique twin name of a let binder written out explicitly.
Both programs run under the same logger; every read is logged with its value
and every assignment stores a unique constant, so the traces tell which
binding each assignment reached.  Declare-after-use must be rejected by hy
(CPython rejects the twin).
"""
from hv.common import Trace, exec_hy, exec_py, rng_for, token
from hv import scope_ir as S

ID = "C07"
LEVEL = "exploration"
RULE = ("random nestings (depth 1-4) of defn, defclass and let over the name pool {a b c}; names "
        "bound at module / function / class / let level, declared nonlocal or global (1-3 names per "
        "declaration, at the top of a function, class or let body, or late = after a use), assigned "
        "unique constants and read (logged) at every level, functions called after definition and "
        "again later. Non-trivial = a declaration whose target binder lies >= 2 scope levels above "
        "it or one declaration mixing target kinds (let / function / module), or an expected "
        "rejection; distinct by program text.")
FLOOR = {"quick": 500, "thorough": 500}
BUDGET = {"quick": 18, "thorough": 420}
CASE_TIMEOUT = 20
NEEDS_EVENTS = True
ANCHORS = ["hy.scoping:ResolveOuterVars.visit_OuterVar", "hy.scoping:ScopeGlobal.define_nonlocal",
           "hy.scoping:ScopeLet.define_nonlocal", "hy.scoping:ScopeFn.define_nonlocal",
           "hy.scoping:ScopeGlobal.__exit__",
           "hy.core.result_macros:compile_global_or_nonlocal"]
ASSUMPTIONS = [
    "CPython 3.12.1 implements global/nonlocal as documented (twin)",
    "the resolver of hv/scope_ir.py: nonlocal -> nearest enclosing let binder / function local / "
    "module variable outside the declaring Python scope, class-body variables are not enclosing "
    "bindings (Python rule), global -> module",
    "'is a Hy syntax error' is read as: rejected by hy_compile itself, before CPython sees the AST",
]
MANIFEST = {
    "text": "Generated nestings of functions, classes and let forms with nonlocal/global declarations at "
            "every level are executed next to a CPython twin in which every declaration is written out "
            "for the binder the scope resolver prescribes; the logged values of every read (after "
            "assignments of unique constants and after every call) and the final module variables must "
            "agree; declare-after-use must be rejected by hy's compiler. Exploration: held on the programs "
            "run, nothing beyond.",
    "note": "Trusted: CPython's global/nonlocal, the scope resolver. Bounds: depth <= 4, <= ~40 statements, "
            "3 names. Not generated (docs leave open / repo tests fix behaviour the statement does not): "
            "nonlocal of a name bound by the directly enclosing let of the same Python scope, global of a "
            "name let-bound in the same Python scope, let directly in a class body, assignment to an outer "
            "let name from a nested function without declaration, module-level declarations, nonlocal of a "
            "global that only exists through another function's `global`.",
    "technique": "runtime monitoring: differential execution against a CPython twin rendered from a "
                 "resolved scope IR, trace logger on every read",
}

POOL = ["a", "b", "c"]

# Mechanisms found on the unchanged tree (attribution: see attribute() below).
#
# KEY_CLASSVAR  hy.scoping treats a class body like a function scope when it
#   resolves names used in scopes nested in the class: ResolveOuterVars.visit_OuterVar
#   (`isinstance(scope, ScopeFn): has = scope.defined`) and ScopeFn.__exit__ (a name
#   that the class defines is not passed up).  Witnesses:
#     (setv x 1) (defclass C [] (setv x 2) (defn m [] (nonlocal x) (setv x 3)))
#        -> SyntaxError: no binding for nonlocal 'x' found (prescribed: global x)
#     (let [a 4] (defclass C [] (global a) (setv a 7) (defn m [] a)))   ; (m) reads global a, not the let
#   Repair: only function scopes contribute `defined` in visit_OuterVar; in
#   ScopeFn.__exit__ a class scope passes up every reference that came from a nested
#   scope (mark NodeRefs handed to a parent as `inherited`).
# KEY_NESTED_USE  ScopeFn.define_nonlocal scans `self.seen`, which also holds the
#   references passed up by nested functions that were compiled earlier:
#     (setv x 1) (defn f [] (defn g [] x) (global x) (setv x 5))
#        -> HySyntaxError: name 'x' is declared global after being used (CPython accepts the twin)
#   Repair: skip `inherited` references in that scan.
KEY_CLASSVAR = "class-scope-treated-as-enclosing"
KEY_NESTED_USE = "declared-after-use-in-nested-function"


# ------------------------------------------------------------------ generator

class Env:
    """Generator-side view of one Python scope (approximate; the resolver is
    authoritative and discards what falls outside the specified fragment)."""

    def __init__(self, kind, outer, outer_let):
        self.kind = kind            # mod | fn | cls
        self.outer = outer          # names with a binding visible from outside this scope -> kind
        self.outer_let = outer_let  # subset of names whose nearest outside binding is a let
        self.lets = []              # let frames (sets of names) inside this scope, innermost last
        self.plan = set()           # names this scope assigns at its own level (locals)
        self.declared = {}          # name -> nonlocal|global
        self.pending = None         # declaration node not yet placed
        self.assigned = set()


class Gen:
    def __init__(self, rng, maxdepth):
        self.r = rng
        self.maxdepth = maxdepth
        self.lid = 0
        self.const = 0
        self.nfn = 0
        self.ncls = 0
        self.budget = 14
        self.illegal_planned = rng.random() < 0.13
        self.illegal_done = False

    def K(self):
        self.const += 1
        return S.Int(self.const)

    def site(self):
        self.lid += 1
        return self.lid

    def let_bound_here(self, env):
        s = set()
        for fr in env.lets:
            s |= fr
        return s

    def assign_targets(self, env):
        here = self.let_bound_here(env)
        t = set(here) | set(env.declared)
        if env.kind == "mod":
            t |= set(POOL)
        else:
            t |= env.plan
        return sorted(t)

    def readable(self, env):
        t = set(self.let_bound_here(env)) | set(env.declared) | set(env.outer)
        if env.kind != "mod":
            t |= (env.plan & env.assigned)
        else:
            t |= env.assigned
        return sorted(t) or list(POOL)

    def visible_for_child(self, env):
        """(outer, outer_let) for a Python scope created at the current position."""
        outer = dict(env.outer)
        outer_let = set(env.outer_let)
        if env.kind == "fn":
            for n in env.plan:
                outer[n] = "fn"
                outer_let.discard(n)
            for n, w in env.declared.items():
                outer[n] = "decl"
                outer_let.discard(n)
        elif env.kind == "mod":
            for n in POOL:
                if n in env.plan:
                    outer[n] = "mod"
                    outer_let.discard(n)
        for fr in env.lets:
            for n in fr:
                outer[n] = "let"
                outer_let.add(n)
        return outer, outer_let

    # ---- one Python scope
    def scope_body(self, env, depth):
        r = self.r
        body = []
        if env.kind != "mod":
            # declarations of this scope
            cands = sorted(env.outer)
            names = []
            if cands and r.random() < 0.75:
                names = r.sample(cands, min(len(cands), r.choices([1, 2, 3], [5, 3, 1])[0]))
            if r.random() < 0.06:
                extra = [n for n in POOL if n not in env.outer]
                if extra:
                    names.append(r.choice(extra))       # no binding anywhere (or module only)
            if names:
                w = "nonlocal" if r.random() < 0.72 else "global"
                for n in names:
                    env.declared[n] = w
                env.pending = S.Decl(w, *names)
            free = [n for n in POOL if n not in env.declared and n not in env.outer_let]
            env.plan = {n for n in free if r.random() < 0.45}
            late = env.pending is not None and self.illegal_planned and not self.illegal_done \
                and r.random() < 0.5
            if env.pending is not None and not late and r.random() < 0.7:
                body.append(env.pending)
                env.pending = None
            if late:
                # use (read or assignment) in the same scope, then the declaration
                self.illegal_done = True
                n = r.choice(env.pending["names"])["n"]
                if r.random() < 0.5:
                    body.append(S.Set(S.TN(n), self.K()))
                else:
                    body.append(S.Log(self.site(), S.Ref(n)))
                body.append(env.pending)
                env.pending = None
        self.block(env, depth, body, r.randint(2, 4))
        if env.pending is not None:
            # never placed inside a let: put it first, or (legal in Python) after
            # leading definitions of nested functions / classes that do not use
            # the declared names at this scope's own level
            pos = 0
            if r.random() < 0.5:
                names = {e["n"] for e in env.pending["names"]}
                while pos < len(body) and not mentions_at_level(body[pos], names):
                    pos += 1
                pos = r.randint(0, pos)
            body.insert(pos, env.pending)
            env.pending = None
        return body

    def block(self, env, depth, body, nitems):
        r = self.r
        deferred = []
        for _ in range(nitems):
            self.budget -= 1
            choices = [("assign", 4), ("read", 3), ("aug", 1)]
            if depth < self.maxdepth and self.budget > 0:
                choices += [("fn", 5), ("let", 3 if env.kind != "cls" or env.lets else 0), ("cls", 1.2)]
            kind = r.choices([c[0] for c in choices], [c[1] for c in choices])[0]
            if kind == "assign":
                t = self.assign_targets(env)
                if t:
                    n = r.choice(t)
                    body.append(S.Set(S.TN(n), self.K()))
                    if not self.let_bound_here(env) & {n}:
                        env.assigned.add(n)
            elif kind == "aug":
                t = [n for n in self.assign_targets(env) if n in self.readable(env)]
                if t:
                    body.append(S.Set(S.TN(r.choice(t)), S.Int(100), "+="))
            elif kind == "read":
                body.append(S.Log(self.site(), S.Ref(r.choice(self.readable(env)))))
            elif kind == "let":
                body.append(self.let(env, depth))
            elif kind == "fn":
                self.nfn += 1
                name = f"f{self.nfn}"
                outer, outer_let = self.visible_for_child(env)
                child = Env("fn", outer, outer_let)
                fbody = self.scope_body(child, depth + 1)
                body.append(S.Fn(name, [], *fbody))
                call = S.Call(S.Ref(name))
                if r.random() < 0.8:
                    body.append(call)
                    self.reads_after(env, body)
                if r.random() < 0.35:
                    deferred.append(S.Call(S.Ref(name)))
            elif kind == "cls":
                self.ncls += 1
                cname = f"C{self.ncls}"
                outer, outer_let = self.visible_for_child(env)
                child = Env("cls", outer, outer_let)
                cbody = self.scope_body(child, depth + 1)
                body.append(S.Cls(cname, *cbody))
                self.reads_after(env, body)
        for c in deferred:
            body.append(c)
            self.reads_after(env, body)

    def reads_after(self, env, body):
        names = self.readable(env)
        for n in self.r.sample(names, min(len(names), self.r.randint(1, 2))):
            body.append(S.Log(self.site(), S.Ref(n)))

    def let(self, env, depth):
        r = self.r
        names = r.sample(POOL, r.choices([1, 2], [3, 1])[0])
        binds = [[S.TN(n), self.K()] for n in names]
        frame = set(names)
        env.lets.append(frame)
        body = []
        # declarations may sit at the top of a let body (ScopeLet.define_nonlocal)
        decl_names = []
        w = None
        if env.pending is not None and r.random() < 0.6:
            w = env.pending["w"]
            decl_names = [e["n"] for e in env.pending["names"]]
            env.pending = None
        if len(env.lets) >= 2 and env.kind != "mod" and (w in (None, "nonlocal")) and r.random() < 0.3:
            # names bound by outer lets of the same Python scope: elided by hy
            outer_names = set()
            for fr in env.lets[:-1]:
                outer_names |= fr
            outer_names -= frame
            outer_names -= set(decl_names)
            if outer_names:
                w = "nonlocal"
                decl_names += r.sample(sorted(outer_names), r.randint(1, len(outer_names)))
                r.shuffle(decl_names)
        if decl_names:
            body.append(S.Decl(w, *decl_names))
        self.block(env, depth + 1, body, r.randint(1, 4))
        env.lets.pop()
        return S.Let(binds, *body)


def mentions_at_level(stmt, names):
    """Does the statement use one of the names at the level of the scope it is
    in (not inside nested function / class bodies)?"""
    k = stmt.get("k")
    if k in ("fn", "cls"):
        return False
    if k == "call":
        return False
    if k == "let":
        return True         # conservatively: do not hoist over let forms
    found = set()
    S.collect_ref_names(stmt, found)
    if k == "set":
        found |= {t["n"] for t in S.target_names(stmt["t"])}
    if k == "decl":
        found |= {e["n"] for e in stmt["names"]}
    return bool(found & names)


def prune_unbound_reads(node):
    """Drop logged reads whose name has no binding anywhere (certain NameError
    on both sides, which would only hide the rest of the program)."""
    if isinstance(node, dict):
        for key in ("body",):
            if key in node:
                node[key] = [f for f in node[key]
                             if not (f.get("k") == "L" and f["e"].get("bt") == "free")]
        for v in node.values():
            prune_unbound_reads(v)
    elif isinstance(node, list):
        for v in node:
            prune_unbound_reads(v)


def decl_facts(mod, res):
    """Per declaration: how many frames (fn / cls / let) lie between the
    declaration and its target binder, and the target kinds it mixes."""
    facts = {"mixed": False, "deep": False, "kinds": set(), "elided": False, "in_let": False,
             "unbound": False, "n": 0, "in_cls": False}

    def visit(n, chain):
        if isinstance(n, dict):
            k = n.get("k")
            if k == "decl":
                kinds = set()
                el = [bool(e.get("elided")) for e in n["names"]]
                if any(x and y for x, y in zip(el, el[1:])):
                    facts["elided_adjacent"] = True
                for e in n["names"]:
                    facts["n"] += 1
                    if e.get("elided"):
                        facts["elided"] = True
                        kinds.add("let-same-scope")
                        continue
                    bt = e.get("bt")
                    kinds.add(bt)
                    if bt == "unbound":
                        facts["unbound"] = True
                        continue
                    b = e.get("b", "")
                    key = b.split(":")[0]
                    idx = -1
                    for i, fr in enumerate(chain):
                        if key in fr[1]:
                            idx = i
                    d = len(chain) - 1 - idx
                    if d >= 2:
                        facts["deep"] = True
                if chain and chain[-1][0] == "let":
                    facts["in_let"] = True
                if any(fr[0] == "cls" for fr in chain):
                    facts["in_cls"] = True
                facts["kinds"] |= kinds
                if len(kinds - {"unbound"}) >= 2:
                    facts["mixed"] = True
                return
            if k in ("fn", "cls"):
                for f in n["body"]:
                    visit(f, chain + [(k, {n.get("_id", "?")})])
                return
            if k == "let":
                ids = {t["b"] for tg, _ in n["binds"] for t in S.target_names(tg)}
                for f in n["body"]:
                    visit(f, chain + [("let", ids)])
                return
            for v in n.values():
                visit(v, chain)
        elif isinstance(n, list):
            for v in n:
                visit(v, chain)
    visit(mod, [])
    facts["kinds"] = sorted(k for k in facts["kinds"] if k)
    return facts


def max_depth(node, d=0):
    best = d
    if isinstance(node, dict):
        nd = d + 1 if node.get("k") in ("fn", "cls", "let") else d
        best = max(best, nd)
        for v in node.values():
            best = max(best, max_depth(v, nd))
    elif isinstance(node, list):
        for v in node:
            best = max(best, max_depth(v, d))
    return best


# --------------------------------- stratum: multi-name declarations with elision
#
# One (nonlocal n1 .. nk), k = 2-4, written in a let nested in further lets of
# the same function, in which >= 2 ADJACENT names are bound by those enclosing
# lets (hy elides them) mixed, in every order, with names whose binding lies
# outside the function (enclosing function local, module variable, outer let).

NAMES5 = ["a", "b", "c", "d", "e"]


def multi_elide_program(rng):
    r = rng
    k = [0]
    sid = [0]

    def K():
        k[0] += 1
        return S.Int(k[0])

    def site():
        sid[0] += 1
        return sid[0]

    names = list(NAMES5)
    r.shuffle(names)
    nlet = r.choice([2, 2, 3])
    let_names = names[:nlet]                    # bound by enclosing lets of f1 -> elided
    rest = names[nlet:]
    outside = rest[:r.randint(0, min(2, len(rest)))]   # bound outside f1 -> really declared
    inner_own = [n for n in rest if n not in outside][:1]   # bound by the innermost let
    # order: every permutation in which some two let names are adjacent
    decl = let_names + outside
    for _ in range(20):
        r.shuffle(decl)
        if any(decl[i] in let_names and decl[i + 1] in let_names for i in range(len(decl) - 1)):
            break
    # enclosing lets: all names in one let, or split over two nested lets
    split = r.random() < 0.5 and nlet >= 2
    groups = [let_names[:1], let_names[1:]] if split else [let_names]
    kinds = {}
    for n in outside:
        kinds[n] = r.choice(["fn", "mod", "let"])
    has_f0 = any(v == "fn" for v in kinds.values()) or r.random() < 0.3
    innermost_binds = [[S.TN(n), K()] for n in (inner_own or ["e" if "e" not in decl else "d"])
                       if n not in decl] or [[S.TN("zq"), K()]]
    inner_body = [S.Decl("nonlocal", *decl)]
    for n in r.sample(decl, len(decl)):
        if r.random() < 0.8:
            inner_body.append(S.Set(S.TN(n), K()))
        inner_body.append(S.Log(site(), S.Ref(n)))
    node = S.Let(innermost_binds, *inner_body)
    if r.random() < 0.3:        # one more let level in between
        node = S.Let([[S.TN("zr"), K()]], node)
    for grp in reversed(groups):
        after = [S.Log(site(), S.Ref(n)) for n in grp]
        node = S.Let([[S.TN(n), K()] for n in grp], node, *after)
    f1_body = [node] + [S.Log(site(), S.Ref(n)) for n in outside]
    f1 = S.Fn("f1", [], *f1_body)
    call1 = [f1, S.Call(S.Ref("f1"))] + [S.Log(site(), S.Ref(n)) for n in outside]
    if r.random() < 0.4:
        call1 += [S.Call(S.Ref("f1"))] + [S.Log(site(), S.Ref(n)) for n in outside]
    fn_level = [n for n in outside if kinds[n] == "fn"]
    let_level = [n for n in outside if kinds[n] == "let"]
    mod_level = [n for n in outside if kinds[n] == "mod"]
    inner = call1
    if has_f0:
        inner = [S.Fn("f0", [], *([S.Set(S.TN(n), K()) for n in fn_level] + call1)), S.Call(S.Ref("f0"))]
    else:
        mod_level += fn_level
    if let_level:
        inner = [S.Let([[S.TN(n), K()] for n in let_level], *inner,
                       *[S.Log(site(), S.Ref(n)) for n in let_level])]
    body = [S.Set(S.TN(n), K()) for n in mod_level] + inner + [S.Log(site(), S.Ref(n)) for n in mod_level]
    return S.Mod(*body)


def finish_case(mod, extra=None):
    res = S.resolve(mod)
    if res.carve:
        return None
    facts = decl_facts(mod, res)
    try:
        py = "\n".join(S.to_py(mod["body"], res.binders))
    except ValueError:
        return None
    case = {"hy": S.to_hy(mod), "py": py, "facts": facts, "depth": max_depth(mod), "ir": S.strip(mod)}
    if extra:
        case.update(extra)
    return case


# ------------------------------------------- regression section (repaired mechanisms)

def regression_programs():
    I, R, L, T = S.Int, S.Ref, S.Log, S.TN
    out = []
    # d16bf94 class-scope-treated-as-enclosing
    out.append(("class-scope-treated-as-enclosing", S.Mod(
        S.Set(T("a"), I(1)),
        S.Cls("C1", S.Set(T("a"), I(2)),
              S.Fn("f1", [], S.Decl("nonlocal", "a"), S.Set(T("a"), I(3))), S.Call(R("f1")), L(1, R("a"))),
        L(2, R("a")))))
    out.append(("class-scope-treated-as-enclosing", S.Mod(
        S.Set(T("a"), I(1)),
        S.Let([[T("a"), I(4)]],
              S.Cls("C1", S.Decl("global", "a"), S.Set(T("a"), I(7)),
                    S.Fn("f1", [], L(1, R("a"))), S.Call(R("f1"))),
              L(2, R("a"))),
        L(3, R("a")))))
    # be16b0b declared-after-use-in-nested-function
    for w in ("global", "nonlocal"):
        out.append(("declared-after-use-in-nested-function", S.Mod(
            S.Set(T("a"), I(1)),
            S.Fn("f1", [], S.Fn("f2", [], L(1, R("a"))), S.Decl(w, "a"), S.Set(T("a"), I(5)), S.Call(R("f2"))),
            S.Call(R("f1")), L(2, R("a")))))
    # f326114 nonlocal-multi-name-let-elision-skips
    out.append(("nonlocal-multi-name-let-elision-skips", S.Mod(
        S.Fn("f1", [], S.Let([[T("c"), I(2)], [T("a"), I(3)]],
                             S.Let([[T("b"), I(4)]], S.Decl("nonlocal", "c", "a"), S.Set(T("c"), I(5)),
                                   L(1, R("a")), L(2, R("c"))),
                             L(3, R("c")))),
        S.Call(R("f1")))))
    out.append(("nonlocal-multi-name-let-elision-skips", S.Mod(
        S.Set(T("d"), I(1)),
        S.Fn("f1", [], S.Let([[T("a"), I(2)], [T("b"), I(3)], [T("c"), I(4)]],
                             S.Let([[T("e"), I(5)]], S.Decl("nonlocal", "a", "b", "d", "c"),
                                   S.Set(T("b"), I(6)), S.Set(T("d"), I(7)), L(1, R("a")), L(2, R("b")),
                                   L(3, R("c"))),
                             L(4, R("b")))),
        S.Call(R("f1")), L(5, R("d")))))
    return out


def cases(seed, tier, shard, nshards):
    for j, (key, mod) in enumerate(regression_programs()):
        if j % nshards == shard:
            case = finish_case(mod, {"regress": key})
            assert case is not None, key
            yield case
    i = 0
    while True:
        rng = rng_for(seed, ID, shard, i)
        i += 1
        if i % 5 == 0:
            case = finish_case(multi_elide_program(rng), {"stratum": "multi-elide"})
            if case is not None:
                yield case
            continue
        g = Gen(rng, 4)
        if tier == "thorough":
            g.budget = 26       # more statements / scopes per program (depth stays 1-4)
        env = Env("mod", {}, set())
        env.plan = {n for n in POOL if rng.random() < 0.7}
        full = rng.random() < 0.6
        prelude_names = [n for n in POOL if n in env.plan and (full or rng.random() < 0.6)]
        body = [S.Set(S.TN(n), g.K()) for n in prelude_names]
        env.assigned = set(prelude_names)
        env.outer = {}
        g.block(env, 0, body, rng.randint(2, 4))
        # late module-level bindings ("late global binding should still work")
        late = [n for n in env.plan if n not in prelude_names]
        calls = [f for f in body if f.get("k") == "call"]
        for n in late:
            body.append(S.Set(S.TN(n), g.K()))
        if late and calls:
            body.append(S.Call(S.Ref(calls[-1]["f"]["n"])))
        for n in POOL:
            if n in env.plan:
                body.append(S.Log(g.site(), S.Ref(n)))
        mod = S.Mod(*body)
        res = S.resolve(mod)
        if res.carve or not any_decl(mod):
            continue
        prune_unbound_reads(mod)
        S.strip(mod)
        res = S.resolve(mod)
        if res.carve:
            continue
        facts = decl_facts(mod, res)
        if facts["n"] == 0:
            continue
        try:
            py = "\n".join(S.to_py(mod["body"], res.binders))
        except ValueError:
            continue
        yield {"hy": S.to_hy(mod), "py": py, "facts": facts, "depth": max_depth(mod) - 0,
               "ir": S.strip(mod)}


def any_decl(node):
    if isinstance(node, dict):
        if node.get("k") == "decl":
            return True
        return any(any_decl(v) for v in node.values())
    if isinstance(node, list):
        return any(any_decl(v) for v in node)
    return False


def case_key(case):
    return case["hy"]


# --------------------------------------------------------------------- oracle

def _globals(d):
    out = {}
    for k, v in d.items():
        if k in NAMES5:
            out[k] = token(v)
    return out


def run_hy(text):
    """Returns observation dict; 'rejected' = raised while compiling: by hy's
    own compiler (`by: hy`) or only by CPython's compile of hy's AST."""
    from hv.common import compile_hy, fresh_module
    import sys
    tr = Trace()
    m = fresh_module()
    m.__dict__["L"] = tr.L
    sys.modules[m.__name__] = m
    try:
        try:
            tree = compile_hy(text, m)
        except BaseException as e:
            if type(e).__name__ == "CaseTimeout":
                raise
            return {"rejected": True, "by": "hy", "exc": type(e).__name__, "msg": str(e)[:200],
                    "syntax": isinstance(e, SyntaxError), "trace": [], "globals": {}}
        try:
            code = compile(tree, "<hvcase>", "exec")
        except BaseException as e:
            if type(e).__name__ == "CaseTimeout":
                raise
            return {"rejected": True, "by": "cpython", "exc": type(e).__name__, "msg": str(e)[:200],
                    "syntax": isinstance(e, SyntaxError), "trace": [], "globals": {}}
        exc = None
        try:
            exec(code, m.__dict__)
        except BaseException as e:
            if type(e).__name__ == "CaseTimeout":
                raise
            exc = e
        return {"rejected": False, "exc": None if exc is None else type(exc).__name__,
                "msg": None if exc is None else str(exc)[:200],
                "trace": tr.events, "globals": _globals(m.__dict__)}
    finally:
        sys.modules.pop(m.__name__, None)


def run_py(text):
    tr = Trace()
    m, exc, phase = exec_py(text, {"L": tr.L})
    if phase == "compile":
        return {"rejected": True, "by": "cpython", "exc": type(exc).__name__, "msg": str(exc)[:200],
                "syntax": isinstance(exc, SyntaxError), "trace": [], "globals": {}}
    return {"rejected": False, "exc": None if exc is None else type(exc).__name__,
            "msg": None if exc is None else str(exc)[:200],
            "trace": tr.events, "globals": _globals(m.__dict__)}


def compare(h, p):
    if p["rejected"]:
        if not p.get("syntax"):
            return None, "twin-broken"
        if not h["rejected"]:
            return (f"CPython rejects the twin ({p['msg']}) but hy accepted the program "
                    f"(ran: exc={h['exc']}, trace={h['trace']})"), None
        if h["by"] != "hy" and "declaration" in p["msg"]:
            return (f"declared after use: not rejected by hy's compiler, only by CPython's compile of "
                    f"the emitted AST ({h['exc']}: {h['msg']})"), None
        if not h.get("syntax"):
            return f"rejected with {h['exc']} ({h['msg']}), not a syntax error", None
        return None, "both-reject"
    if h["rejected"]:
        return (f"legal program rejected at compile time by {h['by']}: {h['exc']}: {h['msg']}"), None
    for key, what in (("exc", "escaping exception"), ("trace", "logged reads"),
                      ("globals", "final module variables")):
        if h[key] != p[key]:
            return f"{what}: hy {h[key]!r} ({h.get('msg')}) vs CPython twin {p[key]!r} ({p.get('msg')})", None
    return None, "agree"


def run_case(case):
    h = run_hy(case["hy"])
    p = run_py(case["py"])
    facts = case.get("facts", {})
    why, tag = compare(h, p)
    classes = ["depth:%d" % case.get("depth", 0)]
    if case.get("regress"):
        classes.append("regress:" + case["regress"])
    if case.get("stratum"):
        classes.append("stratum:" + case["stratum"])
        if facts.get("elided_adjacent"):
            classes.append("decl-elided-adjacent-pair")
    classes += ["target:" + k for k in facts.get("kinds", [])]
    for f in ("mixed", "deep", "elided", "in_let", "in_cls", "unbound"):
        if facts.get(f):
            classes.append("decl-" + f)
    if tag:
        classes.append(tag)
    if p["rejected"]:
        classes.append("twin-rejects:" + ("declaration-order" if "declaration" in p["msg"] else
                                          "no-binding" if "no binding" in p["msg"] else "other"))
    if p.get("exc"):
        classes.append("twin-raises:" + p["exc"])
    if tag == "twin-broken":
        return {"ok": None, "classes": classes, "events": 0, "nontrivial": False}
    nontrivial = bool(facts.get("mixed") or facts.get("deep") or tag == "both-reject")
    res = {"ok": why is None, "nontrivial": nontrivial, "classes": classes,
           "events": len(h["trace"]) + len(p["trace"]) + (1 if h["rejected"] else 0),
           "sample": {"hy": case["hy"], "py": case["py"]}}
    if why is not None:
        res["why"] = why
        key = attribute(case, why)
        if key:
            res["finding"] = key
    return res


# ---------------------------------------------------- attribution (known findings)
#
# Two mechanisms were found on the unchanged tree.  A violating case is
# attributed to one of them only if it has the input feature AND the violation
# disappears when that feature alone is normalised away (DESIGN section 4).

import copy


def _occurrences(node, out):
    """refs, assignment targets and declaration entries in a subtree."""
    if isinstance(node, dict):
        k = node.get("k")
        if k in ("ref", "tn") and "b" in node:
            out.append(node)
        elif k == "decl":
            out.extend(e for e in node["names"] if "b" in e)
        for v in node.values():
            _occurrences(v, out)
    elif isinstance(node, list):
        for v in node:
            _occurrences(v, out)


def _inside_ids(node, acc):
    if isinstance(node, dict):
        if node.get("k") in ("fn", "cls") and "_id" in node:
            acc.add(node["_id"])
        if node.get("k") == "let":
            for tg, _ in node["binds"]:
                for t in S.target_names(tg):
                    acc.add(t.get("b"))
        for v in node.values():
            _inside_ids(v, acc)
    elif isinstance(node, list):
        for v in node:
            _inside_ids(v, acc)


def _level_nodes(body, out):
    """statements of a Python scope's own level (through let/do/for, not into fn/cls)."""
    for f in body:
        out.append(f)
        if f.get("k") in ("let", "do", "for"):
            _level_nodes(f["body"], out)


def class_capture_sites(mod):
    """(class node, names): the class binds or declares the name and a scope
    nested in the class refers to it with a lexical target outside the class."""
    sites = []

    def visit(node):
        if isinstance(node, dict):
            if node.get("k") == "cls":
                bound = set(node.get("_locals", ())) | set(node.get("_declnames", {}))
                ids = set()
                _inside_ids(node, ids)
                level = []
                _level_nodes(node["body"], level)
                names = set()
                for f in level:
                    if f.get("k") in ("fn", "cls"):
                        occ = []
                        _occurrences(f["body"], occ)
                        for o in occ:
                            if o["n"] in bound and str(o.get("b", "")).split(":")[0] not in ids:
                                names.add(o["n"])
                if names:
                    sites.append((node, sorted(names)))
            for v in node.values():
                visit(v)
        elif isinstance(node, list):
            for v in node:
                visit(v)
    visit(mod)
    return sites


def _rename_level(cls, name, new):
    level = []
    _level_nodes(cls["body"], level)
    for f in level:
        k = f.get("k")
        if k in ("fn", "cls"):
            continue
        if k == "decl":
            for e in f["names"]:
                if e["n"] == name:
                    e["n"] = new
        elif k == "set":
            for t in S.target_names(f["t"]):
                if t["n"] == name:
                    t["n"] = new
            _rename_refs(f["v"], name, new)
        elif k == "let":
            for tg, v in f["binds"]:
                _rename_refs(v, name, new)
        elif k in ("L", "call"):
            _rename_refs(f, name, new)


def _rename_refs(node, name, new):
    if isinstance(node, dict):
        if node.get("k") in ("fn", "cls"):
            return
        if node.get("k") == "ref" and node["n"] == name:
            node["n"] = new
        for v in node.values():
            _rename_refs(v, name, new)
    elif isinstance(node, list):
        for v in node:
            _rename_refs(v, name, new)


def normalise_class_capture(ir):
    mod = S.strip(copy.deepcopy(ir))
    S.resolve(mod)
    sites = class_capture_sites(mod)
    if not sites:
        return None
    for i, (cls, names) in enumerate(sites):
        for n in names:
            _rename_level(cls, n, f"{n}_k{i}")
    return mod


def _hoistable(fnode):
    level = []
    _level_nodes(fnode["body"], level)
    decls = [f for f in level if f.get("k") == "decl"]
    seen_scope = False
    late = False
    for f in level:
        if f.get("k") in ("fn", "cls"):
            seen_scope = True
        if f.get("k") == "decl" and seen_scope:
            late = True
    return decls, late


def normalise_hoist_declarations(ir):
    """Move every (non-elided) declaration to the top of its Python scope."""
    mod = S.strip(copy.deepcopy(ir))
    S.resolve(mod)
    changed = [False]

    def visit(node):
        if isinstance(node, dict):
            if node.get("k") in ("fn", "cls"):
                decls, late = _hoistable(node)
                if late:
                    moved = {"nonlocal": [], "global": []}
                    for d in decls:
                        keep = []
                        for e in d["names"]:
                            if e.get("elided"):
                                keep.append(e)
                            elif e["n"] not in moved[d["w"]]:
                                moved[d["w"]].append(e["n"])
                        d["names"] = keep
                    _drop_empty_decls(node)
                    for w in ("global", "nonlocal"):
                        if moved[w]:
                            node["body"].insert(0, S.Decl(w, *moved[w]))
                            changed[0] = True
            for v in list(node.values()):
                visit(v)
        elif isinstance(node, list):
            for v in node:
                visit(v)
    visit(mod)
    return mod if changed[0] else None


def _drop_empty_decls(node):
    if isinstance(node, dict):
        if "body" in node:
            node["body"] = [f for f in node["body"] if not (f.get("k") == "decl" and not f["names"])]
        for v in node.values():
            if isinstance(v, (dict, list)):
                _drop_empty_decls(v)
    elif isinstance(node, list):
        for v in node:
            _drop_empty_decls(v)


def _agrees(mod):
    S.strip(mod)
    res = S.resolve(mod)
    if res.carve:
        return False, None
    try:
        py = "\n".join(S.to_py(mod["body"], res.binders))
    except ValueError:
        return False, None
    hy = S.to_hy(mod)
    why, tag = compare(run_hy(hy), run_py(py))
    return why is None and tag != "twin-broken", hy


def attribute(case, why):
    ir = case.get("ir")
    if not ir:
        return None
    # 1. class scope treated as an enclosing scope
    m1 = normalise_class_capture(ir)
    if m1 is not None:
        ok, _ = _agrees(m1)
        if ok:
            return KEY_CLASSVAR
    # 2. use in a *nested* scope counted as use before the declaration
    m2 = normalise_hoist_declarations(ir)
    if m2 is not None:
        ok, _ = _agrees(m2)
        if ok:
            return KEY_NESTED_USE
    # both features at once
    if m1 is not None:
        m3 = normalise_hoist_declarations(S.strip(m1))
        if m3 is not None:
            ok, _ = _agrees(m3)
            if ok:
                # needs both known mechanisms normalised away; reported under the first
                return KEY_CLASSVAR
    return None
