"""C14 — hy2py output is valid Python that behaves like the compiled AST.

Per program: `hy.cmdline.hy2py_worker` runs in-process (stdout captured; the AST it
compiled is captured by a wrapper on `hy.cmdline.hy_compile`, fallback: compile
again). Then, *after* hy2py has unparsed it, the captured AST is executed, and the
emitted source is parsed, compiled and executed, each in a fresh module under a
fresh trace logger. 1 % of the programs also go through the real `hy2py` command
in a sub-process (stdin and FILE modes).

Oracle: the emitted text parses (`ast.parse`); both runs give the same escaping
exception type, effect trace, RESULT / FINAL values and module namespace.
"""
import argparse
import ast
import contextlib
import copy
import io
import keyword
import math
import os
import subprocess
import sys
import tempfile
import types

from hv import gen_prog as G
from hv import outgen as O
from hv.common import Trace, rng_for

ID = "C14"
LEVEL = "exploration"
RULE = ("programs: (a) gen_prog corpus (module / function mode), also renamed with Python keywords, non-ASCII and "
        "mixed identifiers; (b) template programs over with/try/let/match/comprehensions/while/fn/defclass/local macros/"
        "global-nonlocal/assert/..., extended with every literal kind (ints in all bases, floats incl. Inf NaN -0.0 "
        "1e400, complex incl. NaN/Inf/zero components, strings with quotes/escapes/surrogates, bytes, collections, "
        "keywords, fractions), arithmetic on negative literals, f-strings with nested quotes, conversions, nested "
        "specs and debugging `=`, and user names used as variables, parameters, attributes and keyword arguments, "
        "rendered with keyword / non-ASCII / mixed / plain names; (c) explicit keyword-hazard programs (global/nonlocal/"
        "comprehension leak of a keyword name, class patterns with keyword attributes, dotted imports with a keyword "
        "component, attributes named None/True/False, class patterns with keyword attributes that need mangling); (d) sources of the C04/C06/C07/C08 generators when importable. "
        "Non-trivial = the compiled AST has a hoisted statement (_hy_ name), a minced keyword or a non-trivial "
        "constant (float, complex, bytes, non-ASCII or quoted string, f-string); distinct by program text.")
FLOOR = {"quick": 500, "thorough": 1000}
BUDGET = {"quick": 20, "thorough": 480}
CASE_TIMEOUT = 30
NEEDS_EVENTS = True
ANCHORS = ["hy.cmdline:hy2py_worker", "hy.compat:rewriting_unparse"]
ASSUMPTIONS = [
    "CPython 3.12.1 executes an AST and the source it parses from the same text identically (ast.parse/compile)",
    "sign of a zero component of a complex constant is recorded, not gating (== holds; CPython's unparse)",
]
MANIFEST = {
    "text": "Every generated program is translated by hy2py_worker in-process (1% also by the hy2py command, stdin "
            "and FILE modes); the emitted text must parse, and executing it must give the same escaping exception "
            "type, effect trace, RESULT/FINAL values and module namespace as executing the very AST object hy2py "
            "unparsed (executed after the unparse, so an unparse that mutates its input is visible). Exploration "
            "level: held on the programs run.",
    "note": "Trusted: CPython's parser/compiler agree for equal programs. Secondary: the AST is captured by wrapping "
            "hy.cmdline.hy_compile; if that name is gone the program is compiled a second time instead.",
    "technique": "runtime monitoring: differential execution of compiled AST vs ast.parse(hy2py output) under a "
                 "trace logger with namespace snapshots",
}

K_LIST = "keyword-in-list-valued-identifier-field-not-minced"
K_DOTTED = "keyword-component-of-dotted-module-name-not-minced"
K_NAN = "complex-constant-with-nan-imaginary-part"
K_NEG = "negative-constant-as-power-base-or-trailer-target"
K_CONST = "attribute-or-module-named-True-False-None"
K_KWD = "class-pattern-keyword-attribute-not-mangled"

VERIF = os.path.dirname(os.path.dirname(os.path.abspath(__file__)))
_ST = {"captured": 0, "recompiled": 0, "cli": 0, "cli_fail": 0, "cli_skipped": 0, "signed_zero_only": 0, "n": 0}
_CAP = {"installed": False, "ok": False, "tree": None}
_OPTS = argparse.Namespace(with_source=False, with_ast=False, without_python=False, output=None)


# ---------------------------------------------------------------------------
# cases

def hazard(rng):
    kw = rng.sample(O.KEYWORDS, 3)
    a, b, c = kw
    k = rng.randrange(10)
    if k == 9:
        at = rng.choice(["my-attr", "is-ok?", "über-x", "a-b-c"])
        return "class-pattern-mangled-kw", (f"(setv o (Point 1 2))\n(setv o.{at} 5)\n"
                                            f"(setv RESULT (match o (Point :{at} v :x 1) (L 1 v) _ (L 2 0)))")
    if k == 0:
        return "global-kw", (f"(setv {a} 0 {b} 0)\n(defn f [] (global {a} {b}) (setv {a} (L 1 5) {b} 2) {a})\n"
                             f"(setv RESULT (f))\n(setv FINAL [{a} {b}])")
    if k == 1:
        return "nonlocal-kw", (f"(defn f [] (setv {a} 1 {b} 2) (defn g [] (nonlocal {a} {b}) (setv {a} (L 1 7))) (g) "
                               f"[{a} {b}])\n(setv RESULT (f))")
    if k == 2:
        return "leak-kw", (f"(setv {a} 0)\n(setv RESULT (lfor x (range 3) :do (setv {a} x {b} 1) (L 1 x)))\n"
                           f"(setv FINAL [{a} {b}])")
    if k == 3:
        return "class-pattern-kw", (f"(setv o (Point 1 2))\n(setv o.{a} 5)\n"
                                    f"(setv RESULT (match o (Point :{a} v :x 1) (L 1 v) _ 0))")
    if k == 4:
        return "dotted-import-kw", (f"(setv RESULT (try (import hvnomod.{a} [x]) 1 (except [e ImportError] (L 1 2))))")
    if k == 5:
        return "dotted-import-kw", (f"(setv RESULT (try (import hvnomod.{a}.{b} :as y) 1 (except [e ImportError] (L 1 2))))")
    if k == 6:
        n = rng.choice(["None", "True", "False"])
        return "const-attr", (f"(setv o (Point 1 2))\n(setattr o \"{n}\" 3)\n(setv RESULT (L 1 (. o {n})))")
    if k == 7:
        return "import-kw", (f"(setv RESULT (try (import {a}) (import {b} [{c} :as q]) 1 "
                             f"(except [e ImportError] (L 1 2))))")
    return "kwarg-kw", (f"(defn f [#** kw] (L 1 (sorted (.items kw))))\n(f :{a} 1 :{b} 2)\n"
                        f"(setv d (dict :{c} 3))\n(setv RESULT (L 2 (sorted (.items d))))")


def cases(seed, tier, shard, nshards):
    i = 0
    foreign = O.foreign_texts(seed, shard, nshards)
    while True:
        rng = rng_for(seed, ID, shard, i)
        i += 1
        r = i % 20
        cli = None
        if rng.random() < 0.01:
            cli = rng.choice(["stdin", "file"])
        if r < 4:
            prog = G.gen_program(rng, max_depth=rng.choice([3, 4, 5]), max_nodes=rng.choice([25, 40, 60]))
            text = G.render_program(prog, rng.choice(["module", "fn"]), rng.random() < 0.8)
            yield {"kind": "prog", "text": text, "cli": cli}
        elif r < 7:
            prog = G.gen_program(rng, max_depth=rng.choice([3, 4]), max_nodes=rng.choice([25, 40]))
            text = G.render_program(prog, rng.choice(["module", "fn"]), True)
            style = rng.choice(["keyword", "keyword", "nonascii", "mixed"])
            text, _ = O.rename_gen_prog(text, rng, style)
            yield {"kind": "prog-" + style, "text": text, "cli": cli}
        elif r < 16:
            t = O.gen_template(rng, opts=("lits", "fstr", "kwattr", "annot"), max_depth=rng.choice([2, 3, 3]),
                               budget=rng.choice([14, 22, 30]))
            style = rng.choice(["keyword", "keyword", "nonascii", "mixed", "benign"])
            names = O.names_for(rng, t, style)
            yield {"kind": "tmpl-" + style, "text": O.subst(t["tmpl"], names), "feats": t["feats"], "cli": cli}
        elif r < 18:
            tag, text = hazard(rng)
            yield {"kind": "hazard", "feats": [tag], "text": text, "cli": cli}
        else:
            try:
                origin, text = next(foreign)
            except StopIteration:
                continue
            yield {"kind": "foreign-" + origin, "text": text, "cli": cli}


def case_key(case):
    return [case["text"], case.get("cli")]


# ---------------------------------------------------------------------------
# running things

def install_capture():
    if _CAP["installed"]:
        return
    _CAP["installed"] = True
    try:
        import hy.cmdline as C
        orig = C.hy_compile

        def hy_compile(*a, **kw):
            _CAP["tree"] = None
            t = orig(*a, **kw)
            _CAP["tree"] = t
            return t
        C.hy_compile = hy_compile
        _CAP["ok"] = True
    except Exception:
        _CAP["ok"] = False


def setup_worker(tier, seed):
    install_capture()


def tok(v, depth=0):
    """stable token of a value: plain data by repr (NaN-aware), containers recursively, else the type name"""
    if isinstance(v, float):
        return ["float", "nan" if v != v else repr(v)]
    if isinstance(v, complex):
        return ["complex", tok(v.real)[1], tok(v.imag)[1]]
    if isinstance(v, (int, str, bytes, bool, type(None))):
        return [type(v).__name__, repr(v)]
    if depth > 6:
        return [type(v).__name__, "..."]
    if isinstance(v, (list, tuple)):
        return [type(v).__name__, [tok(x, depth + 1) for x in v]]
    if isinstance(v, (set, frozenset)):
        return [type(v).__name__, sorted((tok(x, depth + 1) for x in v), key=repr)]
    if isinstance(v, dict):
        return ["dict", [[tok(k, depth + 1), tok(x, depth + 1)] for k, x in v.items()]]
    if isinstance(v, BaseException):
        return ["exc", type(v).__name__]
    try:
        import hy.models as M
        if isinstance(v, M.Object):
            return ["model", type(v).__name__, repr(v)[:200]]
    except Exception:
        pass
    return [type(v).__name__]


class T14(Trace):
    def L(self, k, v=None):
        self.n += 1
        self.events.append([k, tok(v)])
        return v


def run_code(code, modname):
    """exec a code object in a fresh module registered under modname; returns observation"""
    tr = T14()
    m = types.ModuleType(modname)
    m.__file__ = f"<{modname}>"
    env = O.tmpl_env(tr)
    env["L"] = tr.L
    m.__dict__.update(env)
    base = set(m.__dict__)
    prev = sys.modules.get(modname)
    sys.modules[modname] = m
    exc = None
    try:
        try:
            exec(code, m.__dict__)
        except BaseException as e:
            if type(e).__name__ == "CaseTimeout":
                raise
            exc = e
    finally:
        if prev is None:
            sys.modules.pop(modname, None)
        else:
            sys.modules[modname] = prev
    ns = {k: tok(v) for k, v in m.__dict__.items()
          if k not in base and not (k.startswith("__") and k.endswith("__")) and k not in ("hy", "_hy_macros",
                                                                                          "_hy_reader_macros")}
    return {"exc": None if exc is None else type(exc).__name__, "events": tr.events, "ns": ns,
            "nev": len(tr.events)}


def zero_norm(x):
    """drop the sign of zeros in tokens (recorded, not gating)"""
    if isinstance(x, list):
        return [zero_norm(y) for y in x]
    if isinstance(x, dict):
        return {k: zero_norm(v) for k, v in x.items()}
    if x == "-0.0":
        return "0.0"
    return x


def diff_runs(a, b):
    """None if same; else (why, signed_zero_only)"""
    for name in ("exc", "events", "ns"):
        if a[name] != b[name]:
            if zero_norm(a[name]) == zero_norm(b[name]):
                continue
            if name == "ns":
                ka, kb = set(a["ns"]), set(b["ns"])
                if ka != kb:
                    return f"module namespace differs: only in AST run {sorted(ka - kb)[:5]}, only in source run {sorted(kb - ka)[:5]}"
                for k in sorted(ka):
                    if zero_norm(a["ns"][k]) != zero_norm(b["ns"][k]):
                        return f"variable {k!r}: AST run {a['ns'][k]} vs source run {b['ns'][k]}"
            if name == "events":
                for i, (x, y) in enumerate(zip(a["events"], b["events"])):
                    if zero_norm(x) != zero_norm(y):
                        return f"trace event #{i}: AST run {x} vs source run {y}"
                return f"trace length {len(a['events'])} (AST run) vs {len(b['events'])} (source run)"
            return f"escaping exception type: AST run {a['exc']} vs source run {b['exc']}"
    return None


def hy2py_inproc(text, modname):
    """(source text or None, tree or None, exception or None)"""
    import hy.cmdline as C
    _CAP["tree"] = None
    buf = io.StringIO()
    err = None
    try:
        with contextlib.redirect_stdout(buf), contextlib.redirect_stderr(io.StringIO()):
            C.hy2py_worker(text, _OPTS, modname)
    except BaseException as e:
        if type(e).__name__ == "CaseTimeout":
            raise
        err = e
    tree = _CAP["tree"] if _CAP["ok"] else None
    _CAP["tree"] = None
    return (None if err is not None else buf.getvalue()), tree, err


def recompile(text, modname):
    from hy.compiler import hy_compile
    from hy.reader import read_many
    m = types.ModuleType(modname)
    sys.modules[modname] = m
    try:
        return hy_compile(read_many(text, filename=modname, skip_shebang=True), m, filename=modname, source=text)
    finally:
        sys.modules.pop(modname, None)


def hy2py_cli(text, mode, modname):
    """run the real hy2py command; returns emitted text or None"""
    base = os.environ.get("VERIF_SCRATCH") or tempfile.gettempdir()
    d = os.path.join(base, f"c14-{os.getpid()}")
    os.makedirs(d, exist_ok=True)
    exe = os.path.join(os.path.dirname(sys.executable), "hy2py")
    cmd = [exe] if os.path.exists(exe) else [sys.executable, "-c", "from hy.cmdline import hy2py_main; hy2py_main()"]
    env = dict(os.environ)
    env["PYTHONIOENCODING"] = "utf-8"
    _ST["cli"] += 1
    try:
        if mode == "stdin":
            p = subprocess.run(cmd + ["-"], input=text.encode("utf-8"), env=env, cwd=d, capture_output=True, timeout=20)
        else:
            path = os.path.join(d, modname + ".hy")
            with open(path, "w", encoding="utf-8") as f:
                f.write(text)
            try:
                p = subprocess.run(cmd + [path], env=env, cwd=d, capture_output=True, timeout=20)
            finally:
                os.remove(path)
        if p.returncode < 0:                    # killed by a signal: environment, not hy2py
            _ST["cli_skipped"] += 1
            return "SKIP", f"killed by signal {-p.returncode}"
        if p.returncode != 0:
            _ST["cli_fail"] += 1
            return None, p.stderr.decode("utf-8", "replace")[-300:]
        return p.stdout.decode("utf-8"), None
    except (subprocess.TimeoutExpired, OSError) as e:
        _ST["cli_skipped"] += 1
        return "SKIP", repr(e)
    except UnicodeDecodeError as e:
        _ST["cli_fail"] += 1
        return None, repr(e)


# ---------------------------------------------------------------------------
# known mechanisms: feature detector + normaliser on the AST (what a repair would do)

def _mince(v):
    if keyword.iskeyword(v) and v not in ("True", "False", "None"):
        return chr(ord(v[0]) - ord("a") + ord("𝐚")) + v[1:]
    return v


def _walk_fields(tree):
    for node in ast.walk(tree):
        if type(node) is ast.Constant:
            continue
        for f in node._fields:
            yield node, f, getattr(node, f, None)


def feat_list(tree):
    return any(type(v) is list and any(type(x) is str and _mince(x) != x for x in v) for _, _, v in _walk_fields(tree))


def norm_list(tree):
    t = copy.deepcopy(tree)
    for node, f, v in list(_walk_fields(t)):
        if type(v) is list and v and all(type(x) is str for x in v):
            setattr(node, f, [_mince(x) for x in v])
    return tree, t


def feat_dotted(tree):
    return any(type(v) is str and "." in v and any(_mince(p) != p for p in v.split("."))
               for n, f, v in _walk_fields(tree) if isinstance(n, (ast.alias, ast.ImportFrom)))


def norm_dotted(tree):
    t = copy.deepcopy(tree)
    for node, f, v in list(_walk_fields(t)):
        if isinstance(node, (ast.alias, ast.ImportFrom)) and type(v) is str and "." in v:
            setattr(node, f, ".".join(_mince(p) for p in v.split(".")))
    return tree, t


def _nan_imag(v):
    return type(v) is complex and v.imag != v.imag


def feat_nan(tree):
    return any(isinstance(n, ast.Constant) and _nan_imag(n.value) for n in ast.walk(tree))


def norm_nan(tree):
    t = copy.deepcopy(tree)
    for n in ast.walk(t):
        if isinstance(n, ast.Constant) and _nan_imag(n.value):
            n.value = complex(n.value.real if n.value.real == n.value.real else 0.0, 1.0)
    return t, t


def _neg(v):
    if type(v) in (int, float):
        return v < 0 or (type(v) is float and v == 0 and math.copysign(1, v) < 0)
    if type(v) is complex:
        return repr(v).startswith("-")
    return False


def _neg_sites(tree):
    for n in ast.walk(tree):
        cands = []
        if isinstance(n, ast.BinOp) and isinstance(n.op, ast.Pow):
            cands.append(("left", n.left))
        elif isinstance(n, (ast.Attribute, ast.Subscript)):
            cands.append(("value", n.value))
        elif isinstance(n, ast.Call):
            cands.append(("func", n.func))
        elif isinstance(n, ast.Await):
            cands.append(("value", n.value))
        for f, c in cands:
            if isinstance(c, ast.Constant) and _neg(c.value):
                yield n, f, c


def feat_neg(tree):
    return any(True for _ in _neg_sites(tree))


def norm_neg(tree):
    t = copy.deepcopy(tree)
    for n, f, c in list(_neg_sites(t)):
        pos = ast.Constant(value=-c.value)
        setattr(n, f, ast.copy_location(ast.UnaryOp(op=ast.USub(), operand=ast.copy_location(pos, c)), c))
    return tree, t


def feat_const(tree):
    return any(type(v) is str and any(p in ("True", "False", "None") for p in v.split("."))
               for n, f, v in _walk_fields(tree) if isinstance(n, (ast.Attribute, ast.alias, ast.ImportFrom)))


def norm_const(tree):
    t = copy.deepcopy(tree)
    for node, f, v in list(_walk_fields(t)):
        if isinstance(node, (ast.Attribute, ast.alias, ast.ImportFrom)) and type(v) is str:
            setattr(node, f, ".".join(p + "_" if p in ("True", "False", "None") else p for p in v.split(".")))
    return t, t


def feat_kwd(tree):
    return any(isinstance(n, ast.MatchClass) and any(not a.isidentifier() for a in n.kwd_attrs) for n in ast.walk(tree))


def norm_kwd(tree):
    t = copy.deepcopy(tree)
    for n in ast.walk(t):
        if isinstance(n, ast.MatchClass):
            n.kwd_attrs = [a if a.isidentifier() else O.mangle(a) for a in n.kwd_attrs]
    return t, t


# key -> (feature, normaliser, symptom the mechanism explains)
# (normalisers that change the program come first, pure unparse repairs after them)
MECH = [(K_NAN, feat_nan, norm_nan, "parse"), (K_CONST, feat_const, norm_const, "parse"),
        (K_KWD, feat_kwd, norm_kwd, "parse"),
        (K_LIST, feat_list, norm_list, "parse"), (K_DOTTED, feat_dotted, norm_dotted, "parse"),
        (K_NEG, feat_neg, norm_neg, "behaviour")]


def judge(tree_exec, src, modname):
    """(symptom, why) for an emitted text vs the AST to execute; symptom None if fine"""
    judge.last = None
    try:
        parsed = ast.parse(src)
    except (SyntaxError, ValueError) as e:
        line = src.splitlines()[e.lineno - 1].strip()[:160] if getattr(e, "lineno", None) and e.lineno <= len(src.splitlines()) else ""
        return "parse", f"hy2py output does not parse: {type(e).__name__}: {e} | offending line: {line}"
    try:
        code_t = compile(tree_exec, modname, "exec", dont_inherit=True)
    except (SyntaxError, ValueError, TypeError):
        return "skip", "python rejects the AST"
    try:
        code_s = compile(parsed, modname, "exec", dont_inherit=True)
    except (SyntaxError, ValueError) as e:
        return "parse", f"hy2py output parses but does not compile: {type(e).__name__}: {e}"
    a = run_code(code_t, modname)
    b = run_code(code_s, modname)
    d = diff_runs(a, b)
    judge.last = (a, b)
    if d is None and (a["exc"], a["events"], a["ns"]) != (b["exc"], b["events"], b["ns"]):
        _ST["signed_zero_only"] += 1
    return ("behaviour", d) if d else (None, None)


judge.last = None


def attribute(tree, symptom, modname):
    """key of the known mechanism that explains the observed symptom, or None. A mechanism is
    named only if its feature is present and the violation disappears when the known features
    are normalised away - and reappears (with this symptom first) when this one is left in."""
    present = [(k, norm, sym) for k, feat, norm, sym in MECH if feat(tree)]
    if not any(sym == symptom for _, _, sym in present):
        return None

    def outcome(subset):
        te = tu = tree
        for k, norm, _ in subset:
            e2, u2 = norm(tu)
            # exec tree: the normaliser either keeps its input (pure unparse repair) or changes both
            te = te if e2 is tu else e2
            tu = u2
        try:
            src = ast.unparse(tu)
        except Exception:
            return "parse"
        return judge(te, src, modname)[0]
    for ent in present:
        if ent[2] == symptom and outcome([ent]) is None:
            return ent[0]
    if len(present) > 1 and outcome(present) is None:
        for ent in present:
            if ent[2] == symptom and outcome([p for p in present if p is not ent]) == symptom:
                return ent[0]
    return None


def nontrivial_tree(tree):
    for n in ast.walk(tree):
        if isinstance(n, ast.Name) and n.id.startswith("_hy_"):
            return "hoisted"
        if isinstance(n, (ast.FunctionDef, ast.AsyncFunctionDef)) and n.name.startswith("_hy_"):
            return "hoisted"
        if isinstance(n, ast.JoinedStr):
            return "fstring"
        if isinstance(n, ast.Constant):
            v = n.value
            if isinstance(v, (float, complex, bytes)) or (isinstance(v, str) and (not v.isascii() or "'" in v or '"' in v or "\\" in v)):
                return "constant"
            continue
        for f in n._fields:
            v = getattr(n, f, None)
            if type(v) is str and _mince(v) != v:
                return "minced"
            if type(v) is list and any(type(x) is str and _mince(x) != x for x in v):
                return "minced"
    return None


def run_case(case):
    install_capture()
    text = case["text"]
    _ST["n"] += 1
    # the module name is embedded in the code `require` compiles to; `hy2py -` calls its module "<stdin>"
    modname = "<stdin>" if case.get("cli") == "stdin" else f"hv14m{_ST['n'] % 7}"
    classes = ["kind:" + case["kind"]] + ["feat:" + f for f in case.get("feats", ())]
    src, tree, err = hy2py_inproc(text, modname)
    if tree is None and err is not None:
        return {"ok": None, "classes": classes + ["rejected-by-compiler"]}
    if tree is None:
        try:
            tree = recompile(text, modname)
            _ST["recompiled"] += 1
        except BaseException as e:
            if type(e).__name__ == "CaseTimeout":
                raise
            return {"ok": None, "classes": classes + ["rejected-by-compiler"]}
    else:
        _ST["captured"] += 1
    nt = nontrivial_tree(tree)
    res = {"ok": True, "nontrivial": bool(nt), "classes": classes + (["nontrivial:" + nt] if nt else []),
           "events": 0, "sample": {"kind": case["kind"], "text": text}}
    pristine = None
    if err is not None:
        symptom, why = "parse", (f"hy2py compiled the program but failed to emit Python: {type(err).__name__}: "
                                 f"{str(err)[:200]}")
    else:
        symptom, why = judge(tree, src, modname)
        if symptom == "skip":
            return {"ok": None, "classes": classes + ["python-rejects-ast"]}
        if judge.last:
            res["events"] = judge.last[0]["nev"] + judge.last[1]["nev"] + 1
        else:
            res["events"] = 1
    if symptom is None and case.get("cli"):
        out, cerr = hy2py_cli(text, case["cli"], modname)
        res["classes"].append("cli:" + case["cli"])
        if out == "SKIP":
            # the sub-process timed out / could not be started / was killed: nothing was observed
            res["classes"].append("cli-subprocess-skipped")
        elif out is None:
            symptom, why = "cli", f"the hy2py command ({case['cli']} mode) failed on a program hy2py_worker translates: {cerr}"
        else:
            symptom, why = judge(tree, out, modname)
            if symptom == "skip":
                symptom = None
            if symptom:
                why = f"[hy2py command, {case['cli']} mode] {why}"
    if symptom is None:
        return res
    res.update(ok=False, why=f"{why} | program: {text[:600]}")
    if symptom in ("parse", "behaviour"):
        # attribution needs the AST as the compiler produced it (hy2py may have mutated the captured one)
        try:
            pristine = recompile(text, modname)
        except BaseException as e:
            if type(e).__name__ == "CaseTimeout":
                raise
            pristine = None
        if pristine is not None and ast.dump(pristine) == ast.dump(tree):
            key = attribute(pristine, symptom, modname)
            if key:
                res["finding"] = key
                res["classes"].append("known-mechanism:" + key)
    return res


def finish_worker():
    return {"ast_captured_from_hy2py_worker": _ST["captured"], "ast_recompiled_fallback": _ST["recompiled"],
            "hy2py_command_runs": _ST["cli"], "hy2py_command_failures": _ST["cli_fail"],
            "hy2py_command_skipped": _ST["cli_skipped"],
            "runs_differing_only_in_sign_of_zero_not_gating": _ST["signed_zero_only"]}


def gate(tot, classes, extra, tier):
    runs, skipped = extra.get("hy2py_command_runs", 0), extra.get("hy2py_command_skipped", 0)
    if runs >= 10 and skipped > 0.10 * runs:
        return f"hy2py-command-skipped-{skipped}-of-{runs}"
    return None
